//! Stall gate: the "slow tier" fault. Threads the scheduler does not control (tokio's blocking pool, named by the
//! harness) pass straight through the shim; while the gate is armed, such a thread is parked at its first blocking
//! acquisition of one of the armed locks until the harness releases the gate. Which locks belong to which tier is
//! learnt by the harness itself (`record`): it runs the tier's search once on its own thread and collects the
//! addresses of the locks that search acquires. Nothing here draws randomness or reads a clock.

use std::cell::{Cell, RefCell};
use std::collections::BTreeSet;
use std::sync::atomic::{AtomicBool, AtomicU64, Ordering};
use std::sync::{Condvar, Mutex as StdMutex};

static ARMED: AtomicBool = AtomicBool::new(false);
static RECORDING_ANY: AtomicBool = AtomicBool::new(false);

type Callback = Box<dyn Fn() + Send + Sync>;

struct Gate {
    on_stall: Option<Callback>,
    locks: BTreeSet<usize>,
    released: bool,
    stalled: usize,
    ever_stalled: u64,
}

static GATE: StdMutex<Gate> = StdMutex::new(Gate { on_stall: None, locks: BTreeSet::new(), released: true, stalled: 0, ever_stalled: 0 });
static CV: Condvar = Condvar::new();

/// name prefix of the threads that may be stalled (the harness names its blocking pool accordingly)
pub const STALLABLE_PREFIX: &str = "vsim-blk";

thread_local! {
    static STALLABLE: Cell<u8> = const { Cell::new(0) }; // 0 unknown, 1 yes, 2 no
    static RECORDING: RefCell<Option<BTreeSet<usize>>> = const { RefCell::new(None) };
}

fn stallable() -> bool {
    STALLABLE.with(|s| {
        if s.get() == 0 {
            let yes = std::thread::current().name().map(|n| n.starts_with(STALLABLE_PREFIX)).unwrap_or(false);
            s.set(if yes { 1 } else { 2 });
        }
        s.get() == 1
    })
}

/// Called by the shim for every lock operation of a thread the scheduler does not control.
#[inline]
pub fn pass_through(lock: &AtomicU64, blocking_acquire: bool, acquire: bool) {
    if !acquire {
        return;
    }
    if RECORDING_ANY.load(Ordering::Relaxed) {
        RECORDING.with(|r| {
            if let Some(set) = r.borrow_mut().as_mut() {
                set.insert(lock as *const AtomicU64 as usize);
            }
        });
    }
    if !blocking_acquire || !ARMED.load(Ordering::Acquire) || !stallable() {
        return;
    }
    let addr = lock as *const AtomicU64 as usize;
    let mut g = GATE.lock().unwrap_or_else(|e| e.into_inner());
    if g.released || !g.locks.contains(&addr) {
        return;
    }
    g.stalled += 1;
    g.ever_stalled += 1;
    if let Some(cb) = g.on_stall.as_ref() {
        cb();
    }
    CV.notify_all();
    while !g.released {
        g = CV.wait(g).unwrap_or_else(|e| e.into_inner());
    }
    g.stalled -= 1;
    CV.notify_all();
}

/// Run `f` on the calling thread and return the addresses of the locks it acquired through the shim.
pub fn record<R>(f: impl FnOnce() -> R) -> (R, BTreeSet<usize>) {
    RECORDING.with(|r| *r.borrow_mut() = Some(BTreeSet::new()));
    RECORDING_ANY.store(true, Ordering::SeqCst);
    let out = f();
    RECORDING_ANY.store(false, Ordering::SeqCst);
    let set = RECORDING.with(|r| r.borrow_mut().take()).unwrap_or_default();
    (out, set)
}

/// Arm the gate: stallable threads park at their first blocking acquisition of one of `locks`.
/// `on_stall` is called (on the parking thread, gate locked) each time a thread parks.
pub fn arm(locks: BTreeSet<usize>, on_stall: Option<Callback>) {
    let mut g = GATE.lock().unwrap_or_else(|e| e.into_inner());
    g.locks = locks;
    g.on_stall = on_stall;
    g.released = false;
    g.ever_stalled = 0;
    ARMED.store(true, Ordering::Release);
}

/// Number of threads that have parked since the gate was armed.
pub fn ever_stalled() -> u64 {
    GATE.lock().unwrap_or_else(|e| e.into_inner()).ever_stalled
}

/// Disarm and let every parked thread continue.
pub fn release() {
    ARMED.store(false, Ordering::Release);
    let mut g = GATE.lock().unwrap_or_else(|e| e.into_inner());
    g.released = true;
    g.on_stall = None;
    g.locks.clear();
    CV.notify_all();
}
