//! Drop-in `parking_lot` facade used only by the verification build of KyroDB.
//!
//! `Mutex`/`RwLock` are `lock_api` locks over the *real* parking_lot raw locks. Every lock operation of a
//! thread that is controlled by the simulator (see [`sim`]) is first decided by the scheduler's lock model
//! (parking_lot's own acquisition rules, `raw_rwlock.rs`), and only then performed on the real raw lock, so
//! the real lock never blocks a controlled thread. Threads unknown to the simulator pass straight through.
#![allow(clippy::missing_safety_doc)]

use std::sync::atomic::AtomicU64;

pub mod sim;
pub mod stall;
use sim::Op;

pub use lock_api;
pub use real_pl::deadlock;
pub use real_pl::{Condvar, Once, OnceState, WaitTimeoutResult};

pub struct SimRawMutex {
    real: real_pl::RawMutex,
    id: AtomicU64,
}

unsafe impl lock_api::RawMutex for SimRawMutex {
    #[allow(clippy::declare_interior_mutable_const)]
    const INIT: Self = SimRawMutex {
        real: <real_pl::RawMutex as lock_api::RawMutex>::INIT,
        id: AtomicU64::new(0),
    };
    type GuardMarker = lock_api::GuardNoSend;

    #[inline]
    fn lock(&self) {
        sim::point(&self.id, Op::MLock);
        lock_api::RawMutex::lock(&self.real)
    }
    #[inline]
    fn try_lock(&self) -> bool {
        match sim::point(&self.id, Op::MTry) {
            Some(false) => false,
            Some(true) => {
                let ok = lock_api::RawMutex::try_lock(&self.real);
                if !ok {
                    sim::model_mismatch("mutex try_lock granted by model but real lock busy");
                }
                ok
            }
            None => lock_api::RawMutex::try_lock(&self.real),
        }
    }
    #[inline]
    unsafe fn unlock(&self) {
        lock_api::RawMutex::unlock(&self.real);
        sim::point(&self.id, Op::MUnlock);
    }
    #[inline]
    fn is_locked(&self) -> bool {
        lock_api::RawMutex::is_locked(&self.real)
    }
}

pub struct SimRawRwLock {
    real: real_pl::RawRwLock,
    id: AtomicU64,
}

unsafe impl lock_api::RawRwLock for SimRawRwLock {
    #[allow(clippy::declare_interior_mutable_const)]
    const INIT: Self = SimRawRwLock {
        real: <real_pl::RawRwLock as lock_api::RawRwLock>::INIT,
        id: AtomicU64::new(0),
    };
    type GuardMarker = lock_api::GuardNoSend;

    #[inline]
    fn lock_shared(&self) {
        sim::point(&self.id, Op::Shared);
        lock_api::RawRwLock::lock_shared(&self.real)
    }
    #[inline]
    fn try_lock_shared(&self) -> bool {
        match sim::point(&self.id, Op::TryShared) {
            Some(false) => false,
            Some(true) => {
                let ok = lock_api::RawRwLock::try_lock_shared(&self.real);
                if !ok {
                    sim::model_mismatch("try_lock_shared granted by model but real lock busy");
                }
                ok
            }
            None => lock_api::RawRwLock::try_lock_shared(&self.real),
        }
    }
    #[inline]
    unsafe fn unlock_shared(&self) {
        lock_api::RawRwLock::unlock_shared(&self.real);
        sim::point(&self.id, Op::UnShared);
    }
    #[inline]
    fn lock_exclusive(&self) {
        sim::point(&self.id, Op::Excl);
        lock_api::RawRwLock::lock_exclusive(&self.real)
    }
    #[inline]
    fn try_lock_exclusive(&self) -> bool {
        match sim::point(&self.id, Op::TryExcl) {
            Some(false) => false,
            Some(true) => {
                let ok = lock_api::RawRwLock::try_lock_exclusive(&self.real);
                if !ok {
                    sim::model_mismatch("try_lock_exclusive granted by model but real lock busy");
                }
                ok
            }
            None => lock_api::RawRwLock::try_lock_exclusive(&self.real),
        }
    }
    #[inline]
    unsafe fn unlock_exclusive(&self) {
        lock_api::RawRwLock::unlock_exclusive(&self.real);
        sim::point(&self.id, Op::UnExcl);
    }
    #[inline]
    fn is_locked(&self) -> bool {
        lock_api::RawRwLock::is_locked(&self.real)
    }
    #[inline]
    fn is_locked_exclusive(&self) -> bool {
        lock_api::RawRwLock::is_locked_exclusive(&self.real)
    }
}

unsafe impl lock_api::RawRwLockUpgrade for SimRawRwLock {
    #[inline]
    fn lock_upgradable(&self) {
        sim::point(&self.id, Op::Upgr);
        lock_api::RawRwLockUpgrade::lock_upgradable(&self.real)
    }
    #[inline]
    fn try_lock_upgradable(&self) -> bool {
        match sim::point(&self.id, Op::TryUpgr) {
            Some(false) => false,
            Some(true) => {
                let ok = lock_api::RawRwLockUpgrade::try_lock_upgradable(&self.real);
                if !ok {
                    sim::model_mismatch("try_lock_upgradable granted by model but real lock busy");
                }
                ok
            }
            None => lock_api::RawRwLockUpgrade::try_lock_upgradable(&self.real),
        }
    }
    #[inline]
    unsafe fn unlock_upgradable(&self) {
        lock_api::RawRwLockUpgrade::unlock_upgradable(&self.real);
        sim::point(&self.id, Op::UnUpgr);
    }
    #[inline]
    unsafe fn upgrade(&self) {
        sim::point(&self.id, Op::Upgrade);
        lock_api::RawRwLockUpgrade::upgrade(&self.real)
    }
    #[inline]
    unsafe fn try_upgrade(&self) -> bool {
        match sim::point(&self.id, Op::TryUpgrade) {
            Some(false) => false,
            Some(true) => {
                let ok = lock_api::RawRwLockUpgrade::try_upgrade(&self.real);
                if !ok {
                    sim::model_mismatch("try_upgrade granted by model but real lock busy");
                }
                ok
            }
            None => lock_api::RawRwLockUpgrade::try_upgrade(&self.real),
        }
    }
}

unsafe impl lock_api::RawRwLockDowngrade for SimRawRwLock {
    #[inline]
    unsafe fn downgrade(&self) {
        lock_api::RawRwLockDowngrade::downgrade(&self.real);
        sim::point(&self.id, Op::Downgrade);
    }
}

unsafe impl lock_api::RawRwLockUpgradeDowngrade for SimRawRwLock {
    #[inline]
    unsafe fn downgrade_upgradable(&self) {
        lock_api::RawRwLockUpgradeDowngrade::downgrade_upgradable(&self.real);
        sim::point(&self.id, Op::DowngradeUpgr);
    }
    #[inline]
    unsafe fn downgrade_to_upgradable(&self) {
        lock_api::RawRwLockUpgradeDowngrade::downgrade_to_upgradable(&self.real);
        sim::point(&self.id, Op::DowngradeToUpgr);
    }
}

pub type Mutex<T> = lock_api::Mutex<SimRawMutex, T>;
pub type MutexGuard<'a, T> = lock_api::MutexGuard<'a, SimRawMutex, T>;
pub type MappedMutexGuard<'a, T> = lock_api::MappedMutexGuard<'a, SimRawMutex, T>;
pub type RwLock<T> = lock_api::RwLock<SimRawRwLock, T>;
pub type RwLockReadGuard<'a, T> = lock_api::RwLockReadGuard<'a, SimRawRwLock, T>;
pub type RwLockWriteGuard<'a, T> = lock_api::RwLockWriteGuard<'a, SimRawRwLock, T>;
pub type RwLockUpgradableReadGuard<'a, T> = lock_api::RwLockUpgradableReadGuard<'a, SimRawRwLock, T>;
pub type MappedRwLockReadGuard<'a, T> = lock_api::MappedRwLockReadGuard<'a, SimRawRwLock, T>;
pub type MappedRwLockWriteGuard<'a, T> = lock_api::MappedRwLockWriteGuard<'a, SimRawRwLock, T>;

pub const fn const_mutex<T>(val: T) -> Mutex<T> {
    Mutex::const_new(<SimRawMutex as lock_api::RawMutex>::INIT, val)
}
pub const fn const_rwlock<T>(val: T) -> RwLock<T> {
    RwLock::const_new(<SimRawRwLock as lock_api::RawRwLock>::INIT, val)
}
