//! Seeded one-baton scheduler over real OS threads with a model of parking_lot's lock acquisition rules.
//!
//! A *controlled* thread runs until its next scheduling point (before every acquire, at every try-acquire,
//! optionally after every release, at harness stamps and at intercepted I/O calls), where the scheduler
//! decides who runs next. One seed (or one recorded list of non-default decisions) is one exact execution.

use std::any::Any;
use std::cell::Cell;
use std::collections::{BTreeMap, BTreeSet, HashMap};
use std::panic::{self, AssertUnwindSafe};
use std::sync::atomic::{AtomicBool, AtomicU64, Ordering};
use std::sync::{Arc, Condvar, Mutex as StdMutex, Once};

#[derive(Clone, Copy, Debug, PartialEq, Eq, Hash)]
#[repr(u8)]
pub enum Op {
    MLock = 1,
    MTry,
    MUnlock,
    Shared,
    TryShared,
    UnShared,
    Excl,
    TryExcl,
    UnExcl,
    Upgr,
    TryUpgr,
    UnUpgr,
    Upgrade,
    TryUpgrade,
    Downgrade,
    DowngradeUpgr,
    DowngradeToUpgr,
    Yield,
}

impl Op {
    fn is_release(self) -> bool {
        matches!(
            self,
            Op::MUnlock | Op::UnShared | Op::UnExcl | Op::UnUpgr | Op::Downgrade | Op::DowngradeUpgr | Op::DowngradeToUpgr
        )
    }
    fn is_blocking_acquire(self) -> bool {
        matches!(self, Op::MLock | Op::Shared | Op::Excl | Op::Upgr | Op::Upgrade)
    }
    fn is_acquire(self) -> bool {
        matches!(
            self,
            Op::MLock | Op::MTry | Op::Shared | Op::TryShared | Op::Excl | Op::TryExcl | Op::Upgr | Op::TryUpgr | Op::Upgrade | Op::TryUpgrade
        )
    }
}

#[derive(Clone, Debug)]
pub enum Strategy {
    /// uniform choice among runnable threads at every decision
    RandomWalk,
    /// keep the running thread with probability `stay_pct`/100, otherwise uniform
    StickyWalk { stay_pct: u32 },
    /// PCT: random priorities, `depth-1` priority change points among the first `len` decisions
    Pct { depth: u32, len: u64 },
    /// run-to-block default with `count` seeded preemptions among the first `len` decisions
    Preempt { count: u32, len: u64 },
    /// default policy (keep running thread, else lowest runnable tid) except at the listed decisions
    Replay(Vec<(u64, u32)>),
}

#[derive(Clone, Debug)]
pub struct RunConfig {
    pub seed: u64,
    pub strategy: Strategy,
    pub max_decisions: u64,
    pub yield_on_release: bool,
    pub record_sites: bool,
}

#[derive(Clone, Debug, Default)]
pub struct ThreadReport {
    pub tid: usize,
    pub wanted: Option<(u32, String, String)>, // (lock ordinal, op, site)
    pub held: Vec<(u32, String, String)>,     // (lock ordinal, mode, site)
    pub finished: bool,
}

#[derive(Clone, Debug, Default)]
pub struct RunResult {
    pub deadlock: Option<Vec<ThreadReport>>,
    pub step_cap_hit: bool,
    pub decisions: u64,
    pub points: u64,
    pub trace_hash: u64,
    /// decisions that differed from the default policy: (decision index, chosen tid)
    pub choices: Vec<(u64, u32)>,
    /// lock-order edges (held site -> wanted site), only with record_sites
    pub edges: BTreeSet<(String, String)>,
    pub panics: Vec<(usize, String)>,
    pub model_mismatch: Option<String>,
}

struct SimAbort;

#[derive(Default)]
struct LockModel {
    mutex_owner: Option<usize>,
    wbit: Option<usize>,
    wheld: bool,
    upgr: Option<usize>,
    readers: Vec<usize>,
}

impl LockModel {
    fn is_free(&self) -> bool {
        self.mutex_owner.is_none() && self.wbit.is_none() && self.upgr.is_none() && self.readers.is_empty()
    }
}

struct Th {
    pending: Option<(u64, Op)>,
    pending_site: u32,
    claimed: bool,
    result: bool,
    finished: bool,
    started: bool,
    held: Vec<(u64, Op, u32)>,
}

struct SplitMix(u64);
impl SplitMix {
    fn next(&mut self) -> u64 {
        self.0 = self.0.wrapping_add(0x9E3779B97F4A7C15);
        let mut z = self.0;
        z = (z ^ (z >> 30)).wrapping_mul(0xBF58476D1CE4E5B9);
        z = (z ^ (z >> 27)).wrapping_mul(0x94D049BB133111EB);
        z ^ (z >> 31)
    }
    fn below(&mut self, n: u64) -> u64 {
        if n == 0 {
            0
        } else {
            self.next() % n
        }
    }
}

struct State {
    threads: Vec<Th>,
    locks: HashMap<u64, LockModel>,
    ordinals: HashMap<u64, u32>,
    current: Option<usize>,
    over: bool,
    all_done: bool,
    decisions: u64,
    points: u64,
    max_decisions: u64,
    strategy: Strategy,
    rng: SplitMix,
    prio: Vec<i64>,
    change_points: Vec<u64>,
    preempt_points: Vec<u64>,
    replay_map: BTreeMap<u64, u32>,
    trace_hash: u64,
    choices: Vec<(u64, u32)>,
    deadlock: Option<Vec<ThreadReport>>,
    step_cap_hit: bool,
    yield_on_release: bool,
    record_sites: bool,
    sites: Vec<String>,
    site_ids: HashMap<String, u32>,
    edges: BTreeSet<(u32, u32)>,
    panics: Vec<(usize, String)>,
    mismatch: Option<String>,
    verbose: bool,
}

struct Shared {
    state: StdMutex<State>,
    cvs: Vec<Condvar>,
    done: Condvar,
}

thread_local! {
    static ME: Cell<Option<(usize, *const Shared)>> = const { Cell::new(None) };
}

static NEXT_LOCK_ID: AtomicU64 = AtomicU64::new(1);
static MISMATCH: AtomicBool = AtomicBool::new(false);
static GLOBAL_STEP: AtomicU64 = AtomicU64::new(0);

pub fn is_controlled() -> bool {
    ME.with(|m| m.get().is_some())
}

pub fn current_tid() -> Option<usize> {
    ME.with(|m| m.get().map(|x| x.0))
}

/// Called by the shim if the real lock disagrees with the model (harness bug, never a property verdict).
pub fn model_mismatch(msg: &str) {
    MISMATCH.store(true, Ordering::SeqCst);
    if let Some((_, sh)) = ME.with(|m| m.get()) {
        let sh = unsafe { &*sh };
        if let Ok(mut g) = sh.state.lock() {
            if g.mismatch.is_none() {
                g.mismatch = Some(msg.to_string());
            }
        }
    }
}

fn lock_id(a: &AtomicU64) -> u64 {
    let v = a.load(Ordering::Relaxed);
    if v != 0 {
        return v;
    }
    let n = NEXT_LOCK_ID.fetch_add(1, Ordering::Relaxed);
    match a.compare_exchange(0, n, Ordering::Relaxed, Ordering::Relaxed) {
        Ok(_) => n,
        Err(cur) => cur,
    }
}

fn fnv(h: u64, x: u64) -> u64 {
    let mut h = h;
    for i in 0..8 {
        h ^= (x >> (i * 8)) & 0xff;
        h = h.wrapping_mul(0x100000001b3);
    }
    h
}

// ------------------------------------------------------------------------------------------------
// site capture

fn capture_site() -> String {
    // first frame (innermost inlined function first) whose source file is KyroDB or harness code;
    // site = "<file>:<function>" (inlined frames only carry short names under line-tables-only debuginfo)
    let mut out = String::new();
    let mut depth = 0;
    backtrace::trace(|frame| {
        depth += 1;
        if depth > 64 {
            return false;
        }
        let mut found: Option<String> = None;
        backtrace::resolve_frame(frame, |sym| {
            if found.is_some() {
                return;
            }
            let Some(file) = sym.filename() else { return };
            let f = file.to_string_lossy();
            let ours = f.contains("/engine_shadow/src/") || f.contains("/engine/src/") || f.contains("/vsim/src/") || f.contains("server_included");
            if !ours || f.contains("/parking_lot_sim/") {
                return;
            }
            let base = f.rsplit('/').next().unwrap_or("?").to_string();
            let name = sym.name().map(|n| format!("{:#}", n)).unwrap_or_else(|| "?".to_string());
            let name = name.split('<').next().unwrap_or("").to_string();
            let last = name.split("::").filter(|p| !p.is_empty() && !p.starts_with("{{") && !p.starts_with('{')).last().unwrap_or("?").to_string();
            found = Some(format!("{}:{}", base, last));
        });
        if let Some(s) = found {
            out = s;
            false
        } else {
            true
        }
    });
    if out.is_empty() {
        out.push('?');
    }
    out
}

thread_local! {
    static SITE_CACHE: std::cell::RefCell<HashMap<usize, String>> = std::cell::RefCell::new(HashMap::new());
}

fn capture_site_cached() -> String {
    // key: the first few return addresses (cheap), value: resolved site
    let mut key: usize = 0;
    let mut n = 0;
    backtrace::trace(|frame| {
        n += 1;
        key = key.wrapping_mul(1099511628211).wrapping_add(frame.ip() as usize);
        n < 12
    });
    if let Some(s) = SITE_CACHE.with(|c| c.borrow().get(&key).cloned()) {
        return s;
    }
    let s = capture_site();
    SITE_CACHE.with(|c| c.borrow_mut().insert(key, s.clone()));
    s
}

// ------------------------------------------------------------------------------------------------
// the scheduling point

/// Returns `None` for threads the simulator does not control (pass-through), otherwise the model's verdict
/// (`true` = granted / done; `false` only for failed try-operations).
pub fn point(lock: &AtomicU64, op: Op) -> Option<bool> {
    let Some((me, shp)) = ME.with(|m| m.get()) else {
        crate::stall::pass_through(lock, op.is_blocking_acquire(), op.is_acquire());
        return None;
    };
    let sh = unsafe { &*shp };
    let id = lock_id(lock);
    let site = if op.is_acquire() {
        let rs = { sh.state.lock().map(|g| (g.record_sites || g.verbose) && !g.over).unwrap_or(false) };
        if rs {
            Some(capture_site_cached())
        } else {
            None
        }
    } else {
        None
    };
    let mut g = sh.state.lock().unwrap_or_else(|e| e.into_inner());
    if g.over {
        drop(g);
        if op.is_blocking_acquire() && !std::thread::panicking() {
            panic::resume_unwind(Box::new(SimAbort));
        }
        return None;
    }
    g.points += 1;
    GLOBAL_STEP.fetch_add(1, Ordering::Relaxed);
    if op.is_release() {
        g.apply_release(me, id, op);
        if !g.yield_on_release {
            return Some(true);
        }
        g.threads[me].pending = Some((id, Op::Yield));
    } else {
        let site_id = match site {
            Some(s) => g.intern_site(s),
            None => 0,
        };
        g.threads[me].pending = Some((id, op));
        g.threads[me].pending_site = site_id;
        if g.record_sites && op.is_acquire() {
            let held: Vec<u32> = g.threads[me].held.iter().filter(|h| h.0 != id).map(|h| h.2).collect();
            for h in held {
                g.edges.insert((h, site_id));
            }
        }
    }
    hand_over(sh, g, me, op)
}

/// A pure scheduling point (harness stamps, intercepted I/O calls). Never unwinds.
pub fn yield_point() -> u64 {
    let step = GLOBAL_STEP.fetch_add(1, Ordering::Relaxed) + 1;
    let Some((me, shp)) = ME.with(|m| m.get()) else {
        return step;
    };
    let sh = unsafe { &*shp };
    let mut g = sh.state.lock().unwrap_or_else(|e| e.into_inner());
    if g.over {
        return step;
    }
    g.points += 1;
    g.threads[me].pending = Some((0, Op::Yield));
    let _ = hand_over_inner(sh, g, me, false);
    GLOBAL_STEP.fetch_add(1, Ordering::Relaxed) + 1
}

/// Global, monotonically increasing event stamp (used for invoke/return ordering of histories).
pub fn stamp() -> u64 {
    yield_point()
}

fn hand_over(sh: &Shared, g: std::sync::MutexGuard<'_, State>, me: usize, op: Op) -> Option<bool> {
    match hand_over_inner(sh, g, me, op.is_blocking_acquire()) {
        Ok(r) => Some(r),
        Err(()) => {
            // run is over (deadlock / step cap): unwind out of blocking acquires, pass through otherwise
            if op.is_blocking_acquire() && !std::thread::panicking() {
                panic::resume_unwind(Box::new(SimAbort));
            }
            None
        }
    }
}

fn hand_over_inner(sh: &Shared, mut g: std::sync::MutexGuard<'_, State>, me: usize, _blocking: bool) -> Result<bool, ()> {
    let next = g.schedule(Some(me));
    g.current = next;
    match next {
        Some(t) if t == me => {}
        Some(t) => {
            sh.cvs[t].notify_one();
            while g.current != Some(me) && !g.over {
                g = sh.cvs[me].wait(g).unwrap_or_else(|e| e.into_inner());
            }
        }
        None => {
            // deadlock, step cap, or everybody finished (cannot be: `me` is unfinished) -> over
            g.over = true;
            for cv in &sh.cvs {
                cv.notify_all();
            }
            sh.done.notify_all();
        }
    }
    if g.over {
        return Err(());
    }
    Ok(g.threads[me].result)
}

impl State {
    fn intern_site(&mut self, s: String) -> u32 {
        if let Some(&i) = self.site_ids.get(&s) {
            return i;
        }
        let i = self.sites.len() as u32;
        self.sites.push(s.clone());
        self.site_ids.insert(s, i);
        i
    }

    fn ordinal(&mut self, id: u64) -> u32 {
        let n = self.ordinals.len() as u32 + 1;
        *self.ordinals.entry(id).or_insert(n)
    }

    fn remove_reader(l: &mut LockModel, t: usize) {
        if let Some(p) = l.readers.iter().rposition(|&x| x == t) {
            l.readers.remove(p);
        }
    }

    fn unhold(&mut self, t: usize, id: u64) {
        if let Some(p) = self.threads[t].held.iter().rposition(|h| h.0 == id) {
            self.threads[t].held.remove(p);
        }
    }

    fn apply_release(&mut self, t: usize, id: u64, op: Op) {
        let l = self.locks.entry(id).or_default();
        match op {
            Op::MUnlock => {
                l.mutex_owner = None;
            }
            Op::UnShared => {
                Self::remove_reader(l, t);
            }
            Op::UnExcl => {
                l.wbit = None;
                l.wheld = false;
            }
            Op::UnUpgr => {
                l.upgr = None;
                Self::remove_reader(l, t);
            }
            Op::Downgrade => {
                l.wbit = None;
                l.wheld = false;
                l.readers.push(t);
            }
            Op::DowngradeUpgr => {
                l.upgr = None;
            }
            Op::DowngradeToUpgr => {
                l.wbit = None;
                l.wheld = false;
                l.upgr = Some(t);
                l.readers.push(t);
            }
            _ => {}
        }
        let free = l.is_free();
        if free {
            self.locks.remove(&id);
        }
        match op {
            Op::Downgrade | Op::DowngradeUpgr | Op::DowngradeToUpgr => {
                if let Some(p) = self.threads[t].held.iter().rposition(|h| h.0 == id) {
                    self.threads[t].held[p].1 = op;
                }
            }
            _ => self.unhold(t, id),
        }
    }

    /// Would picking `t` change the model (complete its operation or claim a bit)?
    fn can_progress(&self, t: usize) -> bool {
        let th = &self.threads[t];
        if th.finished {
            return false;
        }
        let Some((id, op)) = th.pending else {
            return true;
        };
        let empty = LockModel::default();
        let l = self.locks.get(&id).unwrap_or(&empty);
        match op {
            Op::MLock => l.mutex_owner.is_none(),
            Op::Shared => l.wbit.is_none(),
            Op::Excl => {
                if th.claimed {
                    l.readers.is_empty()
                } else {
                    l.wbit.is_none() && l.upgr.is_none()
                }
            }
            Op::Upgr => l.wbit.is_none() && l.upgr.is_none(),
            Op::Upgrade => {
                if th.claimed {
                    l.readers.is_empty()
                } else {
                    true
                }
            }
            _ => true,
        }
    }

    /// Perform `t`'s pending operation as far as the model allows. `Some(result)` = operation complete.
    fn attempt(&mut self, t: usize) -> Option<bool> {
        let (id, op) = self.threads[t].pending?;
        let claimed = self.threads[t].claimed;
        if op == Op::Yield {
            return Some(true);
        }
        let l = self.locks.entry(id).or_default();
        let mut now_claimed = claimed;
        let res: Option<bool> = match op {
            Op::MLock => {
                if l.mutex_owner.is_none() {
                    l.mutex_owner = Some(t);
                    Some(true)
                } else {
                    None
                }
            }
            Op::MTry => {
                if l.mutex_owner.is_none() {
                    l.mutex_owner = Some(t);
                    Some(true)
                } else {
                    Some(false)
                }
            }
            Op::Shared => {
                if l.wbit.is_none() {
                    l.readers.push(t);
                    Some(true)
                } else {
                    None
                }
            }
            Op::TryShared => {
                if l.wbit.is_none() {
                    l.readers.push(t);
                    Some(true)
                } else {
                    Some(false)
                }
            }
            Op::Excl => {
                if !claimed {
                    if l.wbit.is_none() && l.upgr.is_none() {
                        l.wbit = Some(t);
                        now_claimed = true;
                    }
                }
                if now_claimed && l.readers.is_empty() {
                    l.wheld = true;
                    now_claimed = false;
                    Some(true)
                } else {
                    None
                }
            }
            Op::TryExcl => {
                if l.wbit.is_none() && l.upgr.is_none() && l.readers.is_empty() {
                    l.wbit = Some(t);
                    l.wheld = true;
                    Some(true)
                } else {
                    Some(false)
                }
            }
            Op::Upgr => {
                if l.wbit.is_none() && l.upgr.is_none() {
                    l.upgr = Some(t);
                    l.readers.push(t);
                    Some(true)
                } else {
                    None
                }
            }
            Op::TryUpgr => {
                if l.wbit.is_none() && l.upgr.is_none() {
                    l.upgr = Some(t);
                    l.readers.push(t);
                    Some(true)
                } else {
                    Some(false)
                }
            }
            Op::Upgrade => {
                if !claimed {
                    l.upgr = None;
                    Self::remove_reader(l, t);
                    l.wbit = Some(t);
                    now_claimed = true;
                }
                if l.readers.is_empty() {
                    l.wheld = true;
                    now_claimed = false;
                    Some(true)
                } else {
                    None
                }
            }
            Op::TryUpgrade => {
                if l.readers.len() == 1 && l.readers[0] == t {
                    l.upgr = None;
                    l.readers.clear();
                    l.wbit = Some(t);
                    l.wheld = true;
                    Some(true)
                } else {
                    Some(false)
                }
            }
            _ => Some(true),
        };
        self.threads[t].claimed = now_claimed;
        if let Some(true) = res {
            if op.is_acquire() {
                let site = self.threads[t].pending_site;
                match op {
                    Op::Upgrade | Op::TryUpgrade => {
                        if let Some(p) = self.threads[t].held.iter().rposition(|h| h.0 == id) {
                            self.threads[t].held[p].1 = Op::Excl;
                        }
                    }
                    _ => self.threads[t].held.push((id, op, site)),
                }
            }
        }
        if let Some(l) = self.locks.get(&id) {
            if l.is_free() {
                self.locks.remove(&id);
            }
        }
        res
    }

    fn pick(&mut self, cands: &[usize], cur: Option<usize>) -> usize {
        let d = self.decisions;
        let default = match cur {
            Some(c) if cands.contains(&c) => c,
            _ => cands[0],
        };
        let chosen = match &self.strategy {
            Strategy::RandomWalk => cands[self.rng.below(cands.len() as u64) as usize],
            Strategy::StickyWalk { stay_pct } => {
                let stay = *stay_pct as u64;
                if cur.map(|c| cands.contains(&c)).unwrap_or(false) && self.rng.below(100) < stay {
                    default
                } else {
                    cands[self.rng.below(cands.len() as u64) as usize]
                }
            }
            Strategy::Pct { .. } => {
                if self.change_points.contains(&d) {
                    // demote the thread that would run now
                    let top = *cands.iter().max_by_key(|&&t| self.prio[t]).unwrap();
                    let low = self.prio.iter().copied().min().unwrap_or(0) - 1;
                    self.prio[top] = low;
                }
                *cands.iter().max_by_key(|&&t| self.prio[t]).unwrap()
            }
            Strategy::Preempt { .. } => {
                if self.preempt_points.contains(&d) && cands.len() > 1 {
                    let others: Vec<usize> = cands.iter().copied().filter(|&t| t != default).collect();
                    others[self.rng.below(others.len() as u64) as usize]
                } else if cur.map(|c| cands.contains(&c)).unwrap_or(false) {
                    default
                } else {
                    // the running thread blocked or finished: seeded choice of the successor
                    cands[self.rng.below(cands.len() as u64) as usize]
                }
            }
            Strategy::Replay(_) => match self.replay_map.get(&d) {
                Some(&t) if cands.contains(&(t as usize)) => t as usize,
                _ => default,
            },
        };
        if chosen != default {
            self.choices.push((d, chosen as u32));
        }
        chosen
    }

    /// Decide who runs next. Returns None when the run is over (all finished, deadlock, or step cap).
    fn schedule(&mut self, cur: Option<usize>) -> Option<usize> {
        loop {
            let cands: Vec<usize> = (0..self.threads.len()).filter(|&t| self.can_progress(t)).collect();
            if cands.is_empty() {
                if self.threads.iter().all(|t| t.finished) {
                    self.all_done = true;
                    return None;
                }
                self.deadlock = Some(self.describe());
                return None;
            }
            if self.decisions >= self.max_decisions {
                self.step_cap_hit = true;
                return None;
            }
            let t = self.pick(&cands, cur);
            self.decisions += 1;
            let (lid, op) = self.threads[t].pending.unwrap_or((0, Op::Yield));
            let ord = if lid != 0 { self.ordinal(lid) } else { 0 };
            self.trace_hash = fnv(self.trace_hash, ((t as u64) << 40) | ((op as u64) << 32) | ord as u64);
            if self.verbose {
                let site = self.sites.get(self.threads[t].pending_site as usize).cloned().unwrap_or_default();
                eprintln!("[sched] d={} T{} {:?} lock#{} {}", self.decisions, t, op, ord, site);
            }
            if self.threads[t].pending.is_none() {
                self.threads[t].started = true;
                return Some(t);
            }
            match self.attempt(t) {
                Some(r) => {
                    self.threads[t].result = r;
                    self.threads[t].pending = None;
                    return Some(t);
                }
                None => continue,
            }
        }
    }

    fn describe(&mut self) -> Vec<ThreadReport> {
        let mut out = Vec::new();
        for t in 0..self.threads.len() {
            let (pending, psite, held, finished) = {
                let th = &self.threads[t];
                (th.pending, th.pending_site, th.held.clone(), th.finished)
            };
            let wanted = match pending {
                Some((id, op)) if !finished => {
                    let o = self.ordinal(id);
                    Some((o, format!("{:?}", op), self.sites.get(psite as usize).cloned().unwrap_or_default()))
                }
                _ => None,
            };
            let held = held
                .iter()
                .map(|&(id, op, s)| {
                    let o = self.ordinal(id);
                    (o, format!("{:?}", op), self.sites.get(s as usize).cloned().unwrap_or_default())
                })
                .collect();
            out.push(ThreadReport { tid: t, wanted, held, finished });
        }
        out
    }
}

static HOOK: Once = Once::new();

fn install_panic_hook() {
    HOOK.call_once(|| {
        let prev = panic::take_hook();
        panic::set_hook(Box::new(move |info| {
            if info.payload().is::<SimAbort>() {
                return;
            }
            if is_controlled() && std::env::var_os("VSIM_SHOW_PANICS").is_none() {
                return; // recorded by the thread wrapper
            }
            prev(info);
        }));
    });
}

fn payload_msg(p: &(dyn Any + Send)) -> String {
    if let Some(s) = p.downcast_ref::<&str>() {
        s.to_string()
    } else if let Some(s) = p.downcast_ref::<String>() {
        s.clone()
    } else {
        "<non-string panic>".to_string()
    }
}

/// Run `bodies` as controlled threads under one seeded schedule. The calling thread is not controlled and
/// blocks until every thread has finished (or the run was aborted by a deadlock / the decision cap).
pub fn run(cfg: RunConfig, bodies: Vec<Box<dyn FnOnce() + Send + 'static>>) -> RunResult {
    install_panic_hook();
    let n = bodies.len();
    let mut rng = SplitMix(cfg.seed ^ 0xA5A5_5A5A_DEAD_BEEF);
    let mut prio: Vec<i64> = (0..n as i64).map(|i| i + 1000).collect();
    // Fisher-Yates for PCT priorities
    for i in (1..n).rev() {
        let j = rng.below(i as u64 + 1) as usize;
        prio.swap(i, j);
    }
    let mut change_points = Vec::new();
    let mut preempt_points = Vec::new();
    let mut replay_map = BTreeMap::new();
    match &cfg.strategy {
        Strategy::Pct { depth, len } => {
            for _ in 1..*depth {
                change_points.push(1 + rng.below((*len).max(1)));
            }
        }
        Strategy::Preempt { count, len } => {
            for _ in 0..*count {
                preempt_points.push(1 + rng.below((*len).max(1)));
            }
        }
        Strategy::Replay(list) => {
            for &(d, t) in list {
                replay_map.insert(d, t);
            }
        }
        _ => {}
    }
    let state = State {
        threads: (0..n)
            .map(|_| Th { pending: None, pending_site: 0, claimed: false, result: true, finished: false, started: false, held: Vec::new() })
            .collect(),
        locks: HashMap::new(),
        ordinals: HashMap::new(),
        current: None,
        over: false,
        all_done: false,
        decisions: 0,
        points: 0,
        max_decisions: cfg.max_decisions,
        strategy: cfg.strategy.clone(),
        rng,
        prio,
        change_points,
        preempt_points,
        replay_map,
        trace_hash: 0xcbf29ce484222325,
        choices: Vec::new(),
        deadlock: None,
        step_cap_hit: false,
        yield_on_release: cfg.yield_on_release,
        record_sites: cfg.record_sites,
        sites: vec![String::new()],
        site_ids: HashMap::new(),
        edges: BTreeSet::new(),
        panics: Vec::new(),
        mismatch: None,
        verbose: std::env::var_os("VSIM_TRACE").is_some(),
    };
    let shared = Arc::new(Shared { state: StdMutex::new(state), cvs: (0..n).map(|_| Condvar::new()).collect(), done: Condvar::new() });

    let mut handles = Vec::new();
    for (tid, body) in bodies.into_iter().enumerate() {
        let sh = Arc::clone(&shared);
        let h = std::thread::Builder::new()
            .name(format!("sim-{}", tid))
            .stack_size(8 << 20)
            .spawn(move || {
                let shp: *const Shared = &*sh;
                ME.with(|m| m.set(Some((tid, shp))));
                // wait for the first baton
                {
                    let mut g = sh.state.lock().unwrap_or_else(|e| e.into_inner());
                    while g.current != Some(tid) && !g.over {
                        g = sh.cvs[tid].wait(g).unwrap_or_else(|e| e.into_inner());
                    }
                    if g.over {
                        g.threads[tid].finished = true;
                        drop(g);
                        ME.with(|m| m.set(None));
                        sh.done.notify_all();
                        return;
                    }
                }
                let r = panic::catch_unwind(AssertUnwindSafe(body));
                let mut g = sh.state.lock().unwrap_or_else(|e| e.into_inner());
                if let Err(p) = r {
                    if !p.is::<SimAbort>() {
                        let msg = payload_msg(&*p);
                        g.panics.push((tid, msg));
                    }
                }
                g.threads[tid].finished = true;
                g.threads[tid].pending = None;
                // locks still recorded as held by a finished thread can only come from an abort; release
                // them in the model so that the others are not reported as deadlocked on a dead thread.
                let held: Vec<(u64, Op, u32)> = std::mem::take(&mut g.threads[tid].held);
                for (id, _, _) in held {
                    if let Some(l) = g.locks.get_mut(&id) {
                        if l.mutex_owner == Some(tid) {
                            l.mutex_owner = None;
                        }
                        if l.wbit == Some(tid) {
                            l.wbit = None;
                            l.wheld = false;
                        }
                        if l.upgr == Some(tid) {
                            l.upgr = None;
                        }
                        l.readers.retain(|&x| x != tid);
                    }
                }
                ME.with(|m| m.set(None));
                if !g.over {
                    let next = g.schedule(None);
                    g.current = next;
                    match next {
                        Some(t) => sh.cvs[t].notify_one(),
                        None => {
                            g.over = true;
                            for cv in &sh.cvs {
                                cv.notify_all();
                            }
                        }
                    }
                }
                drop(g);
                sh.done.notify_all();
            })
            .expect("spawn sim thread");
        handles.push(h);
    }

    // kick off
    {
        let mut g = shared.state.lock().unwrap();
        let next = g.schedule(None);
        g.current = next;
        match next {
            Some(t) => shared.cvs[t].notify_one(),
            None => {
                g.over = true;
                for cv in &shared.cvs {
                    cv.notify_all();
                }
            }
        }
    }
    for h in handles {
        let _ = h.join();
    }
    let g = shared.state.lock().unwrap_or_else(|e| e.into_inner());
    let sites = g.sites.clone();
    RunResult {
        deadlock: g.deadlock.clone(),
        step_cap_hit: g.step_cap_hit,
        decisions: g.decisions,
        points: g.points,
        trace_hash: g.trace_hash,
        choices: g.choices.clone(),
        edges: g
            .edges
            .iter()
            .map(|&(a, b)| (sites.get(a as usize).cloned().unwrap_or_default(), sites.get(b as usize).cloned().unwrap_or_default()))
            .collect(),
        panics: g.panics.clone(),
        model_mismatch: g.mismatch.clone().or_else(|| if MISMATCH.swap(false, Ordering::SeqCst) { Some("model mismatch".into()) } else { None }),
    }
}
