//! C20, concurrent rows: 2-3 caller threads issue inserts (and a few reads / searches / drains) against a tiered engine
//! with hard limit 1-3 under the seeded scheduler. The recent-write tier must hold at most `hard_limit` documents
//! whenever an insert returns (the engine checks the limit and mirrors the document inside one critical section, so
//! the bound holds at every instant); the caches are checked against their capacities at the quiescent end.

use crate::c08::SchedSpec;
use crate::common::*;
use crate::hist::{on_fresh_thread, reset_env};
use crate::report::{Summary, Violation};
use crate::rng::Rng;
use crate::simlibc;
use crate::tiered::{build, exec, ApiOp, TCfg};
use plsim::sim::{self, RunConfig};
use serde::{Deserialize, Serialize};
use serde_json::json;
use std::collections::BTreeMap;
use std::sync::{Arc, Mutex};

#[derive(Clone, Debug, PartialEq, Serialize, Deserialize)]
pub struct Plan {
    pub cfg: TCfg,
    pub universe: u64,
    pub pre: Vec<ApiOp>,
    pub threads: Vec<Vec<ApiOp>>,
    pub sched: SchedSpec,
    pub env_seed: u64,
    /// quiescent end: this many further, pairwise distant searches fill the query-result cache (its bound is read after
    /// each), so that whatever the race left in the cache's bookkeeping travels to the eviction end
    #[serde(default)]
    pub fill: usize,
}

#[derive(Clone, Debug, Serialize, Deserialize)]
pub struct Replay {
    pub check: String,
    pub plan: Plan,
    pub clause: String,
}

fn gen_op(rng: &mut Rng, c: &TCfg, universe: u64, w: &mut u64) -> ApiOp {
    let id = rng.below(universe);
    match rng.below(100) {
        0..=64 => {
            *w += 1;
            ApiOp::Insert { id, vec: bits(&gen_vector(rng, c.dim, *w)), meta: gen_meta(rng, *w) }
        }
        65..=76 => {
            *w += 1;
            ApiOp::Knn { q: bits(&gen_vector(rng, c.dim, *w)), k: 2 }
        }
        77..=86 => ApiOp::Query { id },
        87..=91 => ApiOp::Delete { id },
        92..=95 => ApiOp::Flush { force: rng.chance(1, 2) },
        _ => {
            *w += 1;
            ApiOp::UpdateMeta { id, meta: gen_meta(rng, *w), merge: true }
        }
    }
}

pub fn gen_plan(seed: u64, run: u64) -> Plan {
    let prog = run / 6;
    let mut rng = Rng::for_run(seed, "C20cp", prog);
    let mut cfg = TCfg::gen(&mut rng);
    cfg.persist = false;
    cfg.capacity = 1000;
    cfg.hot_hard = *rng.pick(&[1usize, 2, 3]);
    cfg.hot_soft = rng.range(1, cfg.hot_hard as u64) as usize;
    cfg.cache_cap = *rng.pick(&[1usize, 2, 5]);
    cfg.qc_cap = *rng.pick(&[1usize, 2, 5]);
    let universe = rng.range(2, 6);
    let mut w = 0u64;
    let pre: Vec<ApiOp> = (0..rng.range(0, 5)).map(|_| gen_op(&mut rng, &cfg, universe, &mut w)).collect();
    let n_threads = rng.range(2, 3) as usize;
    let threads: Vec<Vec<ApiOp>> = (0..n_threads).map(|_| (0..rng.range(1, 3)).map(|_| gen_op(&mut rng, &cfg, universe, &mut w)).collect()).collect();
    let mut pre = pre;
    let mut threads = threads;
    let mut fill = 0usize;
    if prog % 3 == 2 {
        // similarity programs: a cached search, then paraphrases of it (served through the similarity path of the
        // query-result cache) racing with writes to the documents of the cached result
        cfg.qc_threshold_milli = 950;
        pre.clear();
        for id in 0..universe {
            w += 1;
            pre.push(ApiOp::Insert { id, vec: bits(&gen_vector(&mut rng, cfg.dim, w)), meta: gen_meta(&mut rng, w) });
        }
        w += 1;
        let q0 = gen_vector(&mut rng, cfg.dim, w);
        pre.push(ApiOp::Knn { q: bits(&q0), k: 2 });
        let para = |j: usize| -> Vec<u32> { bits(&q0.iter().enumerate().map(|(i, x)| x * (1.0 + 0.004 * (j as f32 + 1.0) * if i % 2 == 0 { 1.0 } else { -1.0 })).collect::<Vec<f32>>()) };
        threads.clear();
        threads.push((0..rng.range(1, 2) as usize).map(|j| ApiOp::Knn { q: para(j), k: 2 }).collect());
        let mut writer = Vec::new();
        for _ in 0..rng.range(1, 2) {
            let id = rng.below(universe);
            if rng.chance(1, 2) {
                writer.push(ApiOp::Delete { id });
            } else {
                w += 1;
                writer.push(ApiOp::Insert { id, vec: bits(&gen_vector(&mut rng, cfg.dim, w)), meta: gen_meta(&mut rng, w) });
            }
        }
        threads.push(writer);
        if rng.chance(1, 2) {
            threads.push(vec![ApiOp::Knn { q: para(3), k: 2 }]);
        }
        fill = cfg.qc_cap + 2;
    }
    let env_seed = rng.next();
    let mut srng = Rng::for_run(seed, "C20cs", run);
    Plan { cfg, universe, pre, threads, sched: SchedSpec::gen(&mut srng, 120), env_seed, fill }
}

pub struct Exec {
    pub problems: Vec<(String, String, BTreeMap<String, String>)>,
    pub aborted: bool,
    pub trace_hash: u64,
    pub choices: Vec<(u64, u32)>,
    pub inserts: u64,
    pub at_limit: u64,
}

pub fn execute(plan: &Plan) -> Exec {
    reset_env(plan.env_seed);
    let p = plan.clone();
    let r = on_fresh_thread(move || {
        let mut ex = Exec { problems: vec![], aborted: false, trace_hash: 0, choices: vec![], inserts: 0, at_limit: 0 };
        let built = match build(&p.cfg, None) {
            Ok(b) => Arc::new(b),
            Err(_) => {
                ex.aborted = true;
                return ex;
            }
        };
        for op in &p.pre {
            let _ = exec(&built, op);
        }
        let hard = p.cfg.hot_hard;
        let seen: Arc<Mutex<Vec<(usize, usize, usize)>>> = Arc::new(Mutex::new(Vec::new())); // (thread, op index, tier size at return)
        let mut bodies: Vec<Box<dyn FnOnce() + Send + 'static>> = Vec::new();
        for (t, ops) in p.threads.iter().enumerate() {
            let b = Arc::clone(&built);
            let ops = ops.clone();
            let seen = Arc::clone(&seen);
            bodies.push(Box::new(move || {
                for (k, op) in ops.iter().enumerate() {
                    let _ = exec(&b, op);
                    if matches!(op, ApiOp::Insert { .. }) {
                        let n = b.engine.hot_tier().len();
                        seen.lock().unwrap().push((t, k, n));
                    }
                }
            }));
        }
        let result = sim::run(RunConfig { seed: p.sched.seed, strategy: p.sched.strategy(), max_decisions: 50_000, yield_on_release: p.sched.yield_on_release, record_sites: false }, bodies);
        ex.trace_hash = result.trace_hash;
        ex.choices = result.choices.clone();
        if result.deadlock.is_some() || result.step_cap_hit {
            ex.aborted = true;
            std::mem::forget(built);
            return ex;
        }
        for (tid, msg) in &result.panics {
            ex.problems.push(("operation_panicked".into(), format!("caller thread {} panicked: {}", tid, msg), BTreeMap::new()));
        }
        let seen = seen.lock().unwrap().clone();
        ex.inserts = seen.len() as u64;
        ex.at_limit = seen.iter().filter(|x| x.2 == hard).count() as u64;
        if let Some((t, k, n)) = seen.iter().find(|x| x.2 > hard) {
            let mut f = BTreeMap::new();
            f.insert("which".into(), "recent_write_tier".into());
            f.insert("history".into(), "concurrent_inserts".into());
            ex.problems.push(("bound_exceeded".into(), format!("thread {} operation {}: recent-write tier holds {} documents when the insert returned, hard limit {}", t, k, n, hard), f));
        }
        // quiescent end: cache capacities
        let cap = p.cfg.cache_cap;
        let csz = built.engine.cache_size();
        let cache_bound = if built.arms.is_some() { 2 * cap } else { cap };
        if csz > cache_bound {
            let mut f = BTreeMap::new();
            f.insert("which".into(), "document_cache".into());
            f.insert("history".into(), "concurrent_inserts".into());
            ex.problems.push(("bound_exceeded".into(), format!("after the concurrent operations the document cache holds {} entries, capacity {}", csz, cache_bound), f));
        }
        // quiescent fill: pairwise distant searches, the bound is read after each
        for j in 0..p.fill {
            let mut q = vec![0.0f32; p.cfg.dim.max(1)];
            let l = q.len();
            q[j % l] = 1.0;
            if j >= l {
                q[(j + 1) % l] = -1.0 - (j / l) as f32;
            }
            let _ = exec(&built, &ApiOp::Knn { q: bits(&q), k: 2 });
            let n = built.qc.len();
            if n > p.cfg.qc_cap.max(1) {
                let mut f = BTreeMap::new();
                f.insert("which".into(), "query_result_cache".into());
                f.insert("history".into(), "concurrent_similarity_hits_then_fill".into());
                ex.problems.push(("bound_exceeded".into(), format!("quiescent fill, search {}: the query-result cache holds {} entries, capacity {}", j + 1, n, p.cfg.qc_cap), f));
                break;
            }
        }
        let qlen = built.qc.len();
        if qlen > p.cfg.qc_cap.max(1) {
            let mut f = BTreeMap::new();
            f.insert("which".into(), "query_result_cache".into());
            f.insert("history".into(), "concurrent_inserts".into());
            ex.problems.push(("bound_exceeded".into(), format!("after the concurrent operations the query-result cache holds {} entries, capacity {}", qlen, p.cfg.qc_cap), f));
        }
        ex
    });
    match r {
        Ok(e) => e,
        Err(p) => Exec { problems: vec![("harness_thread_panicked".into(), p, BTreeMap::new())], aborted: false, trace_hash: 0, choices: vec![], inserts: 0, at_limit: 0 },
    }
}

pub fn run_batch(seed: u64, start: u64, count: u64, budget_ms: u64, sum: &mut Summary) {
    let t0 = simlibc::real_now_ns();
    for run in start..start + count {
        if budget_ms > 0 && (simlibc::real_now_ns() - t0) / 1_000_000 > budget_ms {
            break;
        }
        let plan = gen_plan(seed, run);
        let ex = execute(&plan);
        sum.runs += 1;
        if ex.aborted {
            sum.count("concurrent_rows_aborted", 1);
            continue;
        }
        sum.evaluations += ex.inserts;
        sum.probe("concurrent_insert_rows", 1);
        sum.probe("concurrent_insert_returned_at_the_hard_limit", ex.at_limit);
        sum.distinct_hash(ex.trace_hash ^ 0xC20C);
        for (clause, msg, facts) in &ex.problems {
            let mut key = format!("C20|{}", clause);
            for (k, v) in facts {
                key.push_str(&format!("|{}={}", k, v));
            }
            if !sum.class_first(&key) || sum.violations.len() >= 12 {
                continue;
            }
            let mut best = plan.clone();
            best.sched = SchedSpec { kind: "replay".into(), a: 0, len: plan.sched.len, seed: plan.sched.seed, yield_on_release: plan.sched.yield_on_release, choices: ex.choices.clone() };
            if !execute(&best).problems.iter().any(|(c, _, f)| c == clause && f == facts) {
                best.sched = plan.sched.clone();
            }
            sum.violations.push(Violation {
                property: "C20".into(),
                clause: clause.clone(),
                facts: facts.clone(),
                message: msg.clone(),
                seed,
                run,
                replay: serde_json::to_value(Replay { check: "C20c".into(), plan: best, clause: clause.clone() }).unwrap(),
                minimised: false,
                original: Some(json!({"threads": plan.threads.len()})),
            });
        }
    }
}

pub fn replay(v: &serde_json::Value, sum: &mut Summary) -> Result<(), String> {
    let r: Replay = serde_json::from_value(v.clone()).map_err(|e| e.to_string())?;
    let ex = execute(&r.plan);
    sum.runs = 1;
    sum.evaluations = ex.inserts;
    for (clause, msg, facts) in &ex.problems {
        sum.violations.push(Violation { property: "C20".into(), clause: clause.clone(), facts: facts.clone(), message: msg.clone(), seed: 0, run: 0, replay: v.clone(), minimised: true, original: None });
    }
    Ok(())
}
