//! Crash-state construction from a journal: kill model (exact prefix), torn last write, and the pessimistic
//! power-loss model (per file a prefix of the writes since its last fsync, possibly torn; a prefix of the
//! directory operations since the last directory fsync; a file fsync does not persist its directory entry).

use crate::rng::Rng;
use crate::simlibc::{Effect, FsImage};
use serde::{Deserialize, Serialize};
use std::collections::BTreeMap;

#[derive(Clone, Debug, PartialEq, Eq, Serialize, Deserialize)]
pub enum Variant {
    Kill,
    /// prefix + the first `keep` bytes of the write at the crash index
    Torn { keep: usize },
    PowerLoss { seed: u64 },
}

impl Variant {
    pub fn name(&self) -> &'static str {
        match self {
            Variant::Kill => "kill",
            Variant::Torn { .. } => "torn",
            Variant::PowerLoss { .. } => "power_loss",
        }
    }
}

pub struct Replayer {
    pub live: FsImage,
    durable_names: BTreeMap<String, u64>,
    pending_dir: Vec<Effect>,
    durable_data: BTreeMap<u64, Vec<u8>>,
    pending_data: BTreeMap<u64, Vec<Effect>>,
    pub applied: usize,
}

impl Replayer {
    pub fn new(base: &FsImage) -> Replayer {
        Replayer {
            live: base.clone(),
            durable_names: base.names.clone(),
            pending_dir: Vec::new(),
            durable_data: base.inodes.clone(),
            pending_data: BTreeMap::new(),
            applied: 0,
        }
    }

    pub fn step(&mut self, e: &Effect) {
        self.applied += 1;
        match e {
            Effect::Create { ino, .. } => {
                self.live.apply(e);
                self.pending_dir.push(e.clone());
                self.durable_data.entry(*ino).or_default();
            }
            Effect::Write { ino, .. } | Effect::Trunc { ino, .. } => {
                self.live.apply(e);
                self.pending_data.entry(*ino).or_default().push(e.clone());
            }
            Effect::Rename { .. } | Effect::Unlink { .. } => {
                self.live.apply(e);
                self.pending_dir.push(e.clone());
            }
            Effect::FsyncFile { ino } => {
                let cur = self.live.inodes.get(ino).cloned().unwrap_or_default();
                self.durable_data.insert(*ino, cur);
                self.pending_data.remove(ino);
            }
            Effect::FsyncDir => {
                self.durable_names = self.live.names.clone();
                self.pending_dir.clear();
            }
            Effect::Mark { .. } => {}
        }
    }

    pub fn kill_image(&self) -> FsImage {
        self.live.clone()
    }

    pub fn torn_image(&self, next: &Effect, keep: usize) -> FsImage {
        let mut img = self.live.clone();
        if let Effect::Write { ino, off, data } = next {
            let k = keep.min(data.len());
            img.apply(&Effect::Write { ino: *ino, off: *off, data: data[..k].to_vec() });
        }
        img
    }

    pub fn pending_counts(&self) -> (usize, usize) {
        (self.pending_dir.len(), self.pending_data.values().map(|v| v.len()).sum())
    }

    pub fn powerloss_image(&self, seed: u64) -> FsImage {
        let mut rng = Rng::new(seed);
        let mode = rng.below(100);
        let mut img = FsImage { names: self.durable_names.clone(), inodes: BTreeMap::new() };
        let nd = self.pending_dir.len();
        let kd = if mode < 25 {
            0
        } else if mode < 45 {
            nd
        } else {
            rng.below(nd as u64 + 1) as usize
        };
        for e in &self.pending_dir[..kd] {
            img.apply(e);
        }
        img.inodes.clear();
        let inos: Vec<u64> = img.names.values().copied().collect();
        for ino in inos {
            let mut content = FsImage::default();
            content.inodes.insert(ino, self.durable_data.get(&ino).cloned().unwrap_or_default());
            if let Some(p) = self.pending_data.get(&ino) {
                let n = p.len();
                let k = if mode < 25 || (mode >= 45 && mode < 55) {
                    0
                } else if mode >= 55 && mode < 62 {
                    n
                } else {
                    rng.below(n as u64 + 1) as usize
                };
                for e in &p[..k] {
                    content.apply(e);
                }
                if k < n && rng.chance(1, 2) {
                    if let Effect::Write { ino: i2, off, data } = &p[k] {
                        if data.len() > 1 {
                            let keep = if data.len() > 512 && rng.chance(1, 2) {
                                ((rng.below((data.len() / 512) as u64) + 1) * 512) as usize
                            } else {
                                rng.range(1, data.len() as u64 - 1) as usize
                            };
                            content.apply(&Effect::Write { ino: *i2, off: *off, data: data[..keep].to_vec() });
                        }
                    }
                }
            }
            img.inodes.insert(ino, content.inodes.remove(&ino).unwrap_or_default());
        }
        img
    }

    pub fn image(&self, v: &Variant, next: Option<&Effect>) -> FsImage {
        match v {
            Variant::Kill => self.kill_image(),
            Variant::Torn { keep } => match next {
                Some(n) => self.torn_image(n, *keep),
                None => self.kill_image(),
            },
            Variant::PowerLoss { seed } => self.powerloss_image(*seed),
        }
    }
}

/// Image after the first `i` effects of `journal` (on top of `base`) under `variant`.
pub fn image_at(base: &FsImage, journal: &[Effect], i: usize, variant: &Variant) -> FsImage {
    let mut r = Replayer::new(base);
    for e in &journal[..i.min(journal.len())] {
        r.step(e);
    }
    r.image(variant, journal.get(i))
}

pub fn image_digest(img: &FsImage) -> u64 {
    // file names carry clock-derived ids: normalise by rank within their role
    let mut h: u64 = 0xcbf29ce484222325;
    let mut feed = |b: &[u8]| {
        for x in b {
            h ^= *x as u64;
            h = h.wrapping_mul(0x100000001b3);
        }
    };
    let mut by_role: BTreeMap<String, Vec<&String>> = BTreeMap::new();
    for n in img.names.keys() {
        by_role.entry(crate::simlibc::mask_name(n)).or_default().push(n);
    }
    for (role, names) in by_role {
        for (rank, n) in names.iter().enumerate() {
            feed(role.as_bytes());
            feed(&(rank as u32).to_le_bytes());
            let data = img.inodes.get(&img.names[*n]).map(|v| v.as_slice()).unwrap_or(&[]);
            feed(&(data.len() as u64).to_le_bytes());
            feed(&crc32fast::hash(data).to_le_bytes());
        }
    }
    h
}
