//! One integer decides everything: SplitMix64-seeded xoshiro256**.

#[derive(Clone, Debug)]
pub struct Rng {
    s: [u64; 4],
}

fn splitmix(x: &mut u64) -> u64 {
    *x = x.wrapping_add(0x9E3779B97F4A7C15);
    let mut z = *x;
    z = (z ^ (z >> 30)).wrapping_mul(0xBF58476D1CE4E5B9);
    z = (z ^ (z >> 27)).wrapping_mul(0x94D049BB133111EB);
    z ^ (z >> 31)
}

pub fn mix(a: u64, b: u64) -> u64 {
    let mut x = a ^ b.wrapping_mul(0x9E3779B97F4A7C15).rotate_left(23);
    splitmix(&mut x)
}

impl Rng {
    pub fn new(seed: u64) -> Rng {
        let mut x = seed;
        Rng { s: [splitmix(&mut x), splitmix(&mut x), splitmix(&mut x), splitmix(&mut x)] }
    }
    /// Stream for (seed, check tag, run number)
    pub fn for_run(seed: u64, tag: &str, run: u64) -> Rng {
        let mut h = seed;
        for b in tag.bytes() {
            h = mix(h, b as u64);
        }
        Rng::new(mix(h, run))
    }
    pub fn next(&mut self) -> u64 {
        let r = self.s[1].wrapping_mul(5).rotate_left(7).wrapping_mul(9);
        let t = self.s[1] << 17;
        self.s[2] ^= self.s[0];
        self.s[3] ^= self.s[1];
        self.s[1] ^= self.s[2];
        self.s[0] ^= self.s[3];
        self.s[2] ^= t;
        self.s[3] = self.s[3].rotate_left(45);
        r
    }
    pub fn below(&mut self, n: u64) -> u64 {
        if n <= 1 {
            0
        } else {
            self.next() % n
        }
    }
    pub fn range(&mut self, lo: u64, hi_incl: u64) -> u64 {
        lo + self.below(hi_incl - lo + 1)
    }
    pub fn chance(&mut self, num: u64, den: u64) -> bool {
        self.below(den) < num
    }
    pub fn pick<'a, T>(&mut self, xs: &'a [T]) -> &'a T {
        &xs[self.below(xs.len() as u64) as usize]
    }
    pub fn f64(&mut self) -> f64 {
        (self.next() >> 11) as f64 / (1u64 << 53) as f64
    }
    pub fn shuffle<T>(&mut self, xs: &mut [T]) {
        for i in (1..xs.len()).rev() {
            let j = self.below(i as u64 + 1) as usize;
            xs.swap(i, j);
        }
    }
}
