//! C09: snapshots and compaction racing with writers lose and duplicate nothing.
//! 1-2 writer threads (automatic snapshot triggers, tiny rotation thresholds, small capacity => tombstone
//! compaction inside insert) || one thread calling create_snapshot, under the seeded scheduler with scheduling
//! points at locks AND at every file-system call. After join: recover(directory) == live; live is a
//! linearisation of the acknowledged writes; MANIFEST's snapshot sequence never decreases.

use crate::c05::write_vec;
use crate::c08::SchedSpec;
use crate::common::*;
use crate::crash::{image_at, Variant};
use crate::hist::{on_fresh_thread, reset_env};
use crate::report::{Summary, Violation};
use crate::rng::Rng;
use crate::simlibc::{self, Effect, FsImage};
use plsim::sim::{self, RunConfig};
use serde::{Deserialize, Serialize};
use serde_json::json;
use std::collections::{BTreeMap, HashSet};
use std::sync::{Arc, Mutex};

#[derive(Clone, Debug, PartialEq, Serialize, Deserialize)]
pub struct Plan {
    pub cfg: Cfg,
    pub universe: u64,
    pub pre: Vec<OpK>,
    pub writers: Vec<Vec<OpK>>,
    pub snapshots: usize,
    pub sched: SchedSpec,
    pub env_seed: u64,
}

#[derive(Clone, Debug, Serialize, Deserialize)]
pub struct Replay {
    pub check: String,
    pub plan: Plan,
    pub clause: String,
}

pub fn gen_plan(seed: u64, run: u64, _tier: &str) -> Plan {
    let prog = run / 12;
    let mut rng = Rng::for_run(seed, "C09p", prog);
    let cfg = Cfg {
        metric: rng.below(3) as u8,
        dim: *rng.pick(&[2usize, 3, 4]),
        fsync: *rng.pick(&[Fsync::Always, Fsync::Never, Fsync::Periodic(0)]),
        snap_interval: *rng.pick(&[0usize, 1, 2, 3]),
        max_wal: *rng.pick(&[1u64, 120, 200, 100 << 20]),
        capacity: *rng.pick(&[4usize, 6, 16, 1000]),
        tiered: false,
        hot_soft: 1,
        hot_hard: 1,
        cache_cap: 1,
    };
    let universe = rng.range(1, 3);
    let mut n = 0u64;
    let mut gen_w = |rng: &mut Rng| -> OpK {
        let id = rng.below(universe);
        n += 1;
        let mut meta = Meta::new();
        meta.insert("w".to_string(), n.to_string());
        match rng.below(100) {
            0..=54 => OpK::Insert { id, vec: bits(&write_vec(cfg.dim, n, *rng.pick(&[1.0f32, 2.0, 0.5]))), meta },
            55..=74 => OpK::Delete { id },
            75..=89 => OpK::UpdateMeta { id, meta, merge: false },
            _ => OpK::BatchDelete { ids: vec![id, rng.below(universe + 1)] },
        }
    };
    let pre: Vec<OpK> = (0..rng.range(0, 4)).map(|_| gen_w(&mut rng)).collect();
    let n_writers = rng.range(1, 2) as usize;
    let writers: Vec<Vec<OpK>> = (0..n_writers).map(|_| (0..rng.range(2, 5)).map(|_| gen_w(&mut rng)).collect()).collect();
    let snapshots = rng.range(1, 3) as usize;
    let env_seed = rng.next();
    let mut srng = Rng::for_run(seed, "C09s", run);
    let sched = SchedSpec::gen(&mut srng, 400);
    Plan { cfg, universe, pre, writers, snapshots, sched, env_seed }
}

#[derive(Clone, Debug, Serialize)]
pub struct Ev {
    thread: usize,
    id: u64,
    inv: u64,
    ret: u64,
    kind: EvKind,
}

#[derive(Clone, Debug, Serialize, PartialEq)]
pub enum EvKind {
    Insert { n: u64, ok: bool },
    Delete { ok: bool },
    UpdMeta { m: u64, ok: bool },
    Final { state: Option<(u64, u64)> },
}

type St = Option<(u64, u64)>;

fn explainable(evs: &[Ev], init: St) -> bool {
    fn apply(e: &Ev, st: St) -> Vec<St> {
        match &e.kind {
            EvKind::Insert { n, ok } => {
                if *ok {
                    vec![Some((*n, *n))]
                } else {
                    vec![Some((*n, *n)), st]
                }
            }
            EvKind::Delete { ok } => {
                if *ok {
                    vec![None]
                } else {
                    vec![None, st]
                }
            }
            EvKind::UpdMeta { m, ok } => {
                let applied = st.map(|(v, _)| (v, *m));
                if *ok {
                    vec![applied]
                } else {
                    vec![applied, st]
                }
            }
            EvKind::Final { state } => {
                if *state == st {
                    vec![st]
                } else {
                    vec![]
                }
            }
        }
    }
    fn go(evs: &[Ev], done: u32, st: St, seen: &mut HashSet<(u32, St)>) -> bool {
        if done == (1u32 << evs.len()) - 1 {
            return true;
        }
        if !seen.insert((done, st)) {
            return false;
        }
        let mut min_ret = u64::MAX;
        for (i, e) in evs.iter().enumerate() {
            if done & (1 << i) == 0 && e.ret < min_ret {
                min_ret = e.ret;
            }
        }
        for (i, e) in evs.iter().enumerate() {
            if done & (1 << i) != 0 || e.inv > min_ret {
                continue;
            }
            for next in apply(e, st) {
                if go(evs, done | (1 << i), next, seen) {
                    return true;
                }
            }
        }
        false
    }
    if evs.len() > 24 {
        return true;
    }
    go(evs, 0, init, &mut HashSet::new())
}

pub struct Exec {
    pub problems: Vec<(String, String, BTreeMap<String, String>)>,
    pub deadlocked: bool,
    pub trace_hash: u64,
    pub decisions: u64,
    pub choices: Vec<(u64, u32)>,
    pub snapshots_published: u64,
    pub segments_compacted: u64,
    pub rotations: u64,
    pub stale_snapshot_skipped: bool,
    pub note: Option<String>,
}

fn w_of(meta: &Meta) -> u64 {
    meta.get("w").and_then(|s| s.parse().ok()).unwrap_or(0)
}

fn state_of(metric: u8, d: Option<&Doc>, inputs: &BTreeMap<u64, Vec<u32>>) -> Result<St, String> {
    match d {
        None => Ok(None),
        Some((v, m)) => {
            let f = unbits(v);
            let vn = inputs.iter().find(|(_, inp)| pin_vector(metric, inp, &f).is_ok()).map(|(n, _)| *n);
            match vn {
                Some(vn) => Ok(Some((vn, w_of(m)))),
                None => Err(format!("stored vector {:?} matches no write", f)),
            }
        }
    }
}

pub fn execute(plan: &Plan) -> Exec {
    reset_env(plan.env_seed);
    let p = plan.clone();
    let r = on_fresh_thread(move || {
        let mut ex = Exec { problems: vec![], deadlocked: false, trace_hash: 0, decisions: 0, choices: vec![], snapshots_published: 0, segments_compacted: 0, rotations: 0, stale_snapshot_skipped: false, note: None };
        let dir = fresh_dir("c09", 0);
        let root = simlibc::register_root(&dir, None, true);
        let eng = match Eng::create(&p.cfg, &dir) {
            Ok(Eng::B(b)) => Arc::new(b),
            _ => {
                ex.note = Some("engine creation failed".into());
                simlibc::unregister_root(root);
                return ex;
            }
        };
        let mut inputs: BTreeMap<u64, Vec<u32>> = BTreeMap::new();
        for op in p.pre.iter().chain(p.writers.iter().flatten()) {
            if let OpK::Insert { vec, meta, .. } = op {
                inputs.insert(w_of(meta), vec.clone());
            }
        }
        // warm-up (sequential)
        let mut model = Model::new();
        for op in &p.pre {
            if apply_backend(&eng, op).is_ok() {
                if let OpK::Insert { id, meta, .. } = op {
                    if let Some(v) = eng.fetch_document(*id) {
                        model.insert(*id, (bits(&v), meta.clone()));
                    }
                } else {
                    model_apply(&mut model, op);
                }
            }
        }
        let init: BTreeMap<u64, St> = (0..p.universe + 1).map(|id| (id, state_of(p.cfg.metric, model.get(&id), &inputs).unwrap_or(None))).collect();
        let hist: Arc<Mutex<Vec<Ev>>> = Arc::new(Mutex::new(Vec::new()));
        let mut bodies: Vec<Box<dyn FnOnce() + Send + 'static>> = Vec::new();
        for (t, ops) in p.writers.iter().enumerate() {
            let e = Arc::clone(&eng);
            let ops = ops.clone();
            let hist = Arc::clone(&hist);
            bodies.push(Box::new(move || {
                for op in &ops {
                    let inv = sim::stamp();
                    let r = apply_backend(&e, op);
                    let ret = sim::stamp();
                    let ok = r.is_ok();
                    let mut h = hist.lock().unwrap();
                    match op {
                        OpK::Insert { id, meta, .. } => h.push(Ev { thread: t, id: *id, inv, ret, kind: EvKind::Insert { n: w_of(meta), ok } }),
                        OpK::Delete { id } => h.push(Ev { thread: t, id: *id, inv, ret, kind: EvKind::Delete { ok } }),
                        OpK::UpdateMeta { id, meta, .. } => h.push(Ev { thread: t, id: *id, inv, ret, kind: EvKind::UpdMeta { m: w_of(meta), ok } }),
                        OpK::BatchDelete { ids } => {
                            let mut u = ids.clone();
                            u.sort_unstable();
                            u.dedup();
                            for id in u {
                                h.push(Ev { thread: t, id, inv, ret, kind: EvKind::Delete { ok } });
                            }
                        }
                        _ => {}
                    }
                }
            }));
        }
        {
            let e = Arc::clone(&eng);
            let n = p.snapshots;
            bodies.push(Box::new(move || {
                for _ in 0..n {
                    let _ = sim::stamp();
                    let _ = e.create_snapshot();
                }
            }));
        }
        simlibc::io_yield_enable(true);
        let result = sim::run(RunConfig { seed: p.sched.seed, strategy: p.sched.strategy(), max_decisions: 60_000, yield_on_release: p.sched.yield_on_release, record_sites: false }, bodies);
        simlibc::io_yield_enable(false);
        ex.trace_hash = result.trace_hash;
        ex.decisions = result.decisions;
        ex.choices = result.choices.clone();
        if result.deadlock.is_some() || result.step_cap_hit {
            ex.deadlocked = true;
            std::mem::forget(eng);
            simlibc::unregister_root(root);
            return ex;
        }
        for (tid, msg) in &result.panics {
            ex.problems.push(("operation_panicked".into(), format!("thread {} panicked: {}", tid, msg), BTreeMap::new()));
        }
        let live = census(&eng, p.universe);
        let journal = simlibc::journal_snapshot(root);
        drop(eng);
        simlibc::unregister_root(root);
        remove_dir(&dir);
        // journal statistics + MANIFEST monotonicity
        let mut img = FsImage::default();
        let mut last_seq: Option<u64> = None;
        let mut last_snap: Option<String> = None;
        for e in &journal {
            img.apply(e);
            match e {
                Effect::Rename { to, .. } if to == "MANIFEST" => {
                    if let Some(data) = img.names.get("MANIFEST").and_then(|i| img.inodes.get(i)) {
                        if let Ok(v) = serde_json::from_slice::<serde_json::Value>(data) {
                            let seq = v.get("latest_snapshot_wal_seq").and_then(|x| x.as_u64());
                            let snap = v.get("latest_snapshot").and_then(|x| x.as_str()).map(|s| s.to_string());
                            if let (Some(a), Some(b)) = (last_seq, seq) {
                                if b < a {
                                    let mut f = BTreeMap::new();
                                    f.insert("what".into(), "snapshot_sequence_decreased".into());
                                    ex.problems.push(("manifest_snapshot_went_backwards".into(), format!("MANIFEST latest_snapshot_wal_seq went from {} to {} ({:?} -> {:?})", a, b, last_snap, snap), f));
                                }
                            }
                            if last_seq.is_some() && seq.is_none() {
                                let mut f = BTreeMap::new();
                                f.insert("what".into(), "snapshot_pointer_dropped".into());
                                ex.problems.push(("manifest_snapshot_went_backwards".into(), "MANIFEST lost its snapshot pointer".into(), f));
                            }
                            if seq.is_some() {
                                last_seq = seq;
                                last_snap = snap;
                            }
                        }
                    }
                }
                Effect::Rename { to, .. } if to.starts_with("snapshot_") => ex.snapshots_published += 1,
                Effect::Unlink { name } if name.starts_with("wal_") => ex.segments_compacted += 1,
                Effect::Unlink { name } if name.starts_with("snapshot_") => ex.stale_snapshot_skipped = true,
                Effect::Create { name, .. } if name.starts_with("wal_") => ex.rotations += 1,
                _ => {}
            }
        }
        // oracle 1: restart from the directory == live
        let final_img = image_at(&FsImage::default(), &journal, journal.len(), &Variant::Kill);
        let rr = crate::c01::recover_on_image(&p.cfg, &final_img, p.universe, "c09r", 0);
        match rr.outcome {
            crate::c01::Outcome::Recovered(c) => {
                if c != live {
                    let mut f = BTreeMap::new();
                    let diff = crate::hist::diff_census(&live, &c);
                    let kind = if diff.contains("-> absent") { "document_lost" } else if diff.contains("absent ->") { "document_resurrected" } else { "content_differs" };
                    f.insert("difference".into(), kind.into());
                    ex.problems.push(("restart_differs_from_live".into(), format!("after all calls returned, restart yields a different collection (live -> recovered): {}", diff), f));
                }
            }
            crate::c01::Outcome::Refused(e) => {
                let mut f = BTreeMap::new();
                f.insert("error".into(), simlibc::mask_name(&e).chars().take(100).collect());
                ex.problems.push(("restart_refused".into(), format!("after all calls returned, strict start-up refuses: {}", simlibc::mask_name(&e)), f));
            }
            crate::c01::Outcome::Panicked => ex.problems.push(("restart_panicked".into(), String::new(), BTreeMap::new())),
        }
        // oracle 2: live is a linearisation of the acknowledged writes
        let mut history = hist.lock().unwrap().clone();
        let tail = history.iter().map(|e| e.ret).max().unwrap_or(0) + 10;
        if !live.inconsistent.is_empty() {
            ex.problems.push(("live_reads_inconsistent".into(), live.inconsistent.join("; "), BTreeMap::new()));
        }
        for id in 0..p.universe + 1 {
            match state_of(p.cfg.metric, live.docs.get(&id), &inputs) {
                Ok(st) => history.push(Ev { thread: 99, id, inv: tail, ret: tail + 1, kind: EvKind::Final { state: st } }),
                Err(m) => ex.problems.push(("live_vector_never_written".into(), format!("id {}: {}", id, m), BTreeMap::new())),
            }
        }
        for id in 0..p.universe + 1 {
            let evs: Vec<Ev> = history.iter().filter(|e| e.id == id).cloned().collect();
            if !explainable(&evs, init.get(&id).copied().flatten()) {
                let mut sorted = evs.clone();
                sorted.sort_by_key(|e| e.inv);
                let text: Vec<String> = sorted.iter().map(|e| format!("T{} [{}..{}] {:?}", e.thread, e.inv, e.ret, e.kind)).collect();
                ex.problems.push(("live_state_not_a_linearisation".into(), format!("id {} (initial {:?}): final live state is not explained by any order of the acknowledged writes: {}", id, init.get(&id), text.join(" ; ")), BTreeMap::new()));
            }
        }
        ex
    });
    match r {
        Ok(e) => e,
        Err(p) => Exec { problems: vec![("harness_thread_panicked".into(), p, BTreeMap::new())], deadlocked: false, trace_hash: 0, decisions: 0, choices: vec![], snapshots_published: 0, segments_compacted: 0, rotations: 0, stale_snapshot_skipped: false, note: None },
    }
}

fn apply_backend(b: &kyrodb_engine::HnswBackend, op: &OpK) -> anyhow::Result<()> {
    match op {
        OpK::Insert { id, vec, meta } => b.insert(*id, unbits(vec), to_hash(meta)),
        OpK::Delete { id } => b.delete(*id).map(|_| ()),
        OpK::BatchDelete { ids } => b.batch_delete(ids).map(|_| ()),
        OpK::UpdateMeta { id, meta, merge } => b.update_metadata(*id, to_hash(meta), *merge).map(|_| ()),
        OpK::Snapshot => b.create_snapshot(),
        _ => Ok(()),
    }
}

pub fn run_batch(seed: u64, start: u64, count: u64, tier: &str, budget_ms: u64, sum: &mut Summary) {
    let t0 = simlibc::real_now_ns();
    for run in start..start + count {
        if budget_ms > 0 && (simlibc::real_now_ns() - t0) / 1_000_000 > budget_ms {
            break;
        }
        let plan = gen_plan(seed, run, tier);
        let ex = execute(&plan);
        sum.runs += 1;
        if let Some(n) = &ex.note {
            sum.notes.push(n.clone());
            continue;
        }
        if ex.deadlocked {
            sum.count("aborted_by_deadlock_or_cap", 1);
            continue;
        }
        sum.evaluations += 1;
        sum.count("decisions", ex.decisions);
        sum.probe("snapshot_published_during_race", ex.snapshots_published);
        sum.probe("segments_compacted_during_race", ex.segments_compacted);
        sum.probe("segments_created_during_race", ex.rotations);
        if ex.stale_snapshot_skipped {
            sum.probe("stale_snapshot_discarded", 1);
        }
        if ex.snapshots_published > 0 {
            sum.distinct_hash(ex.trace_hash);
        }
        if sum.runs <= 2 {
            sum.sample(json!({"run": run, "cfg": plan.cfg, "writers": plan.writers, "snapshots": plan.snapshots, "schedule": plan.sched.kind, "decisions": ex.decisions}));
        }
        for (clause, msg, facts) in &ex.problems {
            let mut key = format!("C09|{}", clause);
            for (k, v) in facts {
                key.push_str(&format!("|{}={}", k, v));
            }
            if !sum.class_first(&key) || sum.violations.len() >= 10 {
                continue;
            }
            let mut best = plan.clone();
            best.sched = SchedSpec { kind: "replay".into(), a: 0, len: plan.sched.len, seed: plan.sched.seed, yield_on_release: plan.sched.yield_on_release, choices: ex.choices.clone() };
            let mut best_msg = msg.clone();
            // minimise: drop operations, re-searching schedules briefly for each candidate
            let mut srng = Rng::new(plan.env_seed ^ 0xC09);
            let mut tries = 0;
            if sum.violations.len() < 4 {
                for t in 0..best.writers.len() {
                    let mut i = 0;
                    while i < best.writers[t].len() && tries < 300 {
                        let mut cand = best.clone();
                        cand.writers[t].remove(i);
                        let mut hit = false;
                        for _ in 0..30 {
                            tries += 1;
                            cand.sched = SchedSpec::gen(&mut srng, 300);
                            let e2 = execute(&cand);
                            if let Some((_, m2, _)) = e2.problems.iter().find(|(c, _, _)| c == clause) {
                                cand.sched = SchedSpec { kind: "replay".into(), a: 0, len: 300, seed: cand.sched.seed, yield_on_release: cand.sched.yield_on_release, choices: e2.choices.clone() };
                                best_msg = m2.clone();
                                best = cand.clone();
                                hit = true;
                                break;
                            }
                        }
                        if !hit {
                            i += 1;
                        }
                    }
                }
            }
            sum.violations.push(Violation {
                property: "C09".into(),
                clause: clause.clone(),
                facts: facts.clone(),
                message: best_msg,
                seed,
                run,
                replay: serde_json::to_value(Replay { check: "C09".into(), plan: best, clause: clause.clone() }).unwrap(),
                minimised: true,
                original: Some(json!({"plan": plan, "message": msg})),
            });
        }
    }
}

pub fn replay(v: &serde_json::Value, sum: &mut Summary) -> Result<(), String> {
    let r: Replay = serde_json::from_value(v.clone()).map_err(|e| e.to_string())?;
    let ex = execute(&r.plan);
    sum.runs = 1;
    sum.evaluations = 1;
    for (clause, msg, facts) in &ex.problems {
        sum.violations.push(Violation { property: "C09".into(), clause: clause.clone(), facts: facts.clone(), message: msg.clone(), seed: 0, run: 0, replay: v.clone(), minimised: true, original: None });
    }
    Ok(())
}
