//! C12: restoring a backup reproduces the collection as of that backup.
//! Real BackupManager / RestoreManager / engine recovery over real files; the clock (backup timestamps, `now` of
//! retention) and file mtimes (incremental selection) are the simulated ones (E1). Histories with writes, snapshots
//! (+ WAL compaction), rotations, restarts and clock gaps take full / incremental backups at quiescent points; the
//! expected collection of a backup is the live census at that moment. Afterwards every backup is restored into an
//! empty directory and the engine is started from it; point-in-time targets around every backup timestamp; single
//! byte damage and truncation of archives and metadata; the non-empty-target guard; and (separate rows) retention
//! over synthetic timelines.

use crate::common::*;
use crate::hist::{on_fresh_thread, reset_env};
use crate::report::{Summary, Violation};
use crate::rng::Rng;
use crate::simlibc;
use kyrodb_engine::{BackupManager, BackupMetadata, BackupType, ClearDirectoryOptions, RestoreManager, RetentionPolicy};
use serde::{Deserialize, Serialize};
use serde_json::json;
use std::collections::{BTreeMap, BTreeSet};
use std::panic::{catch_unwind, AssertUnwindSafe};

#[derive(Clone, Debug, PartialEq, Serialize, Deserialize)]
pub enum ParentSel {
    Latest,
    LatestFull,
    Nth(usize),
}

#[derive(Clone, Debug, PartialEq, Serialize, Deserialize)]
pub enum Step {
    Op(OpK),
    GapSecs(u64),
    Full,
    Incr(ParentSel),
    /// the process dies `back` storage effects before the end of everything written so far (never before the latest
    /// backup); `torn` > 0 additionally keeps that many bytes of the write it dies in. With `cold_backup` a full backup
    /// of the directory is taken while the engine is still down. Then the engine is started again.
    Crash { back: u32, torn: u32, cold_backup: bool },
    /// an operation during which storage calls fail as listed
    FaultyOp(OpK, Vec<crate::c03::RuleSpec>),
}

#[derive(Clone, Debug, PartialEq, Serialize, Deserialize)]
pub struct Synth {
    /// age in seconds before `now`
    pub age: u64,
    /// index of the parent in this list (None = full backup)
    pub parent: Option<usize>,
}

#[derive(Clone, Debug, PartialEq, Serialize, Deserialize)]
pub struct RetPlan {
    pub backups: Vec<Synth>,
    pub policy: (usize, usize, usize, usize, u64),
}

#[derive(Clone, Debug, PartialEq, Serialize, Deserialize)]
pub struct Plan {
    pub cfg: Cfg,
    pub steps: Vec<Step>,
    pub universe: u64,
    pub damage_seed: u64,
    pub damage_tries: u32,
    pub retention: Option<RetPlan>,
    pub env_seed: u64,
}

#[derive(Clone, Debug, Serialize, Deserialize)]
pub struct Replay {
    pub check: String,
    pub plan: Plan,
    pub clause: String,
}

pub fn gen_plan(seed: u64, run: u64, tier: &str) -> Plan {
    let mut rng = Rng::for_run(seed, "C12", run);
    if run % 5 == 4 {
        // retention row
        let n = rng.range(2, if tier == "thorough" { 14 } else { 9 }) as usize;
        let hour = 3600u64;
        let day = 86_400u64;
        let mut backups: Vec<Synth> = Vec::new();
        let mut age = rng.range(0, 400) * day / 4 + rng.below(day);
        for i in 0..n {
            let parent = if i == 0 || rng.chance(1, 3) { None } else { Some(if rng.chance(3, 4) { i - 1 } else { rng.below(i as u64) as usize }) };
            backups.push(Synth { age, parent });
            let step = match rng.below(6) {
                0 => rng.below(60),
                1 => rng.below(hour),
                2 => hour + rng.below(hour),
                3 => rng.below(day),
                4 => day + rng.below(3 * day),
                _ => rng.below(40 * day),
            };
            age = age.saturating_sub(step);
        }
        let policy = (*rng.pick(&[0usize, 1, 2, 24]), *rng.pick(&[0usize, 1, 7]), *rng.pick(&[0usize, 1, 4]), *rng.pick(&[0usize, 1, 12]), *rng.pick(&[0u64, 0, 1, 30]));
        let cfg = Cfg { metric: 1, dim: 2, fsync: Fsync::Always, snap_interval: 0, max_wal: 1 << 20, capacity: 8, tiered: false, hot_soft: 1, hot_hard: 1, cache_cap: 1 };
        return Plan { cfg, steps: vec![], universe: 0, damage_seed: 0, damage_tries: 0, retention: Some(RetPlan { backups, policy }), env_seed: rng.next() };
    }
    let mut cfg = Cfg::gen(&mut rng, &[Fsync::Always]);
    cfg.dim = *rng.pick(&[2usize, 4, 8]);
    cfg.capacity = 1000;
    cfg.snap_interval = *rng.pick(&[0usize, 2, 3, 5, 1000]);
    cfg.max_wal = *rng.pick(&[1u64, 300, 2048, 100 << 20]);
    let universe = rng.range(3, 8);
    let n = if tier == "thorough" { rng.range(8, 60) } else { rng.range(5, 30) } as usize;
    let mut steps = Vec::new();
    let mut w = 0u64;
    let mut have_backup = false;
    for _ in 0..n {
        let r = rng.below(100);
        let id = rng.below(universe);
        let st = if r < 38 {
            w += 1;
            Step::Op(OpK::Insert { id, vec: bits(&gen_vector(&mut rng, cfg.dim, w)), meta: gen_meta(&mut rng, w) })
        } else if r < 46 {
            Step::Op(OpK::Delete { id })
        } else if r < 50 {
            Step::Op(OpK::BatchDelete { ids: (0..rng.range(1, 3)).map(|_| rng.below(universe)).collect() })
        } else if r < 56 {
            w += 1;
            Step::Op(OpK::UpdateMeta { id, meta: gen_meta(&mut rng, w), merge: rng.chance(1, 2) })
        } else if r < 64 {
            Step::Op(OpK::Snapshot)
        } else if r < 68 {
            Step::Op(OpK::Restart)
        } else if r < 71 {
            // crash points are aimed at the multi-file procedures: put one right before the crash most of the time
            match rng.below(4) {
                0 => steps.push(Step::Op(OpK::Snapshot)),
                1 => steps.push(Step::Op(OpK::Restart)),
                2 => {
                    w += 1;
                    steps.push(Step::Op(OpK::Insert { id, vec: bits(&gen_vector(&mut rng, cfg.dim, w)), meta: gen_meta(&mut rng, w) }));
                }
                _ => {}
            }
            Step::Crash { back: if rng.chance(1, 5) { 0 } else { rng.range(1, 24) as u32 }, torn: if rng.chance(1, 4) { rng.range(1, 40) as u32 } else { 0 }, cold_backup: rng.chance(1, 2) }
        } else if r < 74 {
            w += 1;
            let op = match rng.below(6) {
                0 => OpK::Snapshot,
                1 => OpK::Delete { id },
                5 => OpK::Restart,
                _ => OpK::Insert { id, vec: bits(&gen_vector(&mut rng, cfg.dim, w)), meta: gen_meta(&mut rng, w) },
            };
            Step::FaultyOp(op, crate::c03::gen_faults(&mut rng))
        } else if r < 80 {
            Step::GapSecs(*rng.pick(&[0u64, 1, 1, 2, 5, 3600]))
        } else if r < 88 || !have_backup {
            have_backup = true;
            Step::Full
        } else {
            Step::Incr(match rng.below(4) {
                0 => ParentSel::LatestFull,
                1 => ParentSel::Nth(rng.below(4) as usize),
                _ => ParentSel::Latest,
            })
        };
        steps.push(st);
    }
    Plan { cfg, steps, universe, damage_seed: rng.next(), damage_tries: if tier == "thorough" { 60 } else { 24 }, retention: None, env_seed: rng.next() }
}

// ------------------------------------------------------------------------------------------------ helpers

fn dir_files(d: &str) -> BTreeMap<String, Vec<u8>> {
    let _b = simlibc::Bypass::new();
    let mut m = BTreeMap::new();
    if let Ok(rd) = std::fs::read_dir(d) {
        for e in rd.flatten() {
            if e.path().is_file() {
                if let Ok(bytes) = std::fs::read(e.path()) {
                    m.insert(e.file_name().to_string_lossy().to_string(), bytes);
                }
            }
        }
    }
    m
}

fn debug_dump(tag: &str, data: &str, meta: Option<&BackupMetadata>) {
    if std::env::var("VSIM_DEBUG").is_err() {
        return;
    }
    let files = dir_files(data);
    eprintln!("--- {} now={}s", tag, (simlibc::clock_now_ns() - simlibc::EPOCH_NS) / 1_000_000_000);
    for (n, b) in &files {
        let mt = std::fs::metadata(format!("{}/{}", data, n)).ok().and_then(|m| m.modified().ok()).and_then(|t| t.duration_since(std::time::UNIX_EPOCH).ok()).map(|d| d.as_secs() as i64 - (simlibc::EPOCH_NS / 1_000_000_000) as i64);
        eprintln!("    {} {} bytes mtime={:?}", n, b.len(), mt);
        if n == "MANIFEST" {
            eprintln!("      {}", String::from_utf8_lossy(b).replace('\n', " "));
        }
    }
    if let Some(m) = meta {
        eprintln!("    backup: {:?}", m);
    }
}

fn set_mtime(path: &str, ns: u64) {
    let _b = simlibc::Bypass::new();
    if let Ok(c) = std::ffi::CString::new(path) {
        let ts = libc::timespec { tv_sec: (ns / 1_000_000_000) as i64, tv_nsec: (ns % 1_000_000_000) as i64 };
        let arr = [ts, ts];
        unsafe { libc::utimensat(libc::AT_FDCWD, c.as_ptr(), arr.as_ptr(), 0) };
    }
}

/// The collection a start from a copy of `data` gives (None when it does not start).
fn restart_census_of_copy(cfg: &Cfg, data: &str, scratch: &str, universe: u64) -> Option<Census> {
    let files = dir_files(data);
    mkdir(scratch);
    {
        let _b = simlibc::Bypass::new();
        for (n, bytes) in &files {
            let _ = std::fs::write(format!("{}/{}", scratch, n), bytes);
        }
    }
    let r = match catch_unwind(AssertUnwindSafe(|| Eng::recover(cfg, scratch))) {
        Ok(Ok(e)) => {
            let c = census(e.backend(), universe);
            drop(e);
            Some(c)
        }
        _ => None,
    };
    remove_dir(scratch);
    r
}

fn mkdir(d: &str) {
    let _b = simlibc::Bypass::new();
    let _ = std::fs::remove_dir_all(d);
    let _ = std::fs::create_dir_all(d);
}

pub struct Problem {
    pub clause: String,
    pub msg: String,
    pub facts: BTreeMap<String, String>,
}
fn prob(clause: &str, msg: String, facts: &[(&str, &str)]) -> Problem {
    Problem { clause: clause.into(), msg, facts: facts.iter().map(|(a, b)| (a.to_string(), b.to_string())).collect() }
}

struct BkRec {
    meta: BackupMetadata,
    /// `latest_snapshot` of the data directory's MANIFEST when the backup was taken
    manifest_snapshot: Option<String>,
    expected: Census,
    /// histories with a failed storage call only: the collection a restart of the source directory would give at
    /// backup time (a failed write may legitimately be present or absent in the log; C03 judges that)
    expected_alt: Option<Census>,
    parent: Option<usize>,
    /// activity between the parent backup (or the start) and this backup
    snapshot_since_parent: bool,
    restart_since_parent: bool,
    writes_since_parent: u32,
}

fn manifest_snapshot(data: &str) -> Option<String> {
    let _b = simlibc::Bypass::new();
    let raw = std::fs::read_to_string(format!("{}/MANIFEST", data)).ok()?;
    let v: serde_json::Value = serde_json::from_str(&raw).ok()?;
    v.get("latest_snapshot").and_then(|x| x.as_str()).map(|x| x.to_string())
}

fn kind_of(b: &BkRec) -> &'static str {
    if b.meta.backup_type == BackupType::Full {
        "full"
    } else {
        "incremental"
    }
}

fn yn(b: bool) -> &'static str {
    if b {
        "yes"
    } else {
        "no"
    }
}

/// restore `id` into `target` and start the engine there; Ok(census) or Err((stage, message))
fn restore_and_census(cfg: &Cfg, bk: &str, target: &str, universe: u64, how: &dyn Fn(&RestoreManager) -> anyhow::Result<()>) -> Result<Census, (String, String)> {
    let rm = RestoreManager::new(bk, target).map_err(|e| ("restore_manager".to_string(), format!("{:#}", e)))?;
    match catch_unwind(AssertUnwindSafe(|| how(&rm))) {
        Ok(Ok(())) => {}
        Ok(Err(e)) => return Err(("restore".into(), format!("{:#}", e))),
        Err(_) => return Err(("restore".into(), "restore panicked".into())),
    }
    match catch_unwind(AssertUnwindSafe(|| Eng::recover(cfg, target))) {
        Ok(Ok(e)) => {
            let c = census(e.backend(), universe);
            drop(e);
            Ok(c)
        }
        Ok(Err(e)) => Err(("start".into(), mask_digits(&format!("{:#}", e)))),
        Err(_) => Err(("start".into(), "engine start on the restored directory panicked".into())),
    }
}

/// Restore in a forked child (a damaged archive that gets past verification may make the extraction abort the
/// process on an absurd allocation), then start the engine here. Stages: "restore" (refused), "restore_aborted"
/// (the child died), "start".
fn restore_forked_and_census(cfg: &Cfg, bk: &str, target: &str, universe: u64, how: &dyn Fn(&RestoreManager) -> anyhow::Result<()>) -> Result<Census, (String, String)> {
    let rm = RestoreManager::new(bk, target).map_err(|e| ("restore_manager".to_string(), format!("{:#}", e)))?;
    let status = unsafe {
        let pid = libc::fork();
        if pid == 0 {
            let devnull = libc::open(b"/dev/null\0".as_ptr() as *const libc::c_char, libc::O_WRONLY);
            if devnull >= 0 {
                libc::dup2(devnull, 2);
            }
            let code = match catch_unwind(AssertUnwindSafe(|| how(&rm))) {
                Ok(Ok(())) => 0,
                Ok(Err(_)) => 2,
                Err(_) => 3,
            };
            libc::_exit(code);
        }
        let mut status: libc::c_int = 0;
        libc::waitpid(pid, &mut status, 0);
        status
    };
    if !libc::WIFEXITED(status) {
        return Err(("restore_aborted".into(), "the restoring process was killed (abort on an absurd allocation or a crash) after verification let the archive through".into()));
    }
    match libc::WEXITSTATUS(status) {
        0 => {}
        2 => return Err(("restore".into(), "refused".into())),
        _ => return Err(("restore".into(), "restore panicked".into())),
    }
    match catch_unwind(AssertUnwindSafe(|| Eng::recover(cfg, target))) {
        Ok(Ok(e)) => {
            let c = census(e.backend(), universe);
            drop(e);
            Ok(c)
        }
        Ok(Err(e)) => Err(("start".into(), mask_digits(&format!("{:#}", e)))),
        Err(_) => Err(("start".into(), "engine start on the restored directory panicked".into())),
    }
}

fn census_diff(a: &Census, b: &Census) -> String {
    crate::hist::diff_census(a, b)
}

pub struct Exec {
    pub problems: Vec<Problem>,
    pub evals: u64,
    pub probes: BTreeMap<String, u64>,
    pub faults: BTreeMap<String, u64>,
    pub digest: u64,
    pub sim_ns: u64,
}

fn chain_of(backups: &[BkRec], mut i: usize) -> Vec<usize> {
    let mut c = vec![i];
    while let Some(p) = backups[i].parent {
        c.push(p);
        i = p;
    }
    c.reverse();
    c
}

pub fn execute(plan: &Plan) -> Exec {
    reset_env(plan.env_seed);
    let p = plan.clone();
    let r = on_fresh_thread(move || {
        let mut ex = Exec { problems: vec![], evals: 0, probes: BTreeMap::new(), faults: BTreeMap::new(), digest: 0, sim_ns: 0 };
        let base = fresh_dir("c12", 0);
        if let Some(rp) = &p.retention {
            run_retention(rp, &base, &mut ex);
            remove_dir(&base);
            ex.sim_ns = simlibc::clock_now_ns() - simlibc::EPOCH_NS;
            return ex;
        }
        let data = format!("{}/data", base);
        let bk = format!("{}/backups", base);
        mkdir(&data);
        mkdir(&bk);
        // journaled, so that a crash step can rebuild the directory as of any earlier storage effect
        let mut root = simlibc::register_root(&data, None, true);
        let mut base_img = simlibc::FsImage::default();
        let mut floor = 0usize; // journal length at the latest backup: crashes never rewind past a backup
        let mut faulted = false; // a storage call has failed in this history
        simlibc::stamp_mtime_enable(true);
        // start a little after the epoch second boundary is irrelevant; advance so that timestamps are > 0 relative
        let mut pr = |ex: &mut Exec, k: &str| *ex.probes.entry(k.to_string()).or_insert(0) += 1;
        let mut eng = match catch_unwind(AssertUnwindSafe(|| Eng::create(&p.cfg, &data))) {
            Ok(Ok(e)) => Some(e),
            _ => None,
        };
        let mut backups: Vec<BkRec> = Vec::new();
        let (mut snap_since, mut restart_since, mut writes_since) = (false, false, 0u32);
        let mut activity: BTreeMap<usize, (bool, bool, u32)> = BTreeMap::new(); // since backup i was taken
        let mut digest = 0u64;
        for st in &p.steps {
            let Some(e) = eng.as_ref() else { break };
            match st {
                Step::GapSecs(s) => simlibc::clock_advance_ns(s * 1_000_000_000),
                Step::Op(OpK::Restart) => {
                    drop(eng.take());
                    match catch_unwind(AssertUnwindSafe(|| Eng::recover(&p.cfg, &data))) {
                        Ok(Ok(e2)) => eng = Some(e2),
                        _ => {
                            pr(&mut ex, "history_abandoned_restart_failed");
                            break;
                        }
                    }
                    restart_since = true;
                    for a in activity.values_mut() {
                        a.1 = true;
                    }
                }
                Step::FaultyOp(OpK::Restart, faults) => {
                    // a start during which storage calls fail; when it fails, the next start runs without faults
                    drop(eng.take());
                    simlibc::arm_faults(faults.iter().map(crate::c03::to_rule).collect());
                    let first = catch_unwind(AssertUnwindSafe(|| Eng::recover(&p.cfg, &data)));
                    let fired = simlibc::disarm_faults().iter().filter(|f| f.fired).count();
                    if fired > 0 {
                        faulted = true;
                        *ex.faults.entry("storage_fault_during_restart".to_string()).or_insert(0) += 1;
                    }
                    match first {
                        Ok(Ok(e2)) => eng = Some(e2),
                        _ => {
                            pr(&mut ex, "start_failed_under_storage_fault");
                            match catch_unwind(AssertUnwindSafe(|| Eng::recover(&p.cfg, &data))) {
                                Ok(Ok(e2)) => eng = Some(e2),
                                _ => {
                                    pr(&mut ex, "history_abandoned_start_after_failed_start_failed");
                                    break;
                                }
                            }
                        }
                    }
                    restart_since = true;
                    for a in activity.values_mut() {
                        a.1 = true;
                    }
                }
                Step::FaultyOp(op, faults) => {
                    simlibc::arm_faults(faults.iter().map(crate::c03::to_rule).collect());
                    let ok = matches!(catch_unwind(AssertUnwindSafe(|| e.apply(op))), Ok(Ok(())));
                    let fired = simlibc::disarm_faults().iter().filter(|f| f.fired).count();
                    if fired > 0 {
                        faulted = true;
                        *ex.faults.entry(format!("storage_fault_during_{}", op.name())).or_insert(0) += 1;
                        pr(&mut ex, if ok { "operation_succeeded_despite_storage_fault" } else { "operation_failed_under_storage_fault" });
                    }
                    if matches!(op, OpK::Snapshot) {
                        for a in activity.values_mut() {
                            a.0 = true;
                        }
                    } else {
                        for a in activity.values_mut() {
                            a.2 += 1;
                        }
                    }
                }
                Step::Crash { back, torn, cold_backup } => {
                    let j = simlibc::journal_snapshot(root);
                    let times = simlibc::journal_times(root);
                    let i = j.len().saturating_sub(*back as usize).max(floor).min(j.len());
                    drop(eng.take());
                    simlibc::unregister_root(root);
                    let variant = match j.get(i) {
                        Some(simlibc::Effect::Write { data: d, .. }) if *torn > 0 && d.len() > 1 => crate::crash::Variant::Torn { keep: 1 + (*torn as usize - 1) % (d.len() - 1) },
                        _ => crate::crash::Variant::Kill,
                    };
                    *ex.faults.entry(format!("crash_{}", variant.name())).or_insert(0) += 1;
                    if i < j.len() {
                        pr(&mut ex, "crash_inside_a_procedure");
                    }
                    let img = crate::crash::image_at(&base_img, &j, i, &variant);
                    mkdir(&data);
                    img.dump(&data);
                    // file times as of the last effect on each file before the crash point
                    let mut last: BTreeMap<u64, u64> = BTreeMap::new();
                    for (k, e2) in j.iter().enumerate().take(i + 1) {
                        match e2 {
                            simlibc::Effect::Create { ino, .. } | simlibc::Effect::Write { ino, .. } | simlibc::Effect::Trunc { ino, .. } => {
                                last.insert(*ino, times.get(k).copied().unwrap_or(0));
                            }
                            _ => {}
                        }
                    }
                    for (name, ino) in &img.names {
                        if let Some(t) = last.get(ino) {
                            set_mtime(&format!("{}/{}", data, name), *t);
                        }
                    }
                    base_img = img.clone();
                    root = simlibc::register_root(&data, Some(&img), true);
                    floor = 0;
                    // a backup of the directory as the crash left it
                    let mut pending: Option<(BackupMetadata, Option<String>)> = None;
                    let mut pending_parent: Option<usize> = None;
                    if *cold_backup {
                        if let Ok(bm) = BackupManager::new(&bk, &data) {
                            // odd distances: an incremental on the latest backup instead of a full one
                            let incr_on = if *back % 2 == 1 && !backups.is_empty() { Some(backups.len() - 1) } else { None };
                            let made = match incr_on {
                                Some(pi) => {
                                    let pid = backups[pi].meta.id;
                                    catch_unwind(AssertUnwindSafe(|| bm.create_incremental_backup(pid, format!("cold incr #{} on #{}", backups.len(), pi))))
                                }
                                None => catch_unwind(AssertUnwindSafe(|| bm.create_full_backup(format!("cold full #{}", backups.len())))),
                            };
                            match made {
                                Ok(Ok(meta)) => {
                                    pending_parent = incr_on;
                                    pending = Some((meta, manifest_snapshot(&data)))
                                }
                                Ok(Err(_)) => pr(&mut ex, "backup_of_crashed_directory_refused"),
                                Err(_) => {
                                    ex.problems.push(prob("backup_panicked", "create_full_backup on a directory left by a crash panicked".into(), &[("backup", "full_of_crashed_directory")]));
                                    break;
                                }
                            }
                        }
                    }
                    match catch_unwind(AssertUnwindSafe(|| Eng::recover(&p.cfg, &data))) {
                        Ok(Ok(e2)) => {
                            if let Some((meta, ms)) = pending {
                                // the collection of that backup is what the directory holds: what a start from it gives
                                let expected = census(e2.backend(), p.universe);
                                digest = crate::rng::mix(digest, (expected.docs.len() as u64 + 1) << 16);
                                activity.insert(backups.len(), (false, true, 0));
                                backups.push(BkRec { meta, manifest_snapshot: ms, expected, expected_alt: None, parent: pending_parent, snapshot_since_parent: snap_since, restart_since_parent: true, writes_since_parent: writes_since });
                                pr(&mut ex, if pending_parent.is_some() { "incremental_backups_of_crashed_directory" } else { "full_backups_of_crashed_directory" });
                            }
                            eng = Some(e2);
                        }
                        _ => {
                            pr(&mut ex, "history_abandoned_start_after_crash_failed");
                            break;
                        }
                    }
                    restart_since = true;
                    for a in activity.values_mut() {
                        a.1 = true;
                    }
                }
                Step::Op(op) => {
                    let ok = matches!(catch_unwind(AssertUnwindSafe(|| e.apply(op))), Ok(Ok(())));
                    if ok {
                        if matches!(op, OpK::Snapshot) {
                            snap_since = true;
                            for a in activity.values_mut() {
                                a.0 = true;
                            }
                        } else if op.is_write() {
                            writes_since += 1;
                            for a in activity.values_mut() {
                                a.2 += 1;
                            }
                        }
                    }
                }
                Step::Full => {
                    let bm = match BackupManager::new(&bk, &data) {
                        Ok(b) => b,
                        Err(_) => break,
                    };
                    match catch_unwind(AssertUnwindSafe(|| bm.create_full_backup(format!("full #{}", backups.len())))) {
                        Ok(Ok(meta)) => {
                            let expected = census(e.backend(), p.universe);
                            digest = crate::rng::mix(digest, expected.docs.len() as u64 + 1);
                            activity.insert(backups.len(), (false, false, 0));
                            floor = simlibc::journal_len(root);
                            debug_dump("full backup", &data, Some(&meta));
                            let expected_alt = if faulted { restart_census_of_copy(&p.cfg, &data, &format!("{}/alt", base), p.universe) } else { None };
                            backups.push(BkRec { meta, manifest_snapshot: manifest_snapshot(&data), expected, expected_alt, parent: None, snapshot_since_parent: snap_since, restart_since_parent: restart_since, writes_since_parent: writes_since });
                            pr(&mut ex, "full_backups");
                        }
                        Ok(Err(err)) => {
                            ex.problems.push(prob("backup_refused_at_quiescent_point", format!("create_full_backup at a quiescent point failed: {}", mask_digits(&format!("{:#}", err))), &[("backup", "full")]));
                            break;
                        }
                        Err(_) => {
                            ex.problems.push(prob("backup_panicked", "create_full_backup panicked".into(), &[("backup", "full")]));
                            break;
                        }
                    }
                }
                Step::Incr(sel) => {
                    if backups.is_empty() {
                        continue;
                    }
                    let parent = match sel {
                        ParentSel::Latest => backups.len() - 1,
                        ParentSel::LatestFull => backups.iter().rposition(|b| b.meta.backup_type == BackupType::Full).unwrap_or(0),
                        ParentSel::Nth(n) => *n % backups.len(),
                    };
                    let bm = match BackupManager::new(&bk, &data) {
                        Ok(b) => b,
                        Err(_) => break,
                    };
                    let pid = backups[parent].meta.id;
                    match catch_unwind(AssertUnwindSafe(|| bm.create_incremental_backup(pid, format!("incr #{} on #{}", backups.len(), parent)))) {
                        Ok(Ok(meta)) => {
                            let expected = census(e.backend(), p.universe);
                            digest = crate::rng::mix(digest, (expected.docs.len() as u64 + 1) << 8);
                            let mut act = activity.get(&parent).cloned().unwrap_or((false, false, 0));
                            let ms = manifest_snapshot(&data);
                            // automatic snapshots (snapshot interval) count as well as explicit ones
                            act.0 = act.0 || ms != backups[parent].manifest_snapshot;
                            activity.insert(backups.len(), (false, false, 0));
                            floor = simlibc::journal_len(root);
                            debug_dump("incremental backup", &data, Some(&meta));
                            let expected_alt = if faulted { restart_census_of_copy(&p.cfg, &data, &format!("{}/alt", base), p.universe) } else { None };
                            backups.push(BkRec { meta, manifest_snapshot: ms, expected, expected_alt, parent: Some(parent), snapshot_since_parent: act.0, restart_since_parent: act.1, writes_since_parent: act.2 });
                            pr(&mut ex, "incremental_backups");
                            if act.0 {
                                pr(&mut ex, "incremental_after_snapshot_and_compaction");
                            }
                            if act.1 {
                                pr(&mut ex, "incremental_after_restart");
                            }
                        }
                        Ok(Err(err)) => {
                            let m = format!("{:#}", err);
                            // a refused incremental is legitimate exactly when the collection is still the parent's
                            // (whatever the wording of the refusal)
                            let mut act = activity.get(&parent).cloned().unwrap_or((false, false, 0));
                            act.0 = act.0 || manifest_snapshot(&data) != backups[parent].manifest_snapshot;
                            let now_census = census(e.backend(), p.universe);
                            if now_census != backups[parent].expected {
                                ex.problems.push(prob(
                                    "incremental_refused_although_collection_changed",
                                    format!("create_incremental_backup on parent #{} refused ({}) although the collection changed since that parent ({} write calls, snapshot since: {}, restart since: {}): {}", parent, mask_digits(&m), act.2, act.0, act.1, census_diff(&backups[parent].expected, &now_census)),
                                    &[("snapshot_since_parent", yn(act.0)), ("restart_since_parent", yn(act.1))],
                                ));
                                break;
                            }
                            pr(&mut ex, "incremental_refused_no_new_wal");
                        }
                        Err(_) => {
                            ex.problems.push(prob("backup_panicked", "create_incremental_backup panicked".into(), &[("backup", "incremental")]));
                            break;
                        }
                    }
                }
            }
        }
        drop(eng.take());
        simlibc::unregister_root(root);
        let _ = (snap_since, restart_since, writes_since);
        ex.digest = digest;
        if !ex.problems.is_empty() || backups.is_empty() {
            simlibc::stamp_mtime_enable(false);
            remove_dir(&base);
            ex.sim_ns = simlibc::clock_now_ns() - simlibc::EPOCH_NS;
            return ex;
        }
        // ---- (1) restore every backup into an empty directory and start from it
        let limit = backups.len().min(8);
        for (i, b) in backups.iter().enumerate().take(limit) {
            let target = format!("{}/r{}", base, i);
            mkdir(&target);
            ex.evals += 1;
            let id = b.meta.id;
            let facts_owned = [("backup", kind_of(b)), ("snapshot_since_parent", yn(b.snapshot_since_parent && b.parent.is_some())), ("restart_since_parent", yn(b.restart_since_parent && b.parent.is_some()))];
            match restore_and_census(&p.cfg, &bk, &target, p.universe, &|rm| rm.restore_from_backup(id)) {
                Ok(c) => {
                    if c != b.expected && Some(&c) != b.expected_alt.as_ref() {
                        ex.problems.push(prob(
                            "restored_collection_differs",
                            format!("backup #{} ({}, parent {:?}, {} writes since parent): collection started from the restored directory differs from the collection at backup time: {}", i, kind_of(b), b.parent, b.writes_since_parent, census_diff(&b.expected, &c)),
                            &facts_owned,
                        ));
                    }
                }
                Err((stage, m)) => {
                    let clause = if stage == "start" { "restored_directory_does_not_start" } else { "restore_of_verified_backup_failed" };
                    ex.problems.push(prob(clause, format!("backup #{} ({}, parent {:?}): {} failed: {}", i, kind_of(b), b.parent, stage, m), &facts_owned));
                }
            }
            remove_dir(&target);
            if !ex.problems.is_empty() {
                break;
            }
            // ---- (1b) the same restore while storage calls on the target fail: a restore that reports success must
            // still have produced the collection; one that fails loudly is fine
            let mut frng = Rng::new(p.damage_seed ^ (0xF00D + i as u64));
            if frng.chance(1, 2) {
                let ftarget = format!("{}/rf{}", base, i);
                mkdir(&ftarget);
                let froot = simlibc::register_root(&ftarget, None, false);
                let mut rules: Vec<crate::c03::RuleSpec> = Vec::new();
                for _ in 0..frng.range(1, 2) {
                    let errno = *frng.pick(&[libc::ENOSPC, libc::EIO, libc::EDQUOT]);
                    let r = frng.below(10);
                    rules.push(if r < 4 {
                        crate::c03::RuleSpec { kind: "write".into(), role: None, nth: frng.range(1, 6) as u32, action: crate::c03::ActionSpec::Errno(errno) }
                    } else if r < 7 {
                        crate::c03::RuleSpec { kind: "write".into(), role: None, nth: frng.range(1, 6) as u32, action: crate::c03::ActionSpec::Short(frng.range(1, 40) as usize) }
                    } else if r < 9 {
                        crate::c03::RuleSpec { kind: "fsync".into(), role: None, nth: frng.range(1, 4) as u32, action: crate::c03::ActionSpec::Errno(errno) }
                    } else {
                        crate::c03::RuleSpec { kind: "open".into(), role: None, nth: frng.range(1, 4) as u32, action: crate::c03::ActionSpec::Errno(errno) }
                    });
                }
                ex.evals += 1;
                let outcome = match RestoreManager::new(&bk, &ftarget) {
                    Ok(rm) => {
                        simlibc::arm_faults(rules.iter().map(crate::c03::to_rule).collect());
                        let r = catch_unwind(AssertUnwindSafe(|| rm.restore_from_backup(id)));
                        let fired = simlibc::disarm_faults().iter().filter(|f| f.fired).count();
                        Some((r, fired))
                    }
                    Err(_) => None,
                };
                simlibc::unregister_root(froot);
                if let Some((r, fired)) = outcome {
                    let ffacts = [("backup", kind_of(b)), ("restore_storage_fault", if fired > 0 { "fired" } else { "none" })];
                    match r {
                        Ok(Ok(())) => {
                            if fired > 0 {
                                *ex.probes.entry("restore_succeeded_although_a_storage_call_failed".into()).or_insert(0) += 1;
                            }
                            match catch_unwind(AssertUnwindSafe(|| Eng::recover(&p.cfg, &ftarget))) {
                                Ok(Ok(e)) => {
                                    let c = census(e.backend(), p.universe);
                                    drop(e);
                                    if c != b.expected && Some(&c) != b.expected_alt.as_ref() {
                                        ex.problems.push(prob("restored_collection_differs", format!("backup #{} ({}): the restore reported success while storage calls on the target failed ({} fired), but the collection started from it differs: {}", i, kind_of(b), fired, census_diff(&b.expected, &c)), &ffacts));
                                    }
                                }
                                Ok(Err(e)) => ex.problems.push(prob("restored_directory_does_not_start", format!("backup #{} ({}): the restore reported success while storage calls on the target failed ({} fired), but the directory does not start: {}", i, kind_of(b), fired, mask_digits(&format!("{:#}", e))), &ffacts)),
                                Err(_) => ex.problems.push(prob("restored_directory_does_not_start", format!("backup #{}: engine start on the restored directory panicked", i), &ffacts)),
                            }
                        }
                        Ok(Err(e)) => {
                            if fired == 0 {
                                ex.problems.push(prob("restore_of_verified_backup_failed", format!("backup #{} ({}): restore failed although no storage fault fired: {:#}", i, kind_of(b), e), &ffacts));
                            } else {
                                *ex.probes.entry("restore_failed_loudly_under_storage_fault".into()).or_insert(0) += 1;
                            }
                        }
                        Err(_) => ex.problems.push(prob("restore_of_verified_backup_failed", format!("backup #{}: restore panicked under a storage fault", i), &ffacts)),
                    }
                }
                remove_dir(&ftarget);
                if !ex.problems.is_empty() {
                    break;
                }
            }
        }
        // ---- (2) point-in-time targets
        if ex.problems.is_empty() {
            let mut targets: BTreeSet<u64> = BTreeSet::new();
            for b in &backups {
                targets.insert(b.meta.timestamp);
                targets.insert(b.meta.timestamp + 1);
                targets.insert(b.meta.timestamp.saturating_sub(1));
            }
            for (n, ts) in targets.iter().enumerate().take(8) {
                ex.evals += 1;
                let target = format!("{}/p{}", base, n);
                mkdir(&target);
                let ts = *ts;
                // acceptable: backups whose whole chain is <= ts, rooted in a newest full backup <= ts, and that are
                // not followed inside their chain by a strictly newer link <= ts
                let newest_full_ts = backups.iter().filter(|b| b.parent.is_none() && b.meta.timestamp <= ts).map(|b| b.meta.timestamp).max();
                let res = restore_and_census(&p.cfg, &bk, &target, p.universe, &|rm| rm.restore_point_in_time(ts));
                match (newest_full_ts, res) {
                    (None, Err(_)) => {
                        *ex.probes.entry("pitr_before_first_backup_refused".into()).or_insert(0) += 1;
                    }
                    (None, Ok(_)) => ex.problems.push(prob("pitr_restored_without_eligible_backup", format!("point-in-time restore to t={} succeeded although no full backup is that old", ts as i64 - (simlibc::EPOCH_NS / 1_000_000_000) as i64), &[])),
                    (Some(fts), res) => {
                        let mut acceptable: Vec<usize> = Vec::new();
                        for (i, b) in backups.iter().enumerate() {
                            let ch = chain_of(&backups, i);
                            let root = &backups[ch[0]];
                            if root.meta.timestamp != fts || ch.iter().any(|j| backups[*j].meta.timestamp > ts) {
                                continue;
                            }
                            // an eligible child supersedes its parent even when both carry the same second: the child was
                            // taken on top of the parent, so it is newer by construction (which of several eligible children
                            // is followed is not judged)
                            let _ = b;
                            let superseded = backups.iter().any(|c2| c2.parent == Some(i) && c2.meta.timestamp <= ts);
                            if !superseded {
                                acceptable.push(i);
                            }
                        }
                        match res {
                            Ok(c) => {
                                if !acceptable.iter().any(|i| backups[*i].expected == c || backups[*i].expected_alt.as_ref() == Some(&c)) {
                                    let best = acceptable.last().cloned().unwrap_or(0);
                                    ex.problems.push(prob(
                                        "pitr_collection_differs",
                                        format!("point-in-time restore to t={}s (relative): the started collection equals none of the eligible backups {:?} (timestamps {:?}); diff against #{}: {}", ts as i64 - (simlibc::EPOCH_NS / 1_000_000_000) as i64, acceptable, acceptable.iter().map(|i| backups[*i].meta.timestamp as i64 - (simlibc::EPOCH_NS / 1_000_000_000) as i64).collect::<Vec<_>>(), best, census_diff(&backups[best].expected, &c)),
                                        &[("eligible", if acceptable.len() == 1 { "one" } else { "several" })],
                                    ));
                                } else {
                                    *ex.probes.entry("pitr_restores_judged".into()).or_insert(0) += 1;
                                }
                            }
                            Err((stage, m)) => {
                                ex.problems.push(prob(if stage == "start" { "restored_directory_does_not_start" } else { "restore_of_verified_backup_failed" }, format!("point-in-time restore to t={}s: {} failed: {}", ts as i64 - (simlibc::EPOCH_NS / 1_000_000_000) as i64, stage, m), &[("backup", "point_in_time")]));
                            }
                        }
                    }
                }
                remove_dir(&target);
                if !ex.problems.is_empty() {
                    break;
                }
            }
        }
        // ---- (3) guard + (4) damage
        if ex.problems.is_empty() {
            let mut drng = Rng::new(p.damage_seed);
            let victim = drng.below(backups.len() as u64) as usize;
            let chain = chain_of(&backups, victim);
            let target = format!("{}/dmg", base);
            mkdir(&target);
            let vid = backups[victim].meta.id;
            // populate with a good restore
            let good = restore_and_census(&p.cfg, &bk, &target, p.universe, &|rm| rm.restore_from_backup(vid));
            if good.is_ok() {
                // guard: non-empty target, no confirmation
                let before = dir_files(&target);
                ex.evals += 1;
                let rm = RestoreManager::new(&bk, &target).unwrap();
                let res = catch_unwind(AssertUnwindSafe(|| rm.restore_from_backup_with_options(vid, &ClearDirectoryOptions::new())));
                let after = dir_files(&target);
                match res {
                    Ok(Err(_)) if before == after => {
                        *ex.probes.entry("guard_refused_non_empty_target".into()).or_insert(0) += 1;
                    }
                    Ok(Err(_)) => ex.problems.push(prob("target_touched_by_refused_restore", "restore into a non-empty target without confirmation was refused but files changed".into(), &[("case", "guard")])),
                    _ => ex.problems.push(prob("non_empty_target_cleared_without_confirmation", format!("restore into a non-empty target ({} files) without allow_clear succeeded", before.len()), &[])),
                }
                // dry run never changes anything
                let res = catch_unwind(AssertUnwindSafe(|| rm.restore_from_backup_with_options(vid, &ClearDirectoryOptions::new().with_allow_clear(true).with_dry_run(true))));
                if dir_files(&target) != before {
                    ex.problems.push(prob("target_touched_by_refused_restore", format!("dry-run restore changed the target directory (result {:?})", res.map(|r| r.is_ok()).unwrap_or(false)), &[("case", "dry_run")]));
                }
                // damage
                let mut files: Vec<String> = Vec::new();
                for j in &chain {
                    files.push(format!("backup_{}.tar", backups[*j].meta.id));
                    files.push(format!("backup_{}.json", backups[*j].meta.id));
                }
                for _ in 0..p.damage_tries {
                    if !ex.problems.is_empty() {
                        break;
                    }
                    let f = files[drng.below(files.len() as u64) as usize].clone();
                    let path = format!("{}/{}", bk, f);
                    let orig = {
                        let _b = simlibc::Bypass::new();
                        std::fs::read(&path).unwrap_or_default()
                    };
                    if orig.is_empty() {
                        continue;
                    }
                    let is_tar = f.ends_with(".tar");
                    let (damaged, what, region): (Vec<u8>, &str, String) = if drng.chance(1, 6) {
                        let cut = match drng.below(4) {
                            0 => 0,
                            1 => orig.len() - 1,
                            2 => orig.len() / 2,
                            _ => drng.below(orig.len() as u64) as usize,
                        };
                        (orig[..cut].to_vec(), "truncation", "-".into())
                    } else {
                        let off = if is_tar && drng.chance(1, 2) {
                            // structural: file count, first member header, names
                            drng.below(orig.len().min(48) as u64) as usize
                        } else {
                            drng.below(orig.len() as u64) as usize
                        };
                        let mut d = orig.clone();
                        d[off] ^= 1 << drng.below(8);
                        let region = if is_tar { tar_region(&orig, off) } else { "metadata_json".to_string() };
                        (d, "byte_flip", region)
                    };
                    {
                        let _b = simlibc::Bypass::new();
                        let _ = std::fs::write(&path, &damaged);
                    }
                    *ex.faults.entry(format!("{}_{}", what, if is_tar { "archive" } else { "metadata" })).or_insert(0) += 1;
                    ex.evals += 1;
                    let before = dir_files(&target);
                    // a third of the damaged chains are restored through the point-in-time entry point (target = the
                    // victim's timestamp); it may legitimately pick another eligible backup, so an accepted restore is
                    // then compared with every backup's collection
                    let via_pitr = drng.chance(1, 3);
                    let vts = backups[victim].meta.timestamp;
                    let res = if via_pitr {
                        *ex.probes.entry("damaged_chain_restored_by_point_in_time".into()).or_insert(0) += 1;
                        restore_forked_and_census(&p.cfg, &bk, &target, p.universe, &|rm| rm.restore_point_in_time_with_options(vts, &ClearDirectoryOptions::new().with_allow_clear(true)))
                    } else {
                        restore_forked_and_census(&p.cfg, &bk, &target, p.universe, &|rm| rm.restore_from_backup_with_options(vid, &ClearDirectoryOptions::new().with_allow_clear(true)))
                    };
                    let after = dir_files(&target);
                    let file_kind = if is_tar { "archive" } else { "metadata" };
                    match res {
                        Err((stage, m)) if stage == "restore" => {
                            *ex.probes.entry("damaged_backup_rejected".into()).or_insert(0) += 1;
                            if before != after {
                                ex.problems.push(prob("target_touched_by_refused_restore", format!("{} of {} ({}): restore was refused ({}) after the target directory had been changed", what, f_role(&f), region, m), &[("case", "damaged_backup"), ("file", file_kind), ("region", &region)]));
                            }
                        }
                        Err((stage, m)) if stage == "restore_aborted" => {
                            ex.problems.push(prob("damaged_backup_accepted", format!("{} of {} ({}): {}", what, f_role(&f), region, m), &[("file", file_kind), ("region", &region), ("outcome", "restoring_process_killed")]));
                        }
                        Err((_, m)) => {
                            ex.problems.push(prob("damaged_backup_accepted", format!("{} of {} ({}): restore reported success but the engine does not start from the restored directory: {}", what, f_role(&f), region, m), &[("file", file_kind), ("region", &region), ("outcome", "does_not_start")]));
                        }
                        Ok(c) if via_pitr => {
                            if backups.iter().any(|b| b.expected == c || b.expected_alt.as_ref() == Some(&c)) {
                                *ex.probes.entry("damage_harmless_restore_equal".into()).or_insert(0) += 1;
                            } else {
                                ex.problems.push(prob("damaged_backup_accepted", format!("{} of {} ({}): point-in-time restore succeeded and the started collection equals no backup's: {}", what, f_role(&f), region, census_diff(&backups[victim].expected, &c)), &[("file", file_kind), ("region", &region), ("outcome", "different_collection")]));
                            }
                        }
                        Ok(c) => {
                            if c != backups[victim].expected && Some(&c) != backups[victim].expected_alt.as_ref() {
                                ex.problems.push(prob("damaged_backup_accepted", format!("{} of {} ({}): restore succeeded and the started collection differs from the backup's: {}", what, f_role(&f), region, census_diff(&backups[victim].expected, &c)), &[("file", file_kind), ("region", &region), ("outcome", "different_collection")]));
                            } else {
                                *ex.probes.entry("damage_harmless_restore_equal".into()).or_insert(0) += 1;
                            }
                        }
                    }
                    {
                        let _b = simlibc::Bypass::new();
                        let _ = std::fs::write(&path, &orig);
                    }
                    // re-populate after a refused restore is unnecessary; after an accepted one the target holds the restore
                }
            }
            remove_dir(&target);
        }
        simlibc::stamp_mtime_enable(false);
        remove_dir(&base);
        ex.sim_ns = simlibc::clock_now_ns() - simlibc::EPOCH_NS;
        ex
    });
    match r {
        Ok(e) => e,
        Err(p) => Exec { problems: vec![prob("harness_thread_panicked", p, &[])], evals: 0, probes: BTreeMap::new(), faults: BTreeMap::new(), digest: 0, sim_ns: 0 },
    }
}

fn f_role(f: &str) -> &'static str {
    if f.ends_with(".tar") {
        "a backup archive of the chain"
    } else {
        "a backup metadata file of the chain"
    }
}

/// Which part of the archive layout an offset falls into: [u32 count] then per member [u32 name_len][name][u64 data_len][data]
fn tar_region(bytes: &[u8], off: usize) -> String {
    if off < 4 {
        return "file_count".into();
    }
    let mut p = 4usize;
    while p + 4 <= bytes.len() {
        let nl = u32::from_le_bytes([bytes[p], bytes[p + 1], bytes[p + 2], bytes[p + 3]]) as usize;
        if off < p + 4 {
            return "member_name_length".into();
        }
        p += 4;
        if off < p + nl {
            return "member_name".into();
        }
        p += nl;
        if p + 8 > bytes.len() {
            break;
        }
        let dl = u64::from_le_bytes(bytes[p..p + 8].try_into().unwrap()) as usize;
        if off < p + 8 {
            return "member_data_length".into();
        }
        p += 8;
        if off < p + dl {
            return "member_data".into();
        }
        p += dl;
    }
    "trailing".into()
}

fn run_retention(rp: &RetPlan, base: &str, ex: &mut Exec) {
    let bk = format!("{}/backups", base);
    let data = format!("{}/data", base);
    mkdir(&bk);
    mkdir(&data);
    let now_s = simlibc::clock_now_ns() / 1_000_000_000 + 500 * 86_400;
    simlibc::clock_advance_ns(500 * 86_400 * 1_000_000_000);
    let mut metas: Vec<BackupMetadata> = Vec::new();
    for s in &rp.backups {
        let mut m = match s.parent {
            None => BackupMetadata::new_full(10, 1, 0, "synthetic".into()),
            Some(pi) => BackupMetadata::new_incremental(metas[pi].id, 10, 0, 0, "synthetic".into()),
        };
        m.timestamp = now_s.saturating_sub(s.age);
        metas.push(m);
    }
    {
        let _b = simlibc::Bypass::new();
        for m in &metas {
            let _ = std::fs::write(format!("{}/backup_{}.json", bk, m.id), serde_json::to_string_pretty(m).unwrap());
            let _ = std::fs::write(format!("{}/backup_{}.tar", bk, m.id), 0u32.to_le_bytes());
        }
    }
    let policy = RetentionPolicy { hourly_hours: rp.policy.0, daily_days: rp.policy.1, weekly_weeks: rp.policy.2, monthly_months: rp.policy.3, min_age_days: rp.policy.4 };
    let bm = match BackupManager::new(&bk, &data) {
        Ok(b) => b,
        Err(_) => return,
    };
    ex.evals += 1;
    let deleted = match catch_unwind(AssertUnwindSafe(|| bm.prune_backups(&policy))) {
        Ok(Ok(d)) => d,
        Ok(Err(e)) => {
            ex.problems.push(prob("prune_failed", format!("prune_backups failed: {:#}", e), &[]));
            return;
        }
        Err(_) => {
            ex.problems.push(prob("prune_failed", "prune_backups panicked".into(), &[]));
            return;
        }
    };
    let present: Vec<bool> = {
        let _b = simlibc::Bypass::new();
        metas.iter().map(|m| std::path::Path::new(&format!("{}/backup_{}.json", bk, m.id)).exists() && std::path::Path::new(&format!("{}/backup_{}.tar", bk, m.id)).exists()).collect()
    };
    *ex.probes.entry("retention_rows".into()).or_insert(0) += 1;
    if !deleted.is_empty() {
        *ex.probes.entry("retention_pruned_something".into()).or_insert(0) += 1;
    }
    ex.digest = crate::rng::mix(deleted.len() as u64, present.iter().fold(0u64, |a, b| a * 2 + *b as u64));
    for (i, s) in rp.backups.iter().enumerate() {
        if !present[i] {
            // min age
            if s.age < rp.policy.4 * 86_400 {
                ex.problems.push(prob("pruned_backup_younger_than_minimum_age", format!("backup #{} (age {} s) was pruned with min_age_days={}", i, s.age, rp.policy.4), &[]));
                return;
            }
            continue;
        }
        let mut cur = s.parent;
        while let Some(pi) = cur {
            if !present[pi] {
                ex.problems.push(prob(
                    "pruning_removed_parent_of_retained_backup",
                    format!("after prune_backups(policy {:?}) incremental backup #{} (age {} s) is retained but #{} of its parent chain (age {} s, {}) was removed; timeline ages {:?}, parents {:?}", rp.policy, i, s.age, pi, rp.backups[pi].age, if rp.backups[pi].parent.is_none() { "full" } else { "incremental" }, rp.backups.iter().map(|b| b.age).collect::<Vec<_>>(), rp.backups.iter().map(|b| b.parent).collect::<Vec<_>>()),
                    &[("removed", if rp.backups[pi].parent.is_none() { "full_backup" } else { "incremental_link" })],
                ));
                return;
            }
            cur = rp.backups[pi].parent;
        }
    }
}

fn class_key(p: &Problem) -> String {
    let mut key = format!("C12|{}", p.clause);
    for (k, v) in &p.facts {
        key.push_str(&format!("|{}={}", k, v));
    }
    key
}

fn same(e: &Exec, target: &Problem) -> Option<String> {
    e.problems.iter().find(|q| q.clause == target.clause && q.facts == target.facts).map(|q| q.msg.clone())
}

fn minimise(plan: &Plan, target: &Problem, max_tries: usize) -> (Plan, String) {
    let mut best = plan.clone();
    let mut msg = target.msg.clone();
    let mut tries = 0;
    if let Some(rp) = &plan.retention {
        // drop synthetic backups that nobody references
        let mut cur = rp.clone();
        let mut i = 0;
        while i < cur.backups.len() && tries < max_tries {
            let referenced = cur.backups.iter().any(|b| b.parent == Some(i));
            if referenced {
                i += 1;
                continue;
            }
            let mut cand = cur.clone();
            cand.backups.remove(i);
            for b in cand.backups.iter_mut() {
                if let Some(pi) = b.parent {
                    if pi > i {
                        b.parent = Some(pi - 1);
                    }
                }
            }
            let mut pl = best.clone();
            pl.retention = Some(cand.clone());
            tries += 1;
            if let Some(m) = same(&execute(&pl), target) {
                cur = cand;
                best = pl;
                msg = m;
            } else {
                i += 1;
            }
        }
        return (best, msg);
    }
    let mut i = 0;
    while i < best.steps.len() && tries < max_tries {
        let mut cand = best.clone();
        cand.steps.remove(i);
        tries += 1;
        if let Some(m) = same(&execute(&cand), target) {
            best = cand;
            msg = m;
        } else {
            i += 1;
        }
    }
    (best, msg)
}

pub fn run_batch(seed: u64, start: u64, count: u64, tier: &str, budget_ms: u64, sum: &mut Summary) {
    let t0 = simlibc::real_now_ns();
    for run in start..start + count {
        if budget_ms > 0 && (simlibc::real_now_ns() - t0) / 1_000_000 > budget_ms {
            break;
        }
        let plan = gen_plan(seed, run, tier);
        let ex = execute(&plan);
        sum.runs += 1;
        sum.evaluations += ex.evals;
        sum.sim_time_ns += ex.sim_ns;
        for (k, n) in &ex.probes {
            sum.probe(k, *n);
        }
        for (k, n) in &ex.faults {
            sum.fault(k, *n);
        }
        if ex.evals > 0 {
            sum.distinct_hash(crate::rng::mix(ex.digest, plan.retention.is_some() as u64));
        }
        if sum.runs <= 2 {
            sum.sample(json!({"run": run, "cfg": plan.cfg, "steps": plan.steps.iter().take(6).collect::<Vec<_>>(), "n_steps": plan.steps.len(), "retention": plan.retention}));
        }
        for pb in &ex.problems {
            let key = class_key(pb);
            if !sum.class_first(&key) || sum.violations.len() >= 10 {
                continue;
            }
            let within = budget_ms == 0 || (simlibc::real_now_ns() - t0) / 1_000_000 < budget_ms;
            let (best, msg) = if within && sum.violations.len() < 5 { minimise(&plan, pb, 50) } else { (plan.clone(), pb.msg.clone()) };
            sum.violations.push(Violation {
                property: "C12".into(),
                clause: pb.clause.clone(),
                facts: pb.facts.clone(),
                message: msg.chars().take(3000).collect(),
                seed,
                run,
                replay: serde_json::to_value(Replay { check: "C12".into(), plan: best, clause: pb.clause.clone() }).unwrap(),
                minimised: within,
                original: Some(json!({"steps": plan.steps.len(), "message": pb.msg.chars().take(1000).collect::<String>()})),
            });
        }
    }
}

pub fn replay(v: &serde_json::Value, sum: &mut Summary) -> Result<(), String> {
    let r: Replay = serde_json::from_value(v.clone()).map_err(|e| e.to_string())?;
    let ex = execute(&r.plan);
    sum.runs = 1;
    sum.evaluations = ex.evals;
    for pb in &ex.problems {
        sum.violations.push(Violation { property: "C12".into(), clause: pb.clause.clone(), facts: pb.facts.clone(), message: pb.msg.chars().take(3000).collect(), seed: 0, run: 0, replay: v.clone(), minimised: true, original: None });
    }
    Ok(())
}
