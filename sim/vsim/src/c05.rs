//! C05: per-document operations are linearizable under concurrency.
//! 2-3 client threads x 2-4 operations on 1-2 shared ids against one TieredEngine under seeded schedules at lock
//! granularity; invoke/return stamped with the scheduler's global step; per id a WGL-style search for a
//! linearisation against a sequential register (absent | write#n).

use crate::c08::SchedSpec;
use crate::common::*;
use crate::hist::{on_fresh_thread, reset_env};
use crate::report::{Summary, Violation};
use crate::rng::Rng;
use crate::simlibc;
use crate::tiered::*;
use plsim::sim::{self, RunConfig};
use serde::{Deserialize, Serialize};
use serde_json::json;
use std::collections::{BTreeMap, HashSet};
use std::sync::{Arc, Mutex};

#[derive(Clone, Debug, PartialEq, Serialize, Deserialize)]
pub struct Plan {
    /// the clients call the cold tier (HnswBackend, public API of the library) directly: no tier write gate serialises
    /// the writers, so tombstone compaction inside one insert really runs next to another client's delete
    #[serde(default)]
    pub cold_direct: bool,
    pub cfg: TCfg,
    pub universe: u64,
    pub pre: Vec<ApiOp>,
    pub threads: Vec<Vec<ApiOp>>,
    pub final_flush: bool,
    pub sched: SchedSpec,
    pub env_seed: u64,
}

#[derive(Clone, Debug, Serialize, Deserialize)]
pub struct Replay {
    pub check: String,
    pub plan: Plan,
    pub clause: String,
}

/// Vector of write number `n`: direction unique per n (so that normalised forms stay distinguishable).
pub fn write_vec(dim: usize, n: u64, scale: f32) -> Vec<f32> {
    let th = 0.05 + (n as f32) * 0.037;
    let mut v = vec![0.0f32; dim.max(2)];
    v[0] = th.cos() * scale;
    v[1] = th.sin() * scale;
    if dim > 2 {
        v[2] = 0.25 * scale;
    }
    v.truncate(dim.max(2));
    v
}

/// Vector of write number `n` that differs from every other such vector in the LAST lane only (the other lanes are
/// constant): versions of one document that a digest, a kernel tail or a comparison skipping the final lane confuses.
pub fn write_vec_last_lane(dim: usize, n: u64) -> Vec<f32> {
    let d = dim.max(2);
    let mut v = vec![0.0f32; d];
    v[0] = 0.6;
    v[d - 1] += 0.8 + (n as f32) * 0.005;
    v
}

pub fn gen_plan(seed: u64, run: u64, _tier: &str) -> Plan {
    let prog = run / 16;
    let mut rng = Rng::for_run(seed, "C05p", prog);
    let mut cfg = TCfg::gen(&mut rng);
    cfg.dim = *rng.pick(&[2usize, 3, 4, 5, 9]);
    cfg.cache_cap = *rng.pick(&[1usize, 2, 2, 8]);
    cfg.hot_hard = *rng.pick(&[1usize, 2, 2, 200]);
    cfg.hot_soft = *rng.pick(&[1usize, 2, 100]);
    // a third of the programs run on a tiny index that the sequential prefix fills up (superseded versions included),
    // so that the clients' overwrites go through tombstone compaction and the retry inside insert
    cfg.capacity = *rng.pick(&[1000usize, 1000, 2, 3, 4]);
    cfg.snap_interval = *rng.pick(&[0usize, 3, 1000]);
    let universe = rng.range(1, 2);
    let last_lane_only = rng.chance(1, 4);
    let mut n = 0u64;
    let mut mk_write = |rng: &mut Rng, id: u64| {
        n += 1;
        let scale = *rng.pick(&[1.0f32, 1.0, 3.0, 0.2]);
        let mut meta = Meta::new();
        meta.insert("w".to_string(), n.to_string());
        // in a quarter of the programs every write differs from the others in the last lane only
        let v = if last_lane_only { write_vec_last_lane(cfg.dim, n) } else { write_vec(cfg.dim, n, scale) };
        ApiOp::Insert { id, vec: bits(&v), meta }
    };
    let mut gen_client_op = |rng: &mut Rng, forced_write: Option<u64>| -> ApiOp {
        if let Some(id) = forced_write {
            return mk_write(rng, id);
        }
        let id = rng.below(universe);
        match rng.below(100) {
            0..=29 => mk_write(rng, id),
            30..=47 => ApiOp::Delete { id },
            48..=62 => ApiOp::Query { id },
            63..=74 => ApiOp::GetDocMeta { id },
            75..=84 => ApiOp::BulkQuery { ids: if universe > 1 { vec![id, (id + 1) % universe] } else { vec![id] }, emb: true },
            85..=92 => ApiOp::GetEmb { id },
            _ => ApiOp::Exists { id },
        }
    };
    let n_pre = rng.range(0, 3);
    let mut pre: Vec<ApiOp> = (0..n_pre).map(|_| gen_client_op(&mut rng, None)).collect();
    if cfg.capacity < 1000 {
        let fill = cfg.capacity as u64 - rng.below(2);
        for i in 0..fill {
            pre.push(gen_client_op(&mut rng, Some(i % universe)));
        }
    }
    let n_threads = if rng.chance(2, 3) { 2 } else { 3 };
    let mut threads: Vec<Vec<ApiOp>> = (0..n_threads).map(|_| (0..rng.range(2, 4)).map(|_| gen_client_op(&mut rng, None)).collect()).collect();
    let final_flush = rng.chance(1, 2);
    // background work next to the clients in a third of the programs: a thread that drains the recent-write tier
    // (no register operation of its own; whatever it does must stay invisible to the clients' reads)
    if prog % 3 == 1 {
        threads.push((0..1 + prog % 2).map(|_| ApiOp::Flush { force: true }).collect());
    }
    let env_seed = rng.next();
    let mut srng = Rng::for_run(seed, "C05s", run);
    let sched = SchedSpec::gen(&mut srng, 150);
    // half of the tiny-index programs go to the cold tier directly, without persistence (where the snapshot lock that
    // otherwise keeps compaction and writers apart does not exist)
    let cold_direct = cfg.capacity < 1000 && rng.chance(1, 2);
    let mut cfg = cfg;
    let mut pre = pre;
    let mut threads = threads;
    if cold_direct {
        cfg.persist = false;
        let fix = |op: &mut ApiOp| {
            if let ApiOp::GetDocMeta { id } = op {
                *op = ApiOp::BulkQuery { ids: vec![*id], emb: true };
            }
        };
        pre.iter_mut().for_each(fix);
        threads.iter_mut().for_each(|t| t.iter_mut().for_each(fix));
    }
    Plan { cold_direct, cfg, universe, pre, threads, final_flush, sched, env_seed }
}

fn run_op(b: &Built, op: &ApiOp, cold_direct: bool) -> ApiRes {
    if cold_direct {
        exec_cold(b, op)
    } else {
        exec(b, op)
    }
}

#[derive(Clone, Debug, Serialize, Deserialize, PartialEq)]
pub enum Obs {
    /// read: Some(write number) or None = not found; `vec_n`/`meta_n` are the writes the two components match
    Read { vec_n: Option<u64>, meta_n: Option<u64>, found: bool },
    Exists(bool),
    Wrote { n: u64, ok: bool },
    Deleted { existed: Option<bool>, ok: bool },
}

#[derive(Clone, Debug, Serialize, Deserialize)]
pub struct Event {
    pub thread: usize,
    pub op: String,
    pub id: u64,
    pub inv: u64,
    pub ret: u64,
    pub obs: Obs,
}

struct Writes {
    /// write number -> (id, input bits)
    by_n: BTreeMap<u64, (u64, Vec<u32>)>,
    metric: u8,
}

impl Writes {
    fn collect(plan: &Plan) -> Writes {
        let mut by_n = BTreeMap::new();
        for op in plan.pre.iter().chain(plan.threads.iter().flatten()) {
            if let ApiOp::Insert { id, vec, meta } = op {
                if let Some(n) = meta.get("w").and_then(|s| s.parse::<u64>().ok()) {
                    by_n.insert(n, (*id, vec.clone()));
                }
            }
        }
        Writes { by_n, metric: plan.cfg.metric }
    }
    fn match_vec(&self, id: u64, v: &[u32]) -> Option<u64> {
        let f = unbits(v);
        for (n, (wid, input)) in &self.by_n {
            if *wid == id && pin_vector(self.metric, input, &f).is_ok() {
                return Some(*n);
            }
        }
        None
    }
}

fn events_of(op: &ApiOp, res: &ApiRes, thread: usize, inv: u64, ret: u64, w: &Writes, problems: &mut Vec<(String, String)>) -> Vec<Event> {
    let mut out = Vec::new();
    let mut read = |id: u64, vec: Option<&Vec<u32>>, meta: Option<&Meta>, found: bool, name: &str, out: &mut Vec<Event>| {
        let vec_n = vec.filter(|v| !v.is_empty()).and_then(|v| w.match_vec(id, v));
        if let Some(v) = vec.filter(|v| !v.is_empty()) {
            if vec_n.is_none() {
                problems.push(("vector_never_written".to_string(), format!("{} of id {} returned vector {:?} which matches no write to that id", name, id, unbits(v))));
            }
        }
        let meta_n = meta.and_then(|m| m.get("w")).and_then(|s| s.parse::<u64>().ok());
        if let (Some(a), Some(b)) = (vec_n, meta_n) {
            if a != b {
                problems.push(("vector_and_metadata_from_different_writes".to_string(), format!("{} of id {} returned the vector of write #{} with the metadata of write #{}", name, id, a, b)));
            }
        }
        out.push(Event { thread, op: name.to_string(), id, inv, ret, obs: Obs::Read { vec_n, meta_n, found } });
    };
    match (op, res) {
        (ApiOp::Insert { id, meta, .. }, ApiRes::Unit(r)) => {
            let n = meta.get("w").and_then(|s| s.parse().ok()).unwrap_or(0);
            out.push(Event { thread, op: "insert".into(), id: *id, inv, ret, obs: Obs::Wrote { n, ok: r.is_ok() } });
        }
        (ApiOp::Delete { id }, ApiRes::Bool(r)) => out.push(Event { thread, op: "delete".into(), id: *id, inv, ret, obs: Obs::Deleted { existed: None, ok: r.is_ok() } }),
        (ApiOp::Query { id }, ApiRes::Vector(v)) => read(*id, v.as_ref(), None, v.is_some(), "query", &mut out),
        (ApiOp::GetEmb { id }, ApiRes::Vector(v)) => read(*id, v.as_ref(), None, v.is_some(), "get_embedding_cache_aware", &mut out),
        (ApiOp::GetDocMeta { id }, ApiRes::Doc(d)) => read(*id, d.as_ref().map(|x| &x.0), d.as_ref().map(|x| &x.1), d.is_some(), "get_document_with_metadata", &mut out),
        (ApiOp::GetMeta { id }, ApiRes::MetaOnly(m)) => read(*id, None, m.as_ref(), m.is_some(), "get_metadata", &mut out),
        (ApiOp::BulkQuery { ids, .. }, ApiRes::Docs(ds)) => {
            for (id, d) in ids.iter().zip(ds.iter()) {
                read(*id, d.as_ref().map(|x| &x.0), d.as_ref().map(|x| &x.1), d.is_some(), "bulk_query", &mut out);
            }
        }
        (ApiOp::Exists { id }, ApiRes::Exists(b)) => out.push(Event { thread, op: "exists".into(), id: *id, inv, ret, obs: Obs::Exists(*b) }),
        _ => {}
    }
    out
}

/// Name the anomaly patterns present in one id's history (used only for the fingerprint of a history that the
/// linearisability search already rejected).
fn anomalies(evs: &[Event], init: Option<u64>) -> Vec<&'static str> {
    let mut out: Vec<&'static str> = Vec::new();
    // completed successful writes: n -> (inv, ret); the initial value counts as written at time 0
    let mut writes: BTreeMap<u64, (u64, u64)> = BTreeMap::new();
    if let Some(n) = init {
        writes.insert(n, (0, 0));
    }
    for e in evs {
        if let Obs::Wrote { n, ok: true } = e.obs {
            writes.insert(n, (e.inv, e.ret));
        }
    }
    let deletes: Vec<(u64, u64)> = evs.iter().filter(|e| matches!(e.obs, Obs::Deleted { ok: true, .. })).map(|e| (e.inv, e.ret)).collect();
    let absent_seen: Vec<(u64, u64)> = evs
        .iter()
        .filter(|e| matches!(e.obs, Obs::Read { found: false, .. } | Obs::Exists(false)))
        .map(|e| (e.inv, e.ret))
        .chain(deletes.iter().copied())
        .collect();
    for e in evs {
        match &e.obs {
            Obs::Read { vec_n, meta_n, found: true } => {
                if let (Some(a), Some(b)) = (vec_n, meta_n) {
                    if a != b {
                        if !out.contains(&"torn") {
                            out.push("torn");
                        }
                        continue;
                    }
                }
                let Some(n) = vec_n.or(*meta_n) else { continue };
                let Some(&(w_inv, w_ret)) = writes.get(&n) else { continue };
                let _ = w_inv;
                let stale = writes.iter().any(|(m, (mi, mr))| *m != n && *mi > w_ret && *mr < e.inv);
                if stale {
                    if !out.contains(&"stale_version") {
                        out.push("stale_version");
                    }
                    continue;
                }
                let reappears = absent_seen.iter().any(|(ai, ar)| *ai > w_ret && *ar < e.inv);
                if reappears && !out.contains(&"document_reappears") {
                    out.push("document_reappears");
                }
            }
            Obs::Read { found: false, .. } | Obs::Exists(false) => {
                // lost: some write completed before this read began and every delete finished before that write began
                let lost = writes.iter().any(|(_, (wi, wr))| *wr < e.inv && deletes.iter().all(|(_, dr)| *dr < *wi));
                if lost && !out.contains(&"written_document_not_found") {
                    out.push("written_document_not_found");
                }
            }
            _ => {}
        }
    }
    if out.is_empty() {
        out.push("other");
    }
    out.sort_unstable();
    out
}

/// WGL-style search: is there a linearisation of `evs` (one id) from `init` respecting real-time order?
fn linearizable(evs: &[Event], init: Option<u64>) -> bool {
    let n = evs.len();
    if n > 20 {
        return true; // capped (never reached by the generator)
    }
    let mut seen: HashSet<(u32, Option<u64>)> = HashSet::new();
    fn apply(e: &Event, st: Option<u64>) -> Vec<Option<u64>> {
        // returns the possible next states if `e` can take effect in state `st` (empty = not allowed here)
        match &e.obs {
            Obs::Wrote { n, ok } => {
                if *ok {
                    vec![Some(*n)]
                } else {
                    vec![Some(*n), st] // a failed write may or may not have taken effect
                }
            }
            Obs::Deleted { existed, ok } => {
                if !*ok {
                    return vec![None, st];
                }
                match existed {
                    Some(true) => {
                        if st.is_some() {
                            vec![None]
                        } else {
                            vec![]
                        }
                    }
                    Some(false) => {
                        if st.is_none() {
                            vec![None]
                        } else {
                            vec![]
                        }
                    }
                    None => vec![None],
                }
            }
            Obs::Read { vec_n, meta_n, found } => {
                if !*found {
                    return if st.is_none() { vec![st] } else { vec![] };
                }
                let Some(cur) = st else { return vec![] };
                if vec_n.map(|x| x == cur).unwrap_or(true) && meta_n.map(|x| x == cur).unwrap_or(true) {
                    vec![st]
                } else {
                    vec![]
                }
            }
            Obs::Exists(b) => {
                if *b == st.is_some() {
                    vec![st]
                } else {
                    vec![]
                }
            }
        }
    }
    fn go(evs: &[Event], done: u32, st: Option<u64>, seen: &mut HashSet<(u32, Option<u64>)>) -> bool {
        let n = evs.len();
        if done == (1u32 << n) - 1 {
            return true;
        }
        if !seen.insert((done, st)) {
            return false;
        }
        // minimal return stamp among pending ops: an op can be linearised next only if it was invoked before that
        let mut min_ret = u64::MAX;
        for (i, e) in evs.iter().enumerate() {
            if done & (1 << i) == 0 && e.ret < min_ret {
                min_ret = e.ret;
            }
        }
        for (i, e) in evs.iter().enumerate() {
            if done & (1 << i) != 0 || e.inv > min_ret {
                continue;
            }
            for next in apply(e, st) {
                if go(evs, done | (1 << i), next, seen) {
                    return true;
                }
            }
        }
        false
    }
    go(evs, 0, init, &mut seen)
}

pub struct Exec {
    pub problems: Vec<(String, String)>,
    pub deadlocked: bool,
    pub trace_hash: u64,
    pub decisions: u64,
    pub events: usize,
    pub history: Vec<Event>,
    pub choices: Vec<(u64, u32)>,
    pub concurrent_overlap: bool,
    pub note: Option<String>,
}

pub fn execute(plan: &Plan) -> Exec {
    reset_env(plan.env_seed);
    let p = plan.clone();
    let r = on_fresh_thread(move || {
        let mut ex = Exec { problems: vec![], deadlocked: false, trace_hash: 0, decisions: 0, events: 0, history: vec![], choices: vec![], concurrent_overlap: false, note: None };
        let dir = if p.cfg.persist { Some(fresh_dir("c05", 0)) } else { None };
        let root = dir.as_ref().map(|d| simlibc::register_root(d, None, false));
        let built = match build(&p.cfg, dir.as_deref()) {
            Ok(b) => Arc::new(b),
            Err(e) => {
                ex.note = Some(format!("build failed: {:#}", e));
                if let Some(r) = root {
                    simlibc::unregister_root(r);
                }
                return ex;
            }
        };
        let w = Arc::new(Writes::collect(&p));
        // warm-up, sequential: establishes the initial register state
        let mut init: BTreeMap<u64, Option<u64>> = BTreeMap::new();
        for op in &p.pre {
            let res = run_op(&built, op, p.cold_direct);
            match (op, &res) {
                (ApiOp::Insert { id, meta, .. }, ApiRes::Unit(Ok(()))) => {
                    init.insert(*id, meta.get("w").and_then(|s| s.parse().ok()));
                }
                (ApiOp::Delete { id }, ApiRes::Bool(Ok(_))) => {
                    init.insert(*id, None);
                }
                _ => {}
            }
        }
        let hist: Arc<Mutex<Vec<Event>>> = Arc::new(Mutex::new(Vec::new()));
        let probs: Arc<Mutex<Vec<(String, String)>>> = Arc::new(Mutex::new(Vec::new()));
        let mut bodies: Vec<Box<dyn FnOnce() + Send + 'static>> = Vec::new();
        for (t, ops) in p.threads.iter().enumerate() {
            let b = Arc::clone(&built);
            let ops = ops.clone();
            let hist = Arc::clone(&hist);
            let probs = Arc::clone(&probs);
            let w = Arc::clone(&w);
            let cold_direct = p.cold_direct;
            bodies.push(Box::new(move || {
                for op in ops.iter() {
                    let inv = sim::stamp();
                    let res = run_op(&b, op, cold_direct);
                    let ret = sim::stamp();
                    let mut pr = Vec::new();
                    let evs = events_of(op, &res, t, inv, ret, &w, &mut pr);
                    hist.lock().unwrap().extend(evs);
                    probs.lock().unwrap().extend(pr);
                }
            }));
        }
        simlibc::io_yield_enable(p.cfg.persist);
        let result = sim::run(RunConfig { seed: p.sched.seed, strategy: p.sched.strategy(), max_decisions: 30_000, yield_on_release: p.sched.yield_on_release, record_sites: false }, bodies);
        simlibc::io_yield_enable(false);
        ex.trace_hash = result.trace_hash;
        ex.decisions = result.decisions;
        ex.choices = result.choices.clone();
        if result.deadlock.is_some() || result.step_cap_hit {
            ex.deadlocked = true;
            std::mem::forget(built);
            if let Some(r) = root {
                simlibc::unregister_root(r);
            }
            return ex;
        }
        for (tid, msg) in &result.panics {
            ex.problems.push(("operation_panicked".into(), format!("thread {} panicked: {}", tid, msg)));
        }
        let mut history = hist.lock().unwrap().clone();
        ex.problems.extend(probs.lock().unwrap().clone());
        // quiescent tail: optional forced drain, then reads of every id through every flavour
        let mut stamp = history.iter().map(|e| e.ret).max().unwrap_or(0) + 10;
        if p.final_flush {
            let _ = exec(&built, &ApiOp::Flush { force: true });
        }
        for id in 0..p.universe {
            for op in [ApiOp::GetDocMeta { id }, ApiOp::Query { id }, ApiOp::BulkQuery { ids: vec![id], emb: true }, ApiOp::Exists { id }, ApiOp::GetEmb { id }] {
                if p.cold_direct && matches!(op, ApiOp::GetDocMeta { .. }) {
                    continue;
                }
                let res = run_op(&built, &op, p.cold_direct);
                let mut pr = Vec::new();
                let evs = events_of(&op, &res, 99, stamp, stamp + 1, &w, &mut pr);
                stamp += 2;
                history.extend(evs);
                ex.problems.extend(pr);
            }
        }
        // overlap measure: did two operations of different threads overlap in time?
        for a in &history {
            for b in &history {
                if a.thread < b.thread && a.thread != 99 && b.thread != 99 && a.inv < b.ret && b.inv < a.ret {
                    ex.concurrent_overlap = true;
                }
            }
        }
        for id in 0..p.universe {
            let evs: Vec<Event> = history.iter().filter(|e| e.id == id).cloned().collect();
            if !linearizable(&evs, init.get(&id).copied().flatten()) {
                let mut sorted = evs.clone();
                sorted.sort_by_key(|e| e.inv);
                let text: Vec<String> = sorted.iter().map(|e| format!("T{} {} [{}..{}] {:?}", e.thread, e.op, e.inv, e.ret, e.obs)).collect();
                let tail_only = {
                    let conc: Vec<Event> = evs.iter().filter(|e| e.thread != 99).cloned().collect();
                    linearizable(&conc, init.get(&id).copied().flatten())
                };
                let clause = if tail_only { "quiescent_read_unexplained" } else { "not_linearizable" };
                // culprits: single events whose removal makes the history explainable
                let mut culprits: Vec<String> = Vec::new();
                for k in 0..evs.len() {
                    if !matches!(evs[k].obs, Obs::Read { .. } | Obs::Exists(_)) {
                        continue;
                    }
                    let mut rest = evs.clone();
                    rest.remove(k);
                    if linearizable(&rest, init.get(&id).copied().flatten()) {
                        let kind = match &evs[k].obs {
                            Obs::Read { vec_n, meta_n, found } => {
                                if !*found {
                                    "not_found"
                                } else if vec_n.is_some() && meta_n.is_some() && vec_n != meta_n {
                                    "torn"
                                } else {
                                    "found_version"
                                }
                            }
                            Obs::Exists(true) => "exists_true",
                            _ => "exists_false",
                        };
                        let who = if evs[k].thread == 99 { "quiescent:" } else { "" };
                        let c = format!("{}{}:{}", who, evs[k].op, kind);
                        if !culprits.contains(&c) {
                            culprits.push(c);
                        }
                    }
                }
                culprits.sort();
                let cul = if culprits.is_empty() { "several_events".to_string() } else { culprits.join("+") };
                let an = anomalies(&evs, init.get(&id).copied().flatten()).join("+");
                ex.problems.push((clause.to_string(), format!("id {} (initial {:?}): no linearisation explains [anomaly: {}] [culprit: {}] [final_flush: {}]: {}", id, init.get(&id).copied().flatten(), an, cul, p.final_flush, text.join(" ; "))));
            }
        }
        ex.events = history.len();
        ex.history = history;
        drop(built);
        if let Some(r) = root {
            simlibc::unregister_root(r);
        }
        if let Some(d) = dir {
            remove_dir(&d);
        }
        ex
    });
    match r {
        Ok(e) => e,
        Err(p) => Exec { problems: vec![("harness_thread_panicked".into(), p)], deadlocked: false, trace_hash: 0, decisions: 0, events: 0, history: vec![], choices: vec![], concurrent_overlap: false, note: None },
    }
}

fn facts_for(clause: &str, msg: &str, hist: &[Event]) -> BTreeMap<String, String> {
    let mut f = BTreeMap::new();
    // which read flavours are involved in the unexplained history of the failing id
    let mut ops: Vec<&str> = Vec::new();
    for e in hist {
        if matches!(e.obs, Obs::Read { .. } | Obs::Exists(_)) && msg.contains(&format!("{} [{}..{}]", e.op, e.inv, e.ret)) && !ops.contains(&e.op.as_str()) {
            ops.push(&e.op);
        }
    }
    if clause == "vector_and_metadata_from_different_writes" || clause == "vector_never_written" {
        let op = msg.split(" of id").next().unwrap_or("?");
        f.insert("read".into(), op.to_string());
    }
    let writers: Vec<&str> = {
        let mut w: Vec<&str> = hist.iter().filter(|e| matches!(e.obs, Obs::Wrote { .. } | Obs::Deleted { .. }) && e.thread != 99).map(|e| e.op.as_str()).collect();
        w.sort_unstable();
        w.dedup();
        w
    };
    f.insert("writers".into(), writers.join("+"));
    if let Some(c) = msg.split("[anomaly: ").nth(1).and_then(|x| x.split(']').next()) {
        f.insert("anomaly".into(), c.to_string());
    }
    f
}

pub fn run_batch(seed: u64, start: u64, count: u64, tier: &str, budget_ms: u64, sum: &mut Summary) {
    let t0 = simlibc::real_now_ns();
    for run in start..start + count {
        if budget_ms > 0 && (simlibc::real_now_ns() - t0) / 1_000_000 > budget_ms {
            break;
        }
        let plan = gen_plan(seed, run, tier);
        let ex = execute(&plan);
        sum.runs += 1;
        if let Some(n) = &ex.note {
            sum.notes.push(n.clone());
            continue;
        }
        if ex.deadlocked {
            sum.count("aborted_by_deadlock_or_cap", 1);
            continue;
        }
        sum.evaluations += 1;
        sum.count("history_events", ex.events as u64);
        sum.count("decisions", ex.decisions);
        if ex.concurrent_overlap {
            sum.distinct_hash(ex.trace_hash);
            sum.probe("histories_with_overlapping_operations", 1);
        }
        if sum.runs <= 2 {
            sum.sample(json!({"run": run, "threads": plan.threads, "pre": plan.pre, "history": ex.history.iter().take(12).collect::<Vec<_>>() }));
        }
        for (clause, msg) in &ex.problems {
            let facts = facts_for(clause, msg, &ex.history);
            let mut key = format!("C05|{}", clause);
            for (k, v) in &facts {
                key.push_str(&format!("|{}={}", k, v));
            }
            if !sum.class_first(&key) || sum.violations.len() >= 10 {
                continue;
            }
            // minimise: replay schedule kept, drop whole operations while the clause persists
            let mut best = plan.clone();
            best.sched = SchedSpec { kind: "replay".into(), a: 0, len: plan.sched.len, seed: plan.sched.seed, yield_on_release: plan.sched.yield_on_release, choices: ex.choices.clone() };
            let mut best_msg = msg.clone();
            let mut tries = 0;
            let mut srng = Rng::new(plan.env_seed ^ 0xC05);
            'outer: for t in 0..best.threads.len() {
                let mut i = 0;
                while i < best.threads[t].len() && tries < 40 {
                    let mut cand = best.clone();
                    cand.threads[t].remove(i);
                    let mut hit = false;
                    for _ in 0..25 {
                        tries += 1;
                        cand.sched = SchedSpec::gen(&mut srng, 100);
                        let e2 = execute(&cand);
                        if let Some((_, m2)) = e2.problems.iter().find(|(c, _)| c == clause) {
                            cand.sched = SchedSpec { kind: "replay".into(), a: 0, len: 100, seed: cand.sched.seed, yield_on_release: cand.sched.yield_on_release, choices: e2.choices.clone() };
                            best_msg = m2.clone();
                            best = cand.clone();
                            hit = true;
                            break;
                        }
                    }
                    if !hit {
                        i += 1;
                    }
                    if tries >= 400 {
                        break 'outer;
                    }
                }
            }
            sum.violations.push(Violation {
                property: "C05".into(),
                clause: clause.clone(),
                facts,
                message: best_msg,
                seed,
                run,
                replay: serde_json::to_value(Replay { check: "C05".into(), plan: best, clause: clause.clone() }).unwrap(),
                minimised: true,
                original: Some(json!({"plan": plan, "message": msg})),
            });
        }
    }
}

pub fn replay(v: &serde_json::Value, sum: &mut Summary) -> Result<(), String> {
    let r: Replay = serde_json::from_value(v.clone()).map_err(|e| e.to_string())?;
    let ex = execute(&r.plan);
    sum.runs = 1;
    sum.evaluations = 1;
    for (clause, msg) in &ex.problems {
        sum.violations.push(Violation { property: "C05".into(), clause: clause.clone(), facts: facts_for(clause, msg, &ex.history), message: msg.clone(), seed: 0, run: 0, replay: v.clone(), minimised: true, original: None });
    }
    Ok(())
}
