//! E3: RPC scripts for the in-process server (server::vharness). A script step is a serde value; it is encoded to the
//! real prost request message(s), sent through the real generated service (router, codec, interceptor, panic layer)
//! and the answer is decoded into a normalised `Resp` with latency / tier / path fields dropped.

use crate::c11::F;
use crate::common::{bits, to_btree, to_hash, unbits, Meta};
use crate::server::vharness::{Harness, RpcResult};
use kyrodb_engine::proto as pb;
use prost::Message;
use serde::{Deserialize, Serialize};

#[derive(Clone, Debug, PartialEq, Serialize, Deserialize)]
pub struct Item {
    pub id: u64,
    pub vec: Vec<u32>,
    pub meta: Meta,
    pub ns: String,
}

/// Filters beyond what the reference evaluator judges (C15 only): nesting bombs and unset oneofs.
#[derive(Clone, Debug, PartialEq, Serialize, Deserialize)]
pub enum Fx {
    F(F),
    /// `depth` nested NOT/AND/OR wrappers (kind 0/1/2) around a leaf
    Nest { depth: u32, kind: u8, leaf: F },
}

impl Fx {
    pub fn to_proto(&self) -> pb::MetadataFilter {
        match self {
            Fx::F(f) => f.to_proto(),
            Fx::Nest { depth, kind, leaf } => {
                use pb::metadata_filter::FilterType;
                let mut cur = leaf.to_proto();
                for _ in 0..*depth {
                    cur = match kind {
                        0 => pb::MetadataFilter { filter_type: Some(FilterType::NotFilter(Box::new(pb::NotFilter { filter: Some(Box::new(cur)) }))) },
                        1 => pb::MetadataFilter { filter_type: Some(FilterType::AndFilter(pb::AndFilter { filters: vec![cur] })) },
                        _ => pb::MetadataFilter { filter_type: Some(FilterType::OrFilter(pb::OrFilter { filters: vec![cur] })) },
                    };
                }
                cur
            }
        }
    }
    pub fn plain(&self) -> Option<&F> {
        match self {
            Fx::F(f) => Some(f),
            _ => None,
        }
    }
}

#[derive(Clone, Debug, PartialEq, Serialize, Deserialize)]
pub struct SearchSpec {
    pub q: Vec<u32>,
    pub k: u32,
    pub min_score: u32, // f32 bits
    pub ns: String,
    pub emb: bool,
    pub ef: u32,
    pub filter: Option<Fx>,
    pub legacy: Meta,
}

#[derive(Clone, Debug, PartialEq, Serialize, Deserialize)]
pub enum Rpc {
    Insert(Item),
    BulkInsert(Vec<Item>),
    BulkLoad(Vec<Item>),
    Delete { id: u64, ns: String },
    UpdateMeta { id: u64, meta: Meta, merge: bool, ns: String },
    Query { id: u64, emb: bool, ns: String },
    BulkQuery { ids: Vec<u64>, emb: bool, ns: String },
    Search(SearchSpec),
    BulkSearch(Vec<SearchSpec>),
    BatchDeleteIds { ids: Vec<u64>, ns: String },
    BatchDeleteFilter { f: Fx, ns: String },
    BatchDeleteNone { ns: String },
    Flush { force: bool },
    /// arbitrary bytes as the single request frame of `method` (C15: undecodable messages)
    RawBytes { method: String, bytes: Vec<u8> },
}

impl Rpc {
    pub fn name(&self) -> &'static str {
        match self {
            Rpc::Insert(_) => "Insert",
            Rpc::BulkInsert(_) => "BulkInsert",
            Rpc::BulkLoad(_) => "BulkLoadHnsw",
            Rpc::Delete { .. } => "Delete",
            Rpc::UpdateMeta { .. } => "UpdateMetadata",
            Rpc::Query { .. } => "Query",
            Rpc::BulkQuery { .. } => "BulkQuery",
            Rpc::Search(_) => "Search",
            Rpc::BulkSearch(_) => "BulkSearch",
            Rpc::BatchDeleteIds { .. } | Rpc::BatchDeleteFilter { .. } | Rpc::BatchDeleteNone { .. } => "BatchDelete",
            Rpc::Flush { .. } => "FlushHotTier",
            Rpc::RawBytes { .. } => "RawBytes",
        }
    }
    pub fn method(&self) -> String {
        match self {
            Rpc::RawBytes { method, .. } => method.clone(),
            _ => self.name().to_string(),
        }
    }
    pub fn is_write(&self) -> bool {
        matches!(self, Rpc::Insert(_) | Rpc::BulkInsert(_) | Rpc::BulkLoad(_) | Rpc::Delete { .. } | Rpc::UpdateMeta { .. } | Rpc::BatchDeleteIds { .. } | Rpc::BatchDeleteFilter { .. } | Rpc::BatchDeleteNone { .. })
    }
    /// the kind used in facts: BatchDelete split by criteria
    pub fn kind(&self) -> &'static str {
        match self {
            Rpc::BatchDeleteIds { .. } => "BatchDelete(ids)",
            Rpc::BatchDeleteFilter { .. } => "BatchDelete(filter)",
            Rpc::BatchDeleteNone { .. } => "BatchDelete(none)",
            _ => self.name(),
        }
    }
}

fn item_msg(it: &Item) -> Vec<u8> {
    pb::InsertRequest { doc_id: it.id, embedding: unbits(&it.vec), metadata: to_hash(&it.meta), namespace: it.ns.clone() }.encode_to_vec()
}

pub fn search_msg(s: &SearchSpec) -> pb::SearchRequest {
    pb::SearchRequest {
        query_embedding: unbits(&s.q),
        k: s.k,
        min_score: f32::from_bits(s.min_score),
        namespace: s.ns.clone(),
        include_embeddings: s.emb,
        ef_search: s.ef,
        filter: s.filter.as_ref().map(|f| f.to_proto()),
        metadata_filters: to_hash(&s.legacy),
    }
}

pub fn encode(r: &Rpc) -> Vec<Vec<u8>> {
    match r {
        Rpc::Insert(it) => vec![item_msg(it)],
        Rpc::BulkInsert(items) | Rpc::BulkLoad(items) => items.iter().map(item_msg).collect(),
        Rpc::Delete { id, ns } => vec![pb::DeleteRequest { doc_id: *id, namespace: ns.clone() }.encode_to_vec()],
        Rpc::UpdateMeta { id, meta, merge, ns } => vec![pb::UpdateMetadataRequest { doc_id: *id, metadata: to_hash(meta), merge: *merge, namespace: ns.clone() }.encode_to_vec()],
        Rpc::Query { id, emb, ns } => vec![pb::QueryRequest { doc_id: *id, include_embedding: *emb, namespace: ns.clone() }.encode_to_vec()],
        Rpc::BulkQuery { ids, emb, ns } => vec![pb::BulkQueryRequest { doc_ids: ids.clone(), include_embeddings: *emb, namespace: ns.clone() }.encode_to_vec()],
        Rpc::Search(s) => vec![search_msg(s).encode_to_vec()],
        Rpc::BulkSearch(ss) => ss.iter().map(|s| search_msg(s).encode_to_vec()).collect(),
        Rpc::BatchDeleteIds { ids, ns } => vec![pb::BatchDeleteRequest { delete_criteria: Some(pb::batch_delete_request::DeleteCriteria::Ids(pb::IdList { doc_ids: ids.clone() })), namespace: ns.clone() }.encode_to_vec()],
        Rpc::BatchDeleteFilter { f, ns } => vec![pb::BatchDeleteRequest { delete_criteria: Some(pb::batch_delete_request::DeleteCriteria::Filter(f.to_proto())), namespace: ns.clone() }.encode_to_vec()],
        Rpc::BatchDeleteNone { ns } => vec![pb::BatchDeleteRequest { delete_criteria: None, namespace: ns.clone() }.encode_to_vec()],
        Rpc::Flush { force } => vec![pb::FlushRequest { force: *force }.encode_to_vec()],
        Rpc::RawBytes { bytes, .. } => vec![bytes.clone()],
    }
}

#[derive(Clone, Debug, PartialEq, Serialize)]
pub struct QR {
    pub found: bool,
    pub id: u64,
    pub emb: Vec<u32>,
    pub meta: Meta,
    pub error: String,
}

#[derive(Clone, Debug, PartialEq, Serialize)]
pub struct SRItem {
    pub id: u64,
    pub score: u32,
    pub emb: Vec<u32>,
    pub meta: Meta,
}

#[derive(Clone, Debug, PartialEq, Serialize)]
pub struct SR {
    pub results: Vec<SRItem>,
    pub total_found: u32,
    pub cache_hit: bool,
    pub error: String,
}

#[derive(Clone, Debug, PartialEq, Serialize)]
pub enum Body {
    None,
    Insert { success: bool, error: String, inserted: u64, failed: u64 },
    BulkLoad { success: bool, error: String, loaded: u64, failed: u64 },
    Delete { success: bool, existed: bool, error: String },
    Update { success: bool, existed: bool, error: String },
    Query(QR),
    BulkQuery { results: Vec<QR>, total_found: u32, total_requested: u32, error: String },
    Search(Vec<SR>),
    BatchDelete { success: bool, deleted: u64, error: String },
    Flush { success: bool, flushed: u64, error: String },
    Undecodable(String),
}

#[derive(Clone, Debug, PartialEq, Serialize)]
pub struct Resp {
    /// gRPC status; 0 OK. -1: no grpc-status anywhere in the answer, -2: the service future returned Err
    pub code: i32,
    pub message: String,
    pub http: u16,
    pub body: Body,
}

fn qr(q: pb::QueryResponse) -> QR {
    QR { found: q.found, id: q.doc_id, emb: bits(&q.embedding), meta: to_btree(&q.metadata), error: q.error }
}
fn sr(s: pb::SearchResponse) -> SR {
    SR {
        results: s.results.into_iter().map(|r| SRItem { id: r.doc_id, score: r.score.to_bits(), emb: bits(&r.embedding), meta: to_btree(&r.metadata) }).collect(),
        total_found: s.total_found,
        cache_hit: s.search_path == pb::search_response::SearchPath::CacheHit as i32,
        error: s.error,
    }
}

pub fn decode(r: &Rpc, raw: &RpcResult) -> Resp {
    let method = r.method();
    let body = if raw.responses.is_empty() {
        Body::None
    } else {
        let b = &raw.responses[0][..];
        macro_rules! dec {
            ($t:ty, $f:expr) => {
                match <$t>::decode(b) {
                    Ok(m) => $f(m),
                    Err(e) => Body::Undecodable(e.to_string()),
                }
            };
        }
        match method.as_str() {
            "Insert" | "BulkInsert" => dec!(pb::InsertResponse, |m: pb::InsertResponse| Body::Insert { success: m.success, error: m.error, inserted: m.total_inserted, failed: m.total_failed }),
            "BulkLoadHnsw" => dec!(pb::BulkLoadResponse, |m: pb::BulkLoadResponse| Body::BulkLoad { success: m.success, error: m.error, loaded: m.total_loaded, failed: m.total_failed }),
            "Delete" => dec!(pb::DeleteResponse, |m: pb::DeleteResponse| Body::Delete { success: m.success, existed: m.existed, error: m.error }),
            "UpdateMetadata" => dec!(pb::UpdateMetadataResponse, |m: pb::UpdateMetadataResponse| Body::Update { success: m.success, existed: m.existed, error: m.error }),
            "Query" => dec!(pb::QueryResponse, |m: pb::QueryResponse| Body::Query(qr(m))),
            "BulkQuery" => dec!(pb::BulkQueryResponse, |m: pb::BulkQueryResponse| Body::BulkQuery { results: m.results.into_iter().map(qr).collect(), total_found: m.total_found, total_requested: m.total_requested, error: m.error }),
            "Search" | "BulkSearch" => {
                let mut out = Vec::new();
                let mut bad = None;
                for f in &raw.responses {
                    match pb::SearchResponse::decode(&f[..]) {
                        Ok(m) => out.push(sr(m)),
                        Err(e) => bad = Some(e.to_string()),
                    }
                }
                match bad {
                    Some(e) => Body::Undecodable(e),
                    None => Body::Search(out),
                }
            }
            "BatchDelete" => dec!(pb::BatchDeleteResponse, |m: pb::BatchDeleteResponse| Body::BatchDelete { success: m.success, deleted: m.deleted_count, error: m.error }),
            "FlushHotTier" => dec!(pb::FlushResponse, |m: pb::FlushResponse| Body::Flush { success: m.success, flushed: m.documents_flushed, error: m.error }),
            _ => Body::Undecodable(format!("no decoder for {}", method)),
        }
    };
    Resp { code: raw.code, message: raw.message.clone(), http: raw.http_status, body }
}

/// Credentials of one call.
#[derive(Clone, Debug, PartialEq, Serialize, Deserialize)]
pub enum Cred {
    /// tenant index into the configured tenant list
    Tenant(usize),
    /// same, sent as `authorization: Bearer <key>`
    Bearer(usize),
    NoKey,
    /// a key the server does not know
    Unknown(String),
}

pub fn call(rt: &tokio::runtime::Runtime, h: &Harness, keys: &[String], cred: &Cred, r: &Rpc) -> Resp {
    let (key, bearer): (Option<String>, bool) = match cred {
        Cred::Tenant(t) => (keys.get(*t).cloned(), false),
        Cred::Bearer(t) => (keys.get(*t).cloned(), true),
        Cred::NoKey => (None, false),
        Cred::Unknown(k) => (Some(k.clone()), false),
    };
    let msgs = encode(r);
    let method = r.method();
    // searches wait for tokio's blocking pool: keep that wait from ticking the simulated clock
    let _fz = crate::simlibc::FreezeClock::new();
    let raw = rt.block_on(async { h.call(&method, key.as_deref(), bearer, msgs).await });
    decode(r, &raw)
}

pub fn paused_runtime() -> tokio::runtime::Runtime {
    tokio::runtime::Builder::new_current_thread().enable_time().start_paused(true).build().expect("runtime")
}

pub fn api_key(tenant_id: &str, n: u64) -> String {
    format!("kyro_{}_{:032x}", tenant_id, 0x5eed_0000_0000_0000u128 + n as u128)
}
