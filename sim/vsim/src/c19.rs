//! C19: rate limits bound admitted traffic.
//! RateLimiter::new_with_global under the simulated clock; arrivals are events on that clock (bursts, exact 1/rate
//! spacing +- 1 ns, long idles, a tenant that keeps the global bucket saturated); caller threads interleave at the
//! bucket mutexes under the seeded scheduler. Oracles over the recorded history.

use crate::c08::SchedSpec;
use crate::hist::{on_fresh_thread, reset_env};
use crate::report::{Summary, Violation};
use crate::rng::Rng;
use crate::simlibc;
use kyrodb_engine::RateLimiter;
use plsim::sim::{self, RunConfig};
use serde::{Deserialize, Serialize};
use serde_json::json;
use std::collections::BTreeMap;
use std::sync::{Arc, Mutex};

#[derive(Clone, Debug, PartialEq, Serialize, Deserialize)]
pub struct Call {
    pub gap_ns: u64,
    pub tenant: usize,
    /// server rows: > 0 = a BulkSearch stream of that many requests (every message costs one token), 0 = one unary Query
    #[serde(default)]
    pub stream: u32,
    /// direct rows: before this call, that many tenants nobody has seen before make one call each (rate 1/s)
    #[serde(default)]
    pub crowd: u32,
}

#[derive(Clone, Debug, PartialEq, Serialize, Deserialize)]
pub struct Plan {
    pub rates: Vec<u32>, // per tenant
    pub global: Option<u32>,
    pub threads: Vec<Vec<Call>>,
    pub sched: SchedSpec,
    pub env_seed: u64,
    /// drive the limiter through the real server (interceptor -> handler -> enforce_rate_limit) instead of directly
    #[serde(default)]
    pub via_server: bool,
}

#[derive(Clone, Debug, Serialize, Deserialize)]
pub struct Replay {
    pub check: String,
    pub plan: Plan,
    pub clause: String,
}

pub fn gen_plan(seed: u64, run: u64, tier: &str) -> Plan {
    let prog = run / 6;
    let mut rng = Rng::for_run(seed, "C19p", prog);
    let n_tenants = rng.range(1, 3) as usize;
    let rates: Vec<u32> = (0..n_tenants).map(|_| *rng.pick(&[1u32, 2, 3, 10, 100, 1000])).collect();
    let global = if rng.chance(2, 3) { Some(*rng.pick(&[1u32, 2, 5, 20, 150, 2000])) } else { None };
    let n_threads = if prog % 2 == 0 { 1 } else { rng.range(2, 3) as usize };
    let max_calls = if tier == "thorough" { 60 } else { 30 };
    let mut threads = Vec::new();
    for _ in 0..n_threads {
        let n = rng.range(3, max_calls) as usize;
        let mut calls = Vec::new();
        // pattern per thread
        let pattern = rng.below(5);
        let hot = rng.below(n_tenants as u64) as usize;
        for _ in 0..n {
            let tenant = match pattern {
                3 => hot, // one tenant hammering (keeps the global bucket busy)
                _ => rng.below(n_tenants as u64) as usize,
            };
            let period = 1_000_000_000u64 / rates[tenant] as u64;
            let gap = match pattern {
                0 => 0, // burst
                1 => match rng.below(4) {
                    0 => period,
                    1 => period + 1,
                    2 => period.saturating_sub(1),
                    _ => period + 2_000,
                },
                2 => *rng.pick(&[0u64, 1_000, 1_000_000, 50_000_000, 1_000_000_000, 5_000_000_000, 3_600_000_000_000]),
                3 => *rng.pick(&[0u64, 0, 0, 100_000, 10_000_000]),
                _ => rng.below(2 * period + 1),
            };
            calls.push(Call { gap_ns: gap, tenant, stream: 0, crowd: 0 });
        }
        threads.push(calls);
    }
    let env_seed = rng.next();
    // a crowd of first-contact tenants in some direct programs: the limiter then tracks hundreds or thousands of
    // buckets while the tenants under observation carry on
    if prog % 5 != 4 && prog % 16 == 3 {
        let mut crng = Rng::for_run(seed, "C19c", prog);
        for _ in 0..crng.range(1, 2) {
            let t = crng.below(threads.len() as u64) as usize;
            let i = crng.below(threads[t].len() as u64) as usize;
            threads[t][i].crowd = *crng.pick(&[60u32, 700, 4200, 5000]);
        }
    }
    let mut srng = Rng::for_run(seed, "C19s", run);
    // every fifth program goes through the in-process server (fewer calls: an RPC costs more than a bucket call)
    let via_server = prog % 5 == 4;
    if via_server {
        for t in threads.iter_mut() {
            t.truncate(12);
            for c in t.iter_mut() {
                if rng.chance(1, 3) {
                    c.stream = rng.range(2, 8) as u32;
                }
            }
        }
    }
    Plan { rates, global, threads, sched: SchedSpec::gen(&mut srng, 200), env_seed, via_server }
}

#[derive(Clone, Debug, Serialize)]
pub struct Rec {
    thread: usize,
    tenant: usize,
    tb: u64,
    ta: u64,
    admitted: bool,
    avail_before: Option<f64>,
    avail_after: Option<f64>,
}

pub struct Exec {
    pub problems: Vec<(String, String, BTreeMap<String, String>)>,
    pub deadlocked: bool,
    pub trace_hash: u64,
    pub calls: u64,
    pub admitted: u64,
    pub refused: u64,
    pub global_refusals_seen: u64,
    pub choices: Vec<(u64, u32)>,
    pub sim_ns: u64,
}

fn window_check(recs: &[&Rec], cap: f64, rate_per_ns: f64) -> Option<(usize, usize, f64)> {
    // recs: admitted calls sorted by tb. For every window i..=j: count <= cap + rate * (ta_j - tb_i)
    for i in 0..recs.len() {
        let mut max_ta = 0u64;
        for j in i..recs.len() {
            max_ta = max_ta.max(recs[j].ta);
            let count = (j - i + 1) as f64;
            let dt = max_ta.saturating_sub(recs[i].tb) as f64;
            let bound = cap + rate_per_ns * dt + 1e-6;
            if count > bound {
                return Some((i, j, bound));
            }
        }
    }
    None
}

pub fn execute(plan: &Plan) -> Exec {
    reset_env(plan.env_seed);
    let p = plan.clone();
    let r = on_fresh_thread(move || {
        let mut ex = Exec { problems: vec![], deadlocked: false, trace_hash: 0, calls: 0, admitted: 0, refused: 0, global_refusals_seen: 0, choices: vec![], sim_ns: 0 };
        let limiter = Arc::new(RateLimiter::new_with_global(p.global));
        let server: Option<Arc<(crate::server::vharness::Harness, Vec<String>)>> = if p.via_server {
            use crate::server::vharness::{Harness, ServerCfg, TenantSpec};
            let dir = crate::common::fresh_dir("c19", 0);
            let keys: Vec<String> = (0..p.rates.len()).map(|t| crate::rpc::api_key(&format!("tenant_{}", t), t as u64)).collect();
            let tenants = p.rates.iter().enumerate().map(|(t, r)| TenantSpec { id: format!("tenant_{}", t), key: keys[t].clone(), max_vectors: 1000, max_qps: *r, is_admin: false, enabled: true }).collect();
            let scfg = ServerCfg { dim: 2, metric: 1, tenants, auth: true, rate_limit: true, data_dir: None, aux_dir: dir, cache_cap: 2, qc_cap: 2, qc_threshold: 0.99, hot_soft: 4, hot_hard: 8, capacity: 64, snapshot_interval: 0, max_wal: 1 << 20, global_qps: p.global };
            match Harness::start(&scfg) {
                Ok(h) => Some(Arc::new((h, keys))),
                Err(e) => {
                    ex.problems.push(("harness".into(), format!("server start failed: {}", e), BTreeMap::new()));
                    return ex;
                }
            }
        } else {
            None
        };
        let t_start = simlibc::clock_now_ns();
        let hist: Arc<Mutex<Vec<Rec>>> = Arc::new(Mutex::new(Vec::new()));
        let single = p.threads.len() == 1;
        let mut bodies: Vec<Box<dyn FnOnce() + Send + 'static>> = Vec::new();
        for (t, calls) in p.threads.iter().enumerate() {
            let lim = Arc::clone(&limiter);
            let srv = server.clone();
            let calls = calls.clone();
            let rates = p.rates.clone();
            let hist = Arc::clone(&hist);
            bodies.push(Box::new(move || {
                let rt = srv.as_ref().map(|_| crate::rpc::paused_runtime());
                for (ci, c) in calls.iter().enumerate() {
                    simlibc::clock_advance_ns(c.gap_ns);
                    if c.crowd > 0 && srv.is_none() {
                        for k in 0..c.crowd {
                            let n = format!("crowd_{}_{}_{}", t, ci, k);
                            let tb = simlibc::clock_now_ns();
                            let admitted = lim.check_limit(&n, 1);
                            let ta = simlibc::clock_now_ns();
                            hist.lock().unwrap().push(Rec { thread: t, tenant: usize::MAX, tb, ta, admitted, avail_before: None, avail_after: None });
                        }
                    }
                    let name = format!("tenant_{}", c.tenant);
                    let avail = |n: &str| match &srv {
                        Some(s) => s.0.rate_tokens(n),
                        None => lim.available_tokens(n),
                    };
                    let avail_before = if single { avail(&name) } else { None };
                    let tb = simlibc::clock_now_ns();
                    let _ = sim::stamp();
                    if let (Some(s), Some(rt), true) = (&srv, &rt, c.stream > 0) {
                        // a BulkSearch stream: every request of the stream is charged; answered requests are admissions
                        let spec = crate::rpc::SearchSpec { q: crate::common::bits(&[1.0, 0.0]), k: 1, min_score: 0, ns: String::new(), emb: false, ef: 0, filter: None, legacy: Default::default() };
                        let resp = crate::rpc::call(rt, &s.0, &s.1, &crate::rpc::Cred::Tenant(c.tenant), &crate::rpc::Rpc::BulkSearch(vec![spec; c.stream as usize]));
                        let answered = match &resp.body {
                            crate::rpc::Body::Search(v) => v.len(),
                            _ => 0,
                        };
                        let ta = simlibc::clock_now_ns();
                        let mut hg = hist.lock().unwrap();
                        for _ in 0..answered {
                            hg.push(Rec { thread: t, tenant: c.tenant, tb, ta, admitted: true, avail_before: None, avail_after: None });
                        }
                        if resp.code == 8 {
                            hg.push(Rec { thread: t, tenant: c.tenant, tb, ta, admitted: false, avail_before: None, avail_after: None });
                        }
                        continue;
                    }
                    let admitted = match (&srv, &rt) {
                        (Some(s), Some(rt)) => {
                            let resp = crate::rpc::call(rt, &s.0, &s.1, &crate::rpc::Cred::Tenant(c.tenant), &crate::rpc::Rpc::Query { id: 1, emb: false, ns: String::new() });
                            if std::env::var("VSIM_C19_DEBUG").is_ok() {
                                eprintln!("c19 server call tenant={} t={} -> code={} msg={:?} tokens={:?}", c.tenant, simlibc::clock_now_ns(), resp.code, resp.message, s.0.rate_tokens(&name));
                            }
                            // admitted = answered OK; RESOURCE_EXHAUSTED = refused (the wording of the message is not relied on)
                            resp.code != 8
                        }
                        _ => lim.check_limit(&name, rates[c.tenant]),
                    };
                    let ta = simlibc::clock_now_ns();
                    let avail_after = if single { avail(&name) } else { None };
                    hist.lock().unwrap().push(Rec { thread: t, tenant: c.tenant, tb, ta, admitted, avail_before, avail_after });
                }
            }));
        }
        let result = sim::run(RunConfig { seed: p.sched.seed, strategy: p.sched.strategy(), max_decisions: if p.threads.iter().flatten().any(|c| c.crowd > 0) { 2_000_000 } else { 50_000 }, yield_on_release: p.sched.yield_on_release, record_sites: false }, bodies);
        ex.trace_hash = result.trace_hash;
        ex.choices = result.choices.clone();
        if result.deadlock.is_some() || result.step_cap_hit {
            ex.deadlocked = true;
            return ex;
        }
        for (tid, msg) in &result.panics {
            ex.problems.push(("operation_panicked".into(), format!("thread {} panicked: {}", tid, msg), BTreeMap::new()));
        }
        let recs = hist.lock().unwrap().clone();
        ex.calls = recs.len() as u64;
        ex.admitted = recs.iter().filter(|r| r.admitted).count() as u64;
        ex.refused = ex.calls - ex.admitted;
        ex.sim_ns = simlibc::clock_now_ns() - t_start;
        // ---- clause 1: per-tenant bound over every window
        for (t, rate) in p.rates.iter().enumerate() {
            let mut adm: Vec<&Rec> = recs.iter().filter(|r| r.admitted && r.tenant == t).collect();
            adm.sort_by_key(|r| r.tb);
            if let Some((i, j, bound)) = window_check(&adm, *rate as f64, *rate as f64 / 1e9) {
                let mut f = BTreeMap::new();
                f.insert("bucket".into(), "tenant".into());
                f.insert("threads".into(), if single { "1" } else { "many" }.into());
                ex.problems.push((
                    "admitted_more_than_burst_plus_rate".into(),
                    format!("tenant {} (rate {}/s): {} calls admitted between t={} ns and t={} ns, bound {:.6}", t, rate, j - i + 1, adm[i].tb - t_start, adm[j].ta - t_start, bound),
                    f,
                ));
            }
        }
        // ---- clause 2: global bound
        if let Some(g) = p.global {
            let mut adm: Vec<&Rec> = recs.iter().filter(|r| r.admitted).collect();
            adm.sort_by_key(|r| r.tb);
            if let Some((i, j, bound)) = window_check(&adm, g as f64, g as f64 / 1e9) {
                let mut f = BTreeMap::new();
                f.insert("bucket".into(), "global".into());
                f.insert("threads".into(), if single { "1" } else { "many" }.into());
                ex.problems.push((
                    "admitted_more_than_burst_plus_rate".into(),
                    format!("global limit {}/s: {} calls admitted between t={} ns and t={} ns, bound {:.6}", g, j - i + 1, adm[i].tb - t_start, adm[j].ta - t_start, bound),
                    f,
                ));
            }
        }
        // ---- clauses 3 + 4 (single caller thread: exact attribution is possible)
        // (runs with BulkSearch streams are judged by the window bounds only: a stream that is cut off has consumed
        // tokens for requests that were never answered, which the per-call accounting below cannot attribute)
        if single && !p.threads.iter().flatten().any(|c| c.stream > 0 || c.crowd > 0) {
            let eps = 1e-6;
            // reference LOWER bounds on the tokens of each bucket
            let mut lt: Vec<f64> = p.rates.iter().map(|r| *r as f64).collect();
            let mut lt_touch: Vec<u64> = vec![t_start; p.rates.len()];
            let mut lg: f64 = p.global.map(|g| g as f64).unwrap_or(f64::INFINITY);
            let mut lg_touch = t_start;
            for (n, r) in recs.iter().enumerate() {
                let rate_t = p.rates[r.tenant] as f64;
                // refill lower bounds with the shortest elapsed time consistent with the record
                lt[r.tenant] = (lt[r.tenant] + rate_t * (r.tb.saturating_sub(lt_touch[r.tenant]) as f64) / 1e9).min(rate_t);
                if let Some(g) = p.global {
                    lg = (lg + g as f64 * (r.tb.saturating_sub(lg_touch) as f64) / 1e9).min(g as f64);
                }
                let tenant_has = lt[r.tenant] >= 1.0 + eps;
                let global_has = lg >= 1.0 + eps;
                if !r.admitted && tenant_has && global_has {
                    let mut f = BTreeMap::new();
                    f.insert("kind".into(), "refused_although_both_budgets_have_room".into());
                    ex.problems.push((
                        "refused_below_rate".into(),
                        format!("call {} (tenant {}, rate {}/s, global {:?}) refused although by conservative accounting the tenant bucket holds >= {:.6} tokens and the global bucket >= {:.6}", n, r.tenant, p.rates[r.tenant], p.global, lt[r.tenant], lg),
                        f,
                    ));
                    break;
                }
                // refund: refused by the global bucket must not cost the tenant
                if !r.admitted {
                    if let (Some(b), Some(a)) = (r.avail_before, r.avail_after) {
                        if b >= 1.0 + eps {
                            ex.global_refusals_seen += 1;
                            if a < b - eps {
                                let mut f = BTreeMap::new();
                                f.insert("kind".into(), "tenant_budget_consumed_by_global_refusal".into());
                                ex.problems.push(("global_refusal_consumed_tenant_budget".into(), format!("call {} (tenant {}): refused with {:.6} tenant tokens available before, {:.6} after", n, r.tenant, b, a), f));
                                break;
                            }
                        }
                    }
                }
                if r.admitted {
                    lt[r.tenant] -= 1.0;
                    lg -= 1.0;
                }
                // credit is granted only up to tb and resumes at ta (the call's own duration is never credited)
                lt_touch[r.tenant] = r.ta;
                lg_touch = r.ta;
                let _ = tenant_has;
                // available_tokens() calls by the harness also refill the tenant bucket; they only move the
                // engine's last_refill forward, which the lower bound already tolerates (touch = ta).
            }
        }
        ex
    });
    match r {
        Ok(e) => e,
        Err(p) => Exec { problems: vec![("harness_thread_panicked".into(), p, BTreeMap::new())], deadlocked: false, trace_hash: 0, calls: 0, admitted: 0, refused: 0, global_refusals_seen: 0, choices: vec![], sim_ns: 0 },
    }
}

pub fn run_batch(seed: u64, start: u64, count: u64, tier: &str, budget_ms: u64, sum: &mut Summary) {
    let t0 = simlibc::real_now_ns();
    for run in start..start + count {
        if budget_ms > 0 && (simlibc::real_now_ns() - t0) / 1_000_000 > budget_ms {
            break;
        }
        let plan = gen_plan(seed, run, tier);
        let ex = execute(&plan);
        sum.runs += 1;
        if ex.deadlocked {
            sum.count("aborted_by_deadlock_or_cap", 1);
            continue;
        }
        sum.evaluations += 1;
        sum.sim_time_ns += ex.sim_ns;
        sum.count("calls", ex.calls);
        sum.count("admitted", ex.admitted);
        sum.count("refused", ex.refused);
        sum.probe("global_refusal_with_tenant_tokens_available", ex.global_refusals_seen);
        if plan.threads.len() > 1 {
            sum.probe("multi_thread_runs", 1);
        }
        if plan.via_server {
            sum.probe("runs_through_the_server", 1);
        }
        if ex.refused > 0 && ex.admitted > 0 {
            sum.distinct_hash(ex.trace_hash ^ ex.admitted.wrapping_mul(0x9E3779B97F4A7C15));
        }
        if sum.runs <= 2 {
            sum.sample(json!({"run": run, "rates": plan.rates, "global": plan.global, "threads": plan.threads.iter().map(|t| t.iter().take(6).collect::<Vec<_>>()).collect::<Vec<_>>(), "admitted": ex.admitted, "refused": ex.refused}));
        }
        for (clause, msg, facts) in &ex.problems {
            let mut key = format!("C19|{}", clause);
            for (k, v) in facts {
                key.push_str(&format!("|{}={}", k, v));
            }
            if !sum.class_first(&key) || sum.violations.len() >= 10 {
                continue;
            }
            let mut best = plan.clone();
            best.sched = SchedSpec { kind: "replay".into(), a: 0, len: plan.sched.len, seed: plan.sched.seed, yield_on_release: plan.sched.yield_on_release, choices: ex.choices.clone() };
            let mut best_msg = msg.clone();
            // minimise single-thread plans by dropping calls (deterministic without a schedule)
            if plan.threads.len() == 1 {
                let mut i = 0;
                let mut tries = 0;
                while i < best.threads[0].len() && tries < 120 {
                    let mut cand = best.clone();
                    cand.threads[0].remove(i);
                    tries += 1;
                    let e2 = execute(&cand);
                    if let Some((_, m2, _)) = e2.problems.iter().find(|(c, _, _)| c == clause) {
                        best = cand;
                        best_msg = m2.clone();
                    } else {
                        i += 1;
                    }
                }
            }
            sum.violations.push(Violation {
                property: "C19".into(),
                clause: clause.clone(),
                facts: facts.clone(),
                message: best_msg,
                seed,
                run,
                replay: serde_json::to_value(Replay { check: "C19".into(), plan: best, clause: clause.clone() }).unwrap(),
                minimised: plan.threads.len() == 1,
                original: Some(json!({"plan": plan, "message": msg})),
            });
        }
    }
}

pub fn replay(v: &serde_json::Value, sum: &mut Summary) -> Result<(), String> {
    let r: Replay = serde_json::from_value(v.clone()).map_err(|e| e.to_string())?;
    let ex = execute(&r.plan);
    sum.runs = 1;
    sum.evaluations = 1;
    for (clause, msg, facts) in &ex.problems {
        sum.violations.push(Violation { property: "C19".into(), clause: clause.clone(), facts: facts.clone(), message: msg.clone(), seed: 0, run: 0, replay: v.clone(), minimised: true, original: None });
    }
    Ok(())
}
