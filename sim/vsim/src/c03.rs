//! C03: a write that reports failure changes nothing, now or after restart.
//! (a) invalid inputs on every engine-level write path, no I/O fault; (b) injected storage faults (errno x n-th
//! write/fsync/fdatasync/ftruncate/rename/open x short writes, including faults inside the engine's own rollback
//! and retries). After every step: live census == model; after faulted/failed steps and at the end: the real
//! strict recovery on the kill-model image of the journal == model.

use crate::c01::{recover_on_image, Outcome};
use crate::common::*;
use crate::crash::Replayer;
use crate::hist::{on_fresh_thread, reset_env};
use crate::report::{Summary, Violation};
use crate::rng::Rng;
use crate::simlibc::{self, CallKind, Effect, FaultAction, FaultRule, FsImage, Role};
use serde::{Deserialize, Serialize};
use serde_json::json;
use std::collections::BTreeMap;
use std::panic::{catch_unwind, AssertUnwindSafe};

#[derive(Clone, Debug, PartialEq, Serialize, Deserialize)]
pub struct RuleSpec {
    pub kind: String,
    pub role: Option<String>,
    pub nth: u32,
    pub action: ActionSpec,
}

#[derive(Clone, Debug, PartialEq, Serialize, Deserialize)]
pub enum ActionSpec {
    Errno(i32),
    Short(usize),
    LowSpace(u32), // percent free
}

#[derive(Clone, Debug, PartialEq, Serialize, Deserialize)]
pub struct Step {
    pub op: OpK,
    pub faults: Vec<RuleSpec>,
    /// label of the input class for invalid-input steps ("" for ordinary operations)
    pub input_class: String,
}

#[derive(Clone, Debug, PartialEq, Serialize, Deserialize)]
pub struct Plan {
    pub cfg: Cfg,
    pub steps: Vec<Step>,
    pub universe: u64,
    pub env_seed: u64,
    pub mode: String, // "invalid_input" | "storage_faults"
}

#[derive(Clone, Debug, Serialize, Deserialize)]
pub struct Replay {
    pub check: String,
    pub plan: Plan,
    pub clause: String,
}

fn kind_of(s: &str) -> CallKind {
    match s {
        "open" => CallKind::Open,
        "write" => CallKind::Write,
        "fsync" => CallKind::Fsync,
        "fdatasync" => CallKind::Fdatasync,
        "ftruncate" => CallKind::Ftruncate,
        "rename" => CallKind::Rename,
        "unlink" => CallKind::Unlink,
        _ => CallKind::Statvfs,
    }
}

fn role_from(s: &str) -> Role {
    match s {
        "wal" => Role::Wal,
        "snap_tmp" => Role::SnapTmp,
        "snap" => Role::Snap,
        "manifest_tmp" => Role::ManTmp,
        "manifest" => Role::Man,
        "dir" => Role::Dir,
        _ => Role::Other,
    }
}

pub fn to_rule(r: &RuleSpec) -> FaultRule {
    let action = match r.action {
        ActionSpec::Errno(e) => FaultAction::Errno(e),
        ActionSpec::Short(n) => FaultAction::Short(n),
        ActionSpec::LowSpace(p) => FaultAction::LowSpace(p as f64 / 100.0),
    };
    FaultRule::new(kind_of(&r.kind), r.role.as_deref().map(role_from), r.nth, action)
}

const ERRNOS: [i32; 5] = [libc::ENOSPC, libc::EIO, libc::EDQUOT, libc::EINTR, libc::EACCES];

pub fn gen_faults(rng: &mut Rng) -> Vec<RuleSpec> {
    let mut out = Vec::new();
    let n = match rng.below(10) {
        0..=5 => 1,
        6..=8 => 2,
        _ => 3,
    };
    for _ in 0..n {
        let errno = *rng.pick(&ERRNOS);
        let r = rng.below(100);
        let spec = if r < 30 {
            RuleSpec { kind: "write".into(), role: Some("wal".into()), nth: rng.range(1, 3) as u32, action: ActionSpec::Errno(errno) }
        } else if r < 45 {
            RuleSpec { kind: "write".into(), role: Some("wal".into()), nth: rng.range(1, 2) as u32, action: ActionSpec::Short(rng.range(1, 60) as usize) }
        } else if r < 60 {
            RuleSpec { kind: if rng.chance(1, 2) { "fsync" } else { "fdatasync" }.into(), role: Some("wal".into()), nth: rng.range(1, 3) as u32, action: ActionSpec::Errno(errno) }
        } else if r < 68 {
            RuleSpec { kind: "ftruncate".into(), role: Some("wal".into()), nth: 1, action: ActionSpec::Errno(errno) }
        } else if r < 76 {
            RuleSpec { kind: "rename".into(), role: None, nth: rng.range(1, 2) as u32, action: ActionSpec::Errno(errno) }
        } else if r < 84 {
            RuleSpec { kind: "write".into(), role: Some(rng.pick(&["manifest_tmp", "snap_tmp"]).to_string()), nth: rng.range(1, 2) as u32, action: if rng.chance(1, 2) { ActionSpec::Errno(errno) } else { ActionSpec::Short(rng.range(1, 40) as usize) } }
        } else if r < 90 {
            RuleSpec { kind: "fsync".into(), role: Some(rng.pick(&["manifest_tmp", "snap_tmp", "dir"]).to_string()), nth: rng.range(1, 2) as u32, action: ActionSpec::Errno(errno) }
        } else if r < 95 {
            RuleSpec { kind: "open".into(), role: None, nth: rng.range(1, 3) as u32, action: ActionSpec::Errno(errno) }
        } else if r < 98 {
            RuleSpec { kind: "statvfs".into(), role: None, nth: rng.range(1, 2) as u32, action: ActionSpec::LowSpace(*rng.pick(&[3u32, 4, 8])) }
        } else {
            RuleSpec { kind: "unlink".into(), role: None, nth: 1, action: ActionSpec::Errno(errno) }
        };
        out.push(spec);
    }
    out
}

pub fn invalid_vector(rng: &mut Rng, dim: usize, class: &str) -> Vec<f32> {
    let salt = rng.below(1000) + 1;
    let mut v = gen_vector(rng, dim, salt);
    let lane = rng.below(dim as u64) as usize;
    match class {
        "wrong_dimension_short" => {
            v.pop();
        }
        "wrong_dimension_long" => v.push(0.5),
        "empty" => v.clear(),
        "all_zero" => v.iter_mut().for_each(|x| *x = 0.0),
        "denormal_norm" => v.iter_mut().for_each(|x| *x = 1.0e-30),
        "nan" => v[lane] = f32::NAN,
        "pos_inf" => v[lane] = f32::INFINITY,
        "neg_inf" => v[lane] = f32::NEG_INFINITY,
        "overflow_norm" => v.iter_mut().for_each(|x| *x = f32::MAX),
        "huge_single_lane" => v[lane] = 3.0e38,
        _ => {}
    }
    v
}

const INVALID_CLASSES: [&str; 10] = ["wrong_dimension_short", "wrong_dimension_long", "empty", "all_zero", "denormal_norm", "nan", "pos_inf", "neg_inf", "overflow_norm", "huge_single_lane"];

pub fn gen_plan(seed: u64, run: u64, tier: &str) -> Plan {
    let mut rng = Rng::for_run(seed, "C03", run);
    let mode = if run % 2 == 0 { "invalid_input" } else { "storage_faults" };
    let fs = [Fsync::Always, Fsync::Always, Fsync::Periodic(0), Fsync::Periodic(100), Fsync::Never];
    let mut cfg = Cfg::gen(&mut rng, &fs);
    cfg.dim = *rng.pick(&[2usize, 3, 4, 8]);
    if mode == "storage_faults" && run % 50 == 1 {
        // wide batch: one batch delete over 65-140 existing documents with a fault somewhere inside its log records
        cfg.dim = 2;
        cfg.capacity = 1000;
        cfg.snap_interval = 1000;
        cfg.max_wal = 100 << 20;
        cfg.hot_soft = 1000;
        cfg.hot_hard = 2000;
        let n = rng.range(65, 140);
        let mut steps: Vec<Step> = Vec::new();
        for id in 0..n {
            steps.push(Step { op: OpK::Insert { id, vec: bits(&gen_vector(&mut rng, cfg.dim, 5000 + id)), meta: gen_meta(&mut rng, 5000 + id) }, faults: vec![], input_class: String::new() });
        }
        let errno = *rng.pick(&ERRNOS);
        let fault = match rng.below(4) {
            0 => RuleSpec { kind: "fdatasync".into(), role: Some("wal".into()), nth: 1, action: ActionSpec::Errno(errno) },
            1 => RuleSpec { kind: "fsync".into(), role: Some("wal".into()), nth: 1, action: ActionSpec::Errno(errno) },
            2 => RuleSpec { kind: "write".into(), role: Some("wal".into()), nth: rng.range(1, 3 * n) as u32, action: ActionSpec::Short(rng.range(1, 20) as usize) },
            _ => RuleSpec { kind: "write".into(), role: Some("wal".into()), nth: rng.range(1, 3 * n) as u32, action: ActionSpec::Errno(errno) },
        };
        let ids: Vec<u64> = if rng.chance(1, 2) { (0..n).collect() } else { (0..n).filter(|i| i % 7 != 3).collect() };
        steps.push(Step { op: OpK::BatchDelete { ids }, faults: vec![fault], input_class: String::new() });
        steps.push(Step { op: OpK::Restart, faults: vec![], input_class: String::new() });
        return Plan { cfg, steps, universe: n, env_seed: rng.next(), mode: mode.to_string() };
    }
    let max_ops = if tier == "thorough" { 30 } else { 16 };
    let n_ops = rng.range(3, max_ops) as usize;
    let universe = rng.range(2, 7);
    let base = gen_history(&mut rng, &cfg, &GenOpts { n_ops, id_universe: universe, restarts: true, gaps: true, flushes: true, sync_wal: false });
    let mut steps: Vec<Step> = Vec::new();
    let mut w = 1000u64;
    for op in base {
        if mode == "invalid_input" && rng.chance(1, 3) {
            let class = *rng.pick(&INVALID_CLASSES);
            let id = rng.below(universe);
            w += 1;
            let v = invalid_vector(&mut rng, cfg.dim, class);
            let meta = gen_meta(&mut rng, w);
            let bad = if cfg.tiered && rng.chance(1, 3) {
                // bulk load mixing one invalid document with 0-2 valid ones
                let mut docs = vec![(id, bits(&v), meta)];
                for _ in 0..rng.below(3) {
                    w += 1;
                    docs.push((rng.below(universe), bits(&gen_vector(&mut rng, cfg.dim, w)), gen_meta(&mut rng, w)));
                }
                rng.shuffle(&mut docs);
                OpK::BulkLoad { docs }
            } else {
                OpK::Insert { id, vec: bits(&v), meta }
            };
            steps.push(Step { op: bad, faults: vec![], input_class: class.to_string() });
        }
        let faults = if mode == "storage_faults" && !matches!(op, OpK::Gap { .. }) && rng.chance(2, 5) { gen_faults(&mut rng) } else { vec![] };
        steps.push(Step { op, faults, input_class: String::new() });
    }
    Plan { cfg, steps, universe, env_seed: rng.next(), mode: mode.to_string() }
}

pub struct Problem {
    pub clause: String,
    pub message: String,
    pub facts: BTreeMap<String, String>,
}

fn is_clear_cut_valid(metric: u8, dim: usize, v: &[f32]) -> Option<bool> {
    if v.len() != dim {
        return Some(false);
    }
    if v.iter().any(|x| !x.is_finite()) {
        return Some(false);
    }
    let ns: f64 = v.iter().map(|x| (*x as f64) * (*x as f64)).sum();
    if metric != 1 {
        if ns == 0.0 {
            return Some(false);
        }
        if ns < 1e-5 || ns > 1e37 {
            return None; // borderline: engine decides
        }
    }
    Some(true)
}

struct Exec {
    problems: Vec<Problem>,
    fired: Vec<(CallKind, Role, FaultAction)>,
    sim_ns: u64,
    steps_judged: u64,
    recoveries: u64,
    retries_slept_ns: u64,
    journal_shape: u64,
    failed_ops: u64,
    breaker_rejections: u64,
    degraded: bool,
    rollback_failed_before: bool,
}

fn classify_err(e: &str) -> &'static str {
    if e.contains("circuit breaker is open") {
        "breaker_open"
    } else if e.contains("WAL is in an inconsistent state") {
        "write_degraded"
    } else if e.contains("disk space critically low") {
        "disk_space_guard"
    } else if e.contains("HNSW index full") {
        "index_full"
    } else if e.contains("dimension mismatch") {
        "dimension"
    } else if e.contains("norm is zero") || e.contains("requires L2-normalized") {
        "norm"
    } else if e.contains("non-finite") {
        "non_finite"
    } else {
        "io_or_other"
    }
}

fn fault_label(step: &Step, fired: &[(CallKind, Role, FaultAction)]) -> String {
    if !step.input_class.is_empty() {
        return format!("input:{}", step.input_class);
    }
    if fired.is_empty() {
        return "none".to_string();
    }
    let mut parts: Vec<String> = fired
        .iter()
        .map(|(k, r, a)| {
            let act = match a {
                FaultAction::Errno(e) => match *e {
                    libc::ENOSPC => "ENOSPC".to_string(),
                    libc::EIO => "EIO".to_string(),
                    libc::EDQUOT => "EDQUOT".to_string(),
                    libc::EINTR => "EINTR".to_string(),
                    libc::EACCES => "EACCES".to_string(),
                    x => format!("errno{}", x),
                },
                FaultAction::Short(_) => "short".to_string(),
                FaultAction::LowSpace(_) => "lowspace".to_string(),
            };
            format!("{:?}.{:?}.{}", k, r, act)
        })
        .collect();
    parts.sort();
    parts.dedup();
    parts.join("+")
}

fn execute_inner(plan: &Plan) -> Exec {
    let dir = fresh_dir("c03", 0);
    let root = simlibc::register_root(&dir, None, true);
    let mut ex = Exec { problems: vec![], fired: vec![], sim_ns: 0, steps_judged: 0, recoveries: 0, retries_slept_ns: 0, journal_shape: 0xcbf29ce484222325, failed_ops: 0, breaker_rejections: 0, degraded: false, rollback_failed_before: false };
    let sleep0 = simlibc::SLEEP_TOTAL_NS.load(std::sync::atomic::Ordering::Relaxed);
    let mut model = Model::new();
    let mut eng: Option<Eng> = match Eng::create(&plan.cfg, &dir) {
        Ok(e) => Some(e),
        Err(e) => {
            ex.problems.push(Problem { clause: "create_failed".into(), message: format!("{:#}", e), facts: BTreeMap::new() });
            None
        }
    };
    let mut rep = Replayer::new(&FsImage::default());
    let mut applied = 0usize;
    let mut push = |ex: &mut Exec, clause: &str, msg: String, step_no: usize, step: &Step, label: &str, extra: &[(&str, String)]| {
        let mut facts = BTreeMap::new();
        facts.insert("op".to_string(), step.op.name().to_string());
        facts.insert("fault".to_string(), label.to_string());
        facts.insert("rollback_truncate_failed".to_string(), if label.contains("Ftruncate.") || ex.rollback_failed_before { "yes" } else { "no" }.to_string());
        facts.insert("mode".to_string(), plan.mode.clone());
        for (k, v) in extra {
            facts.insert(k.to_string(), v.clone());
        }
        ex.problems.push(Problem { clause: clause.to_string(), message: format!("step {} ({} / {}): {}", step_no, step.op.name(), label, msg), facts });
    };
    for (k, step) in plan.steps.iter().enumerate() {
        let Some(e) = eng.as_ref() else { break };
        let step_no = k + 1;
        let before = model.clone();
        simlibc::mark(root, 0, step_no as u32);
        if !step.faults.is_empty() {
            simlibc::arm_faults(step.faults.iter().map(to_rule).collect());
        }
        let mut result: Result<(), String> = Ok(());
        let mut restarted_engine: Option<Result<Eng, String>> = None;
        match &step.op {
            OpK::Gap { ns } => simlibc::clock_advance_ns(*ns),
            OpK::Restart => {
                drop(eng.take());
                restarted_engine = Some(match catch_unwind(AssertUnwindSafe(|| Eng::recover(&plan.cfg, &dir))) {
                    Ok(Ok(e2)) => Ok(e2),
                    Ok(Err(e2)) => Err(format!("{:#}", e2)),
                    Err(_) => Err("panic".to_string()),
                });
            }
            op => {
                result = match catch_unwind(AssertUnwindSafe(|| e.apply(op))) {
                    Ok(Ok(())) => Ok(()),
                    Ok(Err(e2)) => Err(format!("{:#}", e2)),
                    Err(_) => Err("panic".to_string()),
                };
            }
        }
        let fired_now = if !step.faults.is_empty() {
            simlibc::disarm_faults();
            simlibc::take_fired_log()
        } else {
            vec![]
        };
        simlibc::mark(root, 1, step_no as u32);
        let label = fault_label(step, &fired_now);
        ex.fired.extend(fired_now.iter().cloned());

        // restart handling: a start-up hit by a storage fault may fail, but a clean retry must succeed
        if let Some(r) = restarted_engine {
            match r {
                Ok(e2) => eng = Some(e2),
                Err(msg) => {
                    if fired_now.is_empty() {
                        push(&mut ex, "restart_failed_without_fault", simlibc::mask_name(&msg), step_no, step, &label, &[]);
                    }
                    match catch_unwind(AssertUnwindSafe(|| Eng::recover(&plan.cfg, &dir))) {
                        Ok(Ok(e2)) => eng = Some(e2),
                        Ok(Err(e2)) => {
                            push(&mut ex, "restart_fails_after_faulted_startup", simlibc::mask_name(&format!("{:#}", e2)), step_no, step, &label, &[]);
                            break;
                        }
                        Err(_) => {
                            push(&mut ex, "restart_panics_after_faulted_startup", String::new(), step_no, step, &label, &[]);
                            break;
                        }
                    }
                }
            }
        }
        let e = eng.as_ref().unwrap();

        // model update
        match (&step.op, &result) {
            (OpK::Insert { id, vec, meta }, Ok(())) => {
                let input = unbits(vec);
                if is_clear_cut_valid(plan.cfg.metric, plan.cfg.dim, &input) == Some(false) {
                    push(&mut ex, "invalid_input_accepted", format!("insert of an unusable vector ({}) was acknowledged", step.input_class), step_no, step, &label, &[]);
                }
                match e.backend().fetch_document(*id) {
                    Some(stored) => {
                        let pinned = match pin_vector(plan.cfg.metric, vec, &stored) {
                            Ok(b) => b,
                            Err(m) => {
                                if is_clear_cut_valid(plan.cfg.metric, plan.cfg.dim, &input) == Some(true) {
                                    push(&mut ex, "stored_vector_wrong", m, step_no, step, &label, &[]);
                                }
                                bits(&stored)
                            }
                        };
                        model.insert(*id, (pinned, meta.clone()));
                    }
                    None => {
                        push(&mut ex, "acked_insert_not_readable", format!("id {}", id), step_no, step, &label, &[]);
                    }
                }
            }
            (OpK::BulkLoad { docs }, Ok(())) => {
                // per-item outcome is only a count; attribute by validity for clear-cut classes, by live state otherwise
                for (id, vec, meta) in docs {
                    let input = unbits(vec);
                    let verdict = is_clear_cut_valid(plan.cfg.metric, plan.cfg.dim, &input);
                    let live = e.backend().fetch_document(*id);
                    let live_meta = e.backend().fetch_metadata(*id).map(|m| to_btree(&m));
                    let applied_now = live_meta.as_ref() == Some(meta) && live.is_some();
                    match verdict {
                        Some(false) => {} // must not be applied; the live==model check below decides
                        Some(true) | None => {
                            if applied_now {
                                model.insert(*id, (bits(&live.unwrap()), meta.clone()));
                            } else if verdict == Some(true) {
                                // a valid item may only fail for a storage/capacity reason; the count is not
                                // visible here, so accept the live state (not applied) -- nothing else may differ
                            }
                        }
                    }
                }
            }
            (op, Ok(())) => model_apply(&mut model, op),
            (_, Err(_)) => {}
        }
        if let Err(msg) = &result {
            ex.failed_ops += 1;
            let class = classify_err(msg);
            if class == "breaker_open" {
                ex.breaker_rejections += 1;
            }
            if class == "write_degraded" {
                ex.degraded = true;
            }
            if msg == "panic" {
                push(&mut ex, "operation_panicked", String::new(), step_no, step, &label, &[]);
            }
        }
        // journal bookkeeping
        let j = simlibc::journal_snapshot(root);
        for eff in &j[applied..] {
            rep.step(eff);
            let kk = match eff {
                Effect::Mark { kind, .. } => 100 + *kind as u64,
                _ => eff.kind_name().len() as u64,
            };
            ex.journal_shape = (ex.journal_shape ^ kk).wrapping_mul(0x100000001b3);
        }
        applied = j.len();

        // oracle 1: live census == model after every step
        ex.steps_judged += 1;
        let live = census(e.backend(), plan.universe);
        if let Err(m) = census_matches(&live, &model) {
            let clause = if result.is_err() { "failed_write_changed_live_state" } else { "live_differs_from_model" };
            let diff = crate::hist::diff_census(&census_of_model(&before), &live);
            push(&mut ex, clause, format!("{} (result: {}) [change vs before the call: {}]", m, result.as_ref().err().map(|s| simlibc::mask_name(s)).unwrap_or_else(|| "ok".into()), diff), step_no, step, &label, &[("err_class", result.as_ref().err().map(|s| classify_err(s).to_string()).unwrap_or_else(|| "ok".into()))]);
            // keep going with the live state as the new baseline so that one defect is one report
            model = live.docs.clone();
        }
        // oracle 2: what a restart would see (kill model) == model
        let judge_recovery = result.is_err() || !step.faults.is_empty() || !step.input_class.is_empty() || k + 1 == plan.steps.len() || k % 4 == 3;
        if judge_recovery {
            ex.recoveries += 1;
            let img = rep.kill_image();
            let rr = recover_on_image(&plan.cfg, &img, plan.universe, "c03r", 0);
            let err_class = result.as_ref().err().map(|s| classify_err(s).to_string()).unwrap_or_else(|| "ok".into());
            match rr.outcome {
                Outcome::Recovered(c) => {
                    if let Err(m) = census_matches(&c, &model) {
                        let clause = if result.is_err() { "failed_write_changed_recovered_state" } else { "acknowledged_but_not_recoverable" };
                        push(&mut ex, clause, format!("restart from the directory as of this step: {} (result: {})", m, result.as_ref().err().map(|s| simlibc::mask_name(s)).unwrap_or_else(|| "ok".into())), step_no, step, &label, &[("err_class", err_class)]);
                    }
                }
                Outcome::Refused(emsg) => {
                    if let Ok(d) = std::env::var("VSIM_DUMP_IMAGE") {
                        let _b = simlibc::Bypass::new();
                        let _ = std::fs::create_dir_all(&d);
                        img.dump(&d);
                        let j = simlibc::journal_snapshot(root);
                        let names = |i: u64| format!("ino{}", i);
                        let text: Vec<String> = j.iter().map(|e| e.describe(&names)).collect();
                        let _ = std::fs::write(format!("{}/journal.txt", d), text.join("\n"));
                    }
                    let short: String = simlibc::mask_name(&emsg).chars().take(110).collect();
                    push(&mut ex, "restart_refused_after_step", format!("strict start-up refuses the directory as of this step: {} (result of the call: {})", simlibc::mask_name(&emsg), result.as_ref().err().map(|s| simlibc::mask_name(s)).unwrap_or_else(|| "ok".into())), step_no, step, &label, &[("err_class", err_class), ("error", short)]);
                }
                Outcome::Panicked => push(&mut ex, "restart_panics_after_step", String::new(), step_no, step, &label, &[]),
            }
        }
        if label.contains("Ftruncate.") {
            ex.rollback_failed_before = true;
        }
        if !ex.problems.is_empty() {
            // one defect, one report: later steps of this run would only repeat the divergence
            break;
        }
    }
    drop(eng.take());
    simlibc::unregister_root(root);
    remove_dir(&dir);
    ex.sim_ns = simlibc::clock_now_ns() - simlibc::EPOCH_NS;
    ex.retries_slept_ns = simlibc::SLEEP_TOTAL_NS.load(std::sync::atomic::Ordering::Relaxed) - sleep0;
    ex
}

fn census_of_model(m: &Model) -> Census {
    Census { docs: m.clone(), scan: m.keys().copied().collect(), len: m.len(), inconsistent: vec![] }
}

pub fn execute(plan: &Plan, sum: &mut Summary) -> Vec<Problem> {
    reset_env(plan.env_seed);
    let p2 = plan.clone();
    match on_fresh_thread(move || execute_inner(&p2)) {
        Ok(ex) => {
            sum.sim_time_ns += ex.sim_ns;
            sum.evaluations += ex.steps_judged + ex.recoveries;
            sum.count("steps_judged_live", ex.steps_judged);
            sum.count("recoveries_judged", ex.recoveries);
            sum.count("operations_that_reported_failure", ex.failed_ops);
            for (k, r, a) in &ex.fired {
                let act = match a {
                    FaultAction::Errno(e) => format!("errno{}", e),
                    FaultAction::Short(_) => "short_write".to_string(),
                    FaultAction::LowSpace(_) => "low_space".to_string(),
                };
                sum.fault(&format!("{:?}.{:?}.{}", k, r, act), 1);
            }
            if ex.retries_slept_ns > 0 {
                sum.probe("retry_backoff_slept", 1);
            }
            if ex.breaker_rejections > 0 {
                sum.probe("circuit_breaker_rejected_a_write", 1);
            }
            if ex.degraded {
                sum.probe("write_degraded_backend_refused_write", 1);
            }
            if ex.fired.iter().any(|(k, _, _)| *k == CallKind::Ftruncate) {
                sum.probe("fault_inside_rollback_truncate", 1);
            }
            if ex.fired.iter().any(|(k, _, _)| *k == CallKind::Statvfs) {
                sum.probe("disk_space_guard_fault", 1);
            }
            if ex.failed_ops > 0 {
                sum.distinct_hash(ex.journal_shape);
            }
            ex.problems
        }
        Err(p) => {
            simlibc::disarm_faults();
            vec![Problem { clause: "harness_thread_panicked".into(), message: p, facts: BTreeMap::new() }]
        }
    }
}

fn key_of(p: &Problem) -> String {
    let mut s = format!("C03|{}", p.clause);
    for (k, v) in &p.facts {
        s.push_str(&format!("|{}={}", k, v));
    }
    s
}

fn minimise(plan: &Plan, key: &str, budget: usize) -> Plan {
    let mut best = plan.clone();
    let mut scratch = Summary::new("C03", 0);
    let mut tries = 0;
    let mut chunk = (best.steps.len() / 2).max(1);
    loop {
        let mut i = 0;
        let mut progress = false;
        while i < best.steps.len() && tries < budget {
            let mut cand = best.clone();
            let end = (i + chunk).min(cand.steps.len());
            cand.steps.drain(i..end);
            tries += 1;
            if execute(&cand, &mut scratch).iter().any(|p| key_of(p) == key) {
                best = cand;
                progress = true;
            } else {
                i += chunk;
            }
        }
        if tries >= budget || (chunk == 1 && !progress) {
            break;
        }
        if chunk > 1 {
            chunk /= 2;
        }
    }
    // drop individual fault rules
    let mut k = 0;
    while k < best.steps.len() && tries < budget + 30 {
        let mut f = 0;
        while f < best.steps[k].faults.len() && tries < budget + 30 {
            let mut cand = best.clone();
            cand.steps[k].faults.remove(f);
            tries += 1;
            if execute(&cand, &mut scratch).iter().any(|p| key_of(p) == key) {
                best = cand;
            } else {
                f += 1;
            }
        }
        k += 1;
    }
    best
}

pub fn run_batch(seed: u64, start: u64, count: u64, tier: &str, budget_ms: u64, sum: &mut Summary) {
    let t0 = simlibc::real_now_ns();
    for run in start..start + count {
        if budget_ms > 0 && (simlibc::real_now_ns() - t0) / 1_000_000 > budget_ms {
            break;
        }
        let plan = gen_plan(seed, run, tier);
        let problems = execute(&plan, sum);
        sum.runs += 1;
        if sum.runs <= 3 {
            sum.sample(json!({"run": run, "mode": plan.mode, "cfg": plan.cfg, "steps": plan.steps.len(), "faulted_steps": plan.steps.iter().filter(|s| !s.faults.is_empty()).take(2).collect::<Vec<_>>(), "invalid_steps": plan.steps.iter().filter(|s| !s.input_class.is_empty()).map(|s| s.input_class.clone()).collect::<Vec<_>>() }));
        }
        for p in problems {
            let key = key_of(&p);
            if !sum.class_first(&key) || sum.violations.len() >= 12 {
                continue;
            }
            let m = if sum.violations.len() < 6 { minimise(&plan, &key, 80) } else { plan.clone() };
            let mut scratch = Summary::new("C03", 0);
            let msg = execute(&m, &mut scratch).into_iter().find(|x| key_of(x) == key).map(|x| x.message).unwrap_or(p.message.clone());
            sum.violations.push(Violation {
                property: "C03".into(),
                clause: p.clause.clone(),
                facts: p.facts.clone(),
                message: msg,
                seed,
                run,
                replay: serde_json::to_value(Replay { check: "C03".into(), plan: m, clause: p.clause.clone() }).unwrap(),
                minimised: true,
                original: Some(json!({"plan": plan, "message": p.message})),
            });
        }
    }
}

pub fn replay(v: &serde_json::Value, sum: &mut Summary) -> Result<(), String> {
    let r: Replay = serde_json::from_value(v.clone()).map_err(|e| e.to_string())?;
    let problems = execute(&r.plan, sum);
    sum.runs = 1;
    for p in problems {
        sum.violations.push(Violation { property: "C03".into(), clause: p.clause.clone(), facts: p.facts.clone(), message: p.message, seed: 0, run: 0, replay: v.clone(), minimised: true, original: None });
    }
    Ok(())
}
