//! Shared plan types, generators, reference model, engine wrapper and census.

use crate::rng::Rng;
use kyrodb_engine::cache_strategy::{CacheStrategy, LruCacheStrategy};
use kyrodb_engine::config::DistanceMetric;
use kyrodb_engine::metrics::MetricsCollector;
use kyrodb_engine::{FsyncPolicy, HnswBackend, QueryHashCache, TieredEngine, TieredEngineConfig};
use serde::{Deserialize, Serialize};
use std::collections::{BTreeMap, BTreeSet, HashMap};
use std::sync::Arc;
use std::time::Duration;

pub type Meta = BTreeMap<String, String>;
pub type Doc = (Vec<u32>, Meta);
pub type Model = BTreeMap<u64, Doc>;

#[derive(Clone, Copy, Debug, PartialEq, Eq, Serialize, Deserialize)]
pub enum Fsync {
    Always,
    Periodic(u64),
    Never,
}

impl Fsync {
    pub fn to_engine(self) -> FsyncPolicy {
        match self {
            Fsync::Always => FsyncPolicy::Always,
            Fsync::Periodic(ms) => FsyncPolicy::Periodic(ms),
            Fsync::Never => FsyncPolicy::Never,
        }
    }
}

#[derive(Clone, Debug, PartialEq, Serialize, Deserialize)]
pub struct Cfg {
    pub metric: u8, // 0 cosine, 1 euclidean, 2 inner product
    pub dim: usize,
    pub fsync: Fsync,
    pub snap_interval: usize,
    pub max_wal: u64,
    pub capacity: usize,
    pub tiered: bool,
    pub hot_soft: usize,
    pub hot_hard: usize,
    pub cache_cap: usize,
}

impl Cfg {
    pub fn metric(&self) -> DistanceMetric {
        match self.metric {
            0 => DistanceMetric::Cosine,
            1 => DistanceMetric::Euclidean,
            _ => DistanceMetric::InnerProduct,
        }
    }
    pub fn gen(rng: &mut Rng, fsync_choices: &[Fsync]) -> Cfg {
        Cfg {
            metric: rng.below(3) as u8,
            dim: *rng.pick(&[1usize, 3, 4, 8, 17]),
            fsync: *rng.pick(fsync_choices),
            snap_interval: *rng.pick(&[0usize, 1, 2, 3, 7, 1000]),
            max_wal: *rng.pick(&[1u64, 200, 2048, 100 << 20]),
            capacity: *rng.pick(&[4usize, 16, 1000]),
            tiered: rng.chance(1, 3),
            hot_soft: *rng.pick(&[1usize, 2, 100]),
            hot_hard: *rng.pick(&[1usize, 2, 3, 200]),
            cache_cap: *rng.pick(&[1usize, 2, 50]),
        }
    }
}

#[derive(Clone, Debug, PartialEq, Serialize, Deserialize)]
pub enum OpK {
    Insert { id: u64, vec: Vec<u32>, meta: Meta },
    Delete { id: u64 },
    BatchDelete { ids: Vec<u64> },
    UpdateMeta { id: u64, meta: Meta, merge: bool },
    Snapshot,
    Restart,
    /// advance the simulated clock
    Gap { ns: u64 },
    /// tiered engines only: drain the recent-write tier
    Flush { force: bool },
    /// fsync the log explicitly (what a periodic maintenance task would do)
    SyncWal,
    /// tiered engines only: bulk load that bypasses the recent-write tier
    BulkLoad { docs: Vec<(u64, Vec<u32>, Meta)> },
}

impl OpK {
    pub fn name(&self) -> &'static str {
        match self {
            OpK::Insert { .. } => "insert",
            OpK::Delete { .. } => "delete",
            OpK::BatchDelete { .. } => "batch_delete",
            OpK::UpdateMeta { .. } => "update_metadata",
            OpK::Snapshot => "create_snapshot",
            OpK::Restart => "restart",
            OpK::Gap { .. } => "gap",
            OpK::Flush { .. } => "flush_hot_tier",
            OpK::SyncWal => "sync_wal",
            OpK::BulkLoad { .. } => "bulk_load",
        }
    }
    pub fn is_write(&self) -> bool {
        matches!(self, OpK::Insert { .. } | OpK::Delete { .. } | OpK::BatchDelete { .. } | OpK::UpdateMeta { .. } | OpK::BulkLoad { .. })
    }
}

pub fn bits(v: &[f32]) -> Vec<u32> {
    v.iter().map(|x| x.to_bits()).collect()
}
pub fn unbits(v: &[u32]) -> Vec<f32> {
    v.iter().map(|x| f32::from_bits(*x)).collect()
}
pub fn to_hash(m: &Meta) -> HashMap<String, String> {
    m.iter().map(|(k, v)| (k.clone(), v.clone())).collect()
}
pub fn to_btree(m: &HashMap<String, String>) -> Meta {
    m.iter().map(|(k, v)| (k.clone(), v.clone())).collect()
}

/// A finite, non-degenerate vector: classes cover exactly-normalised, far from normalised, inside the
/// [0.98, 1.02] no-renormalise band, axis vectors, negative lanes and tiny/huge magnitudes.
pub fn gen_vector(rng: &mut Rng, dim: usize, salt: u64) -> Vec<f32> {
    let class = rng.below(6);
    let mut v: Vec<f32> = (0..dim).map(|_| (rng.below(17) as f32 - 8.0) / 8.0).collect();
    // make sure it is non-zero and distinct per write
    let lane = (salt as usize) % dim;
    v[lane] += 1.0 + (salt % 97) as f32 / 128.0;
    let norm = v.iter().map(|x| (*x as f64) * (*x as f64)).sum::<f64>().sqrt();
    match class {
        0 => {
            // axis-like
            let mut a = vec![0.0f32; dim];
            a[lane] = *rng.pick(&[1.0f32, -1.0, 2.5, 0.5, -3.0]) + (salt % 13) as f32 / 64.0;
            if a[lane] == 0.0 {
                a[lane] = 1.0;
            }
            a
        }
        1 => v.iter().map(|x| (*x as f64 / norm) as f32).collect(),
        2 => {
            let s = *rng.pick(&[0.99f64, 0.995, 1.005, 1.0095]);
            v.iter().map(|x| (*x as f64 / norm * s) as f32).collect()
        }
        3 => v.iter().map(|x| x * 100.0).collect(),
        4 => v.iter().map(|x| x * 0.01).collect(),
        _ => v,
    }
}

pub fn gen_meta(rng: &mut Rng, write_no: u64) -> Meta {
    let mut m = Meta::new();
    m.insert("w".to_string(), write_no.to_string());
    if rng.chance(2, 3) {
        m.insert("k".to_string(), rng.pick(&["5", "05", "a", "", "10", "-0", "é", "5.0"]).to_string());
    }
    if rng.chance(1, 3) {
        m.insert("tag".to_string(), rng.pick(&["x", "y", "long-value-abcdefghijklmnopqrstuvwxyz"]).to_string());
    }
    m
}

pub struct GenOpts {
    pub n_ops: usize,
    pub id_universe: u64,
    pub restarts: bool,
    pub gaps: bool,
    pub flushes: bool,
    pub sync_wal: bool,
}

/// History generator shared by C01/C02/C09/C11/C13.
pub fn gen_history(rng: &mut Rng, cfg: &Cfg, o: &GenOpts) -> Vec<OpK> {
    let mut ops = Vec::new();
    let mut write_no = 0u64;
    for _ in 0..o.n_ops {
        let r = rng.below(100);
        let id = rng.below(o.id_universe);
        let op = if r < 45 {
            write_no += 1;
            // Euclidean collections may hold the origin (and signed zeros): legal documents that look like empty slots
            let vec = if cfg.metric == 1 && rng.chance(1, 14) {
                match rng.below(3) {
                    0 => vec![0.0f32; cfg.dim],
                    1 => vec![-0.0f32; cfg.dim],
                    _ => (0..cfg.dim).map(|i| if i % 2 == 0 { 0.0f32 } else { -0.0 }).collect(),
                }
            } else {
                gen_vector(rng, cfg.dim, write_no)
            };
            OpK::Insert { id, vec: bits(&vec), meta: gen_meta(rng, write_no) }
        } else if r < 58 {
            OpK::Delete { id }
        } else if r < 66 {
            let n = rng.range(1, 4);
            let ids = (0..n).map(|_| rng.below(o.id_universe + 1)).collect();
            OpK::BatchDelete { ids }
        } else if r < 78 {
            write_no += 1;
            OpK::UpdateMeta { id, meta: gen_meta(rng, write_no), merge: rng.chance(1, 2) }
        } else if r < 84 {
            OpK::Snapshot
        } else if r < 90 && o.restarts {
            OpK::Restart
        } else if r < 95 && o.gaps {
            OpK::Gap { ns: *rng.pick(&[1_000u64, 50_000_000, 150_000_000, 1_000_000_000, 6_000_000_000, 61_000_000_000, 3_600_000_000_000]) }
        } else if r < 97 && o.flushes && cfg.tiered {
            OpK::Flush { force: rng.chance(1, 2) }
        } else if r < 99 && o.sync_wal {
            OpK::SyncWal
        } else {
            write_no += 1;
            OpK::Insert { id, vec: bits(&gen_vector(rng, cfg.dim, write_no)), meta: gen_meta(rng, write_no) }
        };
        ops.push(op);
    }
    ops
}

// ------------------------------------------------------------------------------------------------
// engine wrapper

pub enum Eng {
    B(HnswBackend),
    T(TieredEngine),
}

fn tiered_config(cfg: &Cfg, dir: Option<&str>) -> TieredEngineConfig {
    TieredEngineConfig {
        hot_tier_max_size: cfg.hot_soft,
        hot_tier_hard_limit: cfg.hot_hard,
        hot_tier_max_age: Duration::from_secs(60),
        hnsw_max_elements: cfg.capacity,
        embedding_dimension: cfg.dim,
        hnsw_distance: cfg.metric(),
        data_dir: dir.map(|s| s.to_string()),
        fsync_policy: cfg.fsync.to_engine(),
        snapshot_interval: cfg.snap_interval,
        max_wal_size_bytes: cfg.max_wal,
        ..Default::default()
    }
}

fn strategy(cfg: &Cfg) -> Box<dyn CacheStrategy> {
    Box::new(LruCacheStrategy::new(cfg.cache_cap))
}

impl Eng {
    pub fn create(cfg: &Cfg, dir: &str) -> anyhow::Result<Eng> {
        if cfg.tiered {
            let qc = Arc::new(QueryHashCache::new(cfg.cache_cap.max(1), 1.0));
            Ok(Eng::T(TieredEngine::new(strategy(cfg), qc, vec![], vec![], tiered_config(cfg, Some(dir)))?))
        } else {
            Ok(Eng::B(HnswBackend::with_persistence(
                cfg.dim,
                cfg.metric(),
                vec![],
                vec![],
                cfg.capacity,
                dir,
                cfg.fsync.to_engine(),
                cfg.snap_interval,
                cfg.max_wal,
            )?))
        }
    }
    pub fn recover(cfg: &Cfg, dir: &str) -> anyhow::Result<Eng> {
        if cfg.tiered {
            let qc = Arc::new(QueryHashCache::new(cfg.cache_cap.max(1), 1.0));
            Ok(Eng::T(TieredEngine::recover(strategy(cfg), qc, dir, tiered_config(cfg, Some(dir)))?))
        } else {
            Ok(Eng::B(HnswBackend::recover(
                cfg.dim,
                cfg.metric(),
                dir,
                cfg.capacity,
                cfg.fsync.to_engine(),
                cfg.snap_interval,
                cfg.max_wal,
                MetricsCollector::new(),
            )?))
        }
    }
    pub fn backend(&self) -> &HnswBackend {
        match self {
            Eng::B(b) => b,
            Eng::T(t) => t.cold_tier(),
        }
    }
    /// Apply one write-type operation. Ok(Some(changed_description)) on success.
    pub fn apply(&self, op: &OpK) -> anyhow::Result<()> {
        match (self, op) {
            (Eng::B(b), OpK::Insert { id, vec, meta }) => b.insert(*id, unbits(vec), to_hash(meta)),
            (Eng::T(t), OpK::Insert { id, vec, meta }) => t.insert(*id, unbits(vec), to_hash(meta)),
            (Eng::B(b), OpK::Delete { id }) => b.delete(*id).map(|_| ()),
            (Eng::T(t), OpK::Delete { id }) => t.delete(*id).map(|_| ()),
            (Eng::B(b), OpK::BatchDelete { ids }) => b.batch_delete(ids).map(|_| ()),
            (Eng::T(t), OpK::BatchDelete { ids }) => t.batch_delete(ids).map(|_| ()),
            (Eng::B(b), OpK::UpdateMeta { id, meta, merge }) => b.update_metadata(*id, to_hash(meta), *merge).map(|_| ()),
            (Eng::T(t), OpK::UpdateMeta { id, meta, merge }) => t.update_metadata(*id, to_hash(meta), *merge).map(|_| ()),
            (e, OpK::Snapshot) => e.backend().create_snapshot(),
            (Eng::T(t), OpK::Flush { force }) => t.flush_hot_tier(*force).map(|_| ()),
            (Eng::B(_), OpK::Flush { .. }) => Ok(()),
            (e, OpK::SyncWal) => e.backend().sync_wal(),
            (Eng::T(t), OpK::BulkLoad { docs }) => t.bulk_load_cold_tier(docs.iter().map(|(i, v, m)| (*i, unbits(v), to_hash(m))).collect()).map(|_| ()),
            (Eng::B(b), OpK::BulkLoad { docs }) => {
                for (i, v, m) in docs {
                    let _ = b.insert(*i, unbits(v), to_hash(m));
                }
                Ok(())
            }
            (_, OpK::Restart) | (_, OpK::Gap { .. }) => Ok(()),
        }
    }
}

/// Apply an acknowledged operation to the reference model. For inserts the stored bits are pinned from the
/// live engine by the caller (normalisation), see `pin_vector`.
pub fn model_apply(m: &mut Model, op: &OpK) {
    match op {
        OpK::Insert { id, vec, meta } => {
            m.insert(*id, (vec.clone(), meta.clone()));
        }
        OpK::Delete { id } => {
            m.remove(id);
        }
        OpK::BatchDelete { ids } => {
            for id in ids {
                m.remove(id);
            }
        }
        OpK::BulkLoad { docs } => {
            for (id, vec, meta) in docs {
                m.insert(*id, (vec.clone(), meta.clone()));
            }
        }
        OpK::UpdateMeta { id, meta, merge } => {
            if let Some(d) = m.get_mut(id) {
                if *merge {
                    for (k, v) in meta {
                        d.1.insert(k.clone(), v.clone());
                    }
                } else {
                    d.1 = meta.clone();
                }
            }
        }
        _ => {}
    }
}

/// Which stored forms are acceptable for an input under a metric: the input itself (Euclidean; or squared
/// norm inside [0.98, 1.02] for Cosine/InnerProduct) and/or its normalisation x/|x|. Close to the band edge an
/// f32 sum of squares is not predictable from the f64 one, so both forms are accepted there.
pub fn expected_stored(metric: u8, input: &[f32]) -> (bool, Option<Vec<f32>>) {
    if metric == 1 {
        return (true, None);
    }
    let ns: f64 = input.iter().map(|x| (*x as f64) * (*x as f64)).sum();
    let n = ns.sqrt();
    let normalised: Option<Vec<f32>> = if ns > 0.0 && ns.is_finite() { Some(input.iter().map(|x| (*x as f64 / n) as f32).collect()) } else { None };
    if (0.9805..=1.0195).contains(&ns) {
        (true, None)
    } else if (0.9795..=1.0205).contains(&ns) {
        (true, normalised)
    } else {
        (false, normalised)
    }
}

pub fn ulp_close(a: f32, b: f32, ulps: u32) -> bool {
    if a == b {
        return true;
    }
    if !a.is_finite() || !b.is_finite() {
        return false;
    }
    if (a - b).abs() <= 4.0 * f32::MIN_POSITIVE {
        return true;
    }
    let (ia, ib) = (a.to_bits() as i64, b.to_bits() as i64);
    if (a < 0.0) != (b < 0.0) {
        return false;
    }
    (ia - ib).unsigned_abs() <= ulps as u64
}

/// Check that what the live engine stored for an insert is an acceptable form of the input; returns the pinned bits.
pub fn pin_vector(metric: u8, input_bits: &[u32], stored: &[f32]) -> Result<Vec<u32>, String> {
    let input = unbits(input_bits);
    let (raw_ok, normalised) = expected_stored(metric, &input);
    if stored.len() != input.len() {
        return Err(format!("stored dimension {} != {}", stored.len(), input.len()));
    }
    if raw_ok && stored.iter().zip(input.iter()).all(|(a, b)| a.to_bits() == b.to_bits()) {
        return Ok(bits(stored));
    }
    if let Some(n) = &normalised {
        if stored.iter().zip(n.iter()).all(|(a, b)| ulp_close(*a, *b, 8)) {
            return Ok(bits(stored));
        }
    }
    Err(format!("stored vector {:?} is neither the input {:?} (allowed: {}) nor its normalisation {:?}", stored, input, raw_ok, normalised))
}

#[derive(Clone, Debug, PartialEq, Eq, Serialize, Deserialize)]
pub struct Census {
    pub docs: Model,
    pub scan: BTreeSet<u64>,
    pub len: usize,
    pub inconsistent: Vec<String>,
}

pub fn census(b: &HnswBackend, universe: u64) -> Census {
    let mut docs = Model::new();
    let mut inconsistent = Vec::new();
    let scan: BTreeSet<u64> = b.scan(|_| true).into_iter().collect();
    let mut probe: BTreeSet<u64> = (0..universe + 2).collect();
    probe.extend(scan.iter().copied());
    for id in probe {
        let v = b.fetch_document(id);
        let m = b.fetch_metadata(id);
        let e = b.exists(id);
        match (v, m) {
            (Some(v), Some(m)) => {
                if !e {
                    inconsistent.push(format!("id {}: fetch says present, exists says absent", id));
                }
                docs.insert(id, (bits(&v), to_btree(&m)));
            }
            (None, None) => {
                if e {
                    inconsistent.push(format!("id {}: exists says present, fetch says absent", id));
                }
            }
            (a, b2) => inconsistent.push(format!("id {}: vector present={} metadata present={}", id, a.is_some(), b2.is_some())),
        }
    }
    let bulk_ids: Vec<u64> = docs.keys().copied().collect();
    for (id, r) in bulk_ids.iter().zip(b.bulk_fetch(&bulk_ids)) {
        match r {
            Some((v, m)) => {
                if docs.get(id) != Some(&(bits(&v), to_btree(&m))) {
                    inconsistent.push(format!("id {}: bulk_fetch differs from fetch", id));
                }
            }
            None => inconsistent.push(format!("id {}: bulk_fetch absent", id)),
        }
    }
    Census { docs, scan, len: b.len(), inconsistent }
}

pub fn census_matches(c: &Census, m: &Model) -> Result<(), String> {
    if !c.inconsistent.is_empty() {
        return Err(format!("inconsistent reads: {}", c.inconsistent.join("; ")));
    }
    let keys: BTreeSet<u64> = m.keys().copied().collect();
    let ckeys: BTreeSet<u64> = c.docs.keys().copied().collect();
    if keys != ckeys {
        let missing: Vec<_> = keys.difference(&ckeys).collect();
        let extra: Vec<_> = ckeys.difference(&keys).collect();
        return Err(format!("id set differs: missing {:?}, unexpected {:?}", missing, extra));
    }
    if c.scan != keys {
        return Err(format!("scan() ids {:?} != expected {:?}", c.scan, keys));
    }
    if c.len != m.len() {
        return Err(format!("len() {} != expected {}", c.len, m.len()));
    }
    for (id, d) in m {
        let got = &c.docs[id];
        if got.0 != d.0 {
            return Err(format!("id {}: vector bits differ: got {:?} expected {:?}", id, unbits(&got.0), unbits(&d.0)));
        }
        if got.1 != d.1 {
            return Err(format!("id {}: metadata differs: got {:?} expected {:?}", id, got.1, d.1));
        }
    }
    Ok(())
}

pub fn mask_digits(s: &str) -> String {
    // scratch paths (process id, driver-chosen parent) must not reach anything that is compared between runs
    let parent = std::env::var("VERIF_SCRATCH").unwrap_or_else(|_| "/dev/shm".to_string());
    let cleaned = s.replace(&format!("{}/kyro-verif.{}", parent, std::process::id()), "<scratch>").replace(&parent, "<scratch-parent>");
    crate::simlibc::mask_name(&cleaned)
}

/// Scratch directory on tmpfs, unique per process, removed at exit by the driver (and by `cleanup`).
pub fn scratch_base() -> String {
    // the driver hands every worker a parent directory of its own (VERIF_SCRATCH), so that concurrent check runs never
    // see -- or clean up -- each other's files
    let parent = std::env::var("VERIF_SCRATCH").unwrap_or_else(|_| "/dev/shm".to_string());
    let base = format!("{}/kyro-verif.{}", parent, std::process::id());
    let _b = crate::simlibc::Bypass::new();
    let _ = std::fs::create_dir_all(&base);
    base
}

pub fn fresh_dir(tag: &str, n: u64) -> String {
    let d = format!("{}/{}-{}", scratch_base(), tag, n);
    let _b = crate::simlibc::Bypass::new();
    let _ = std::fs::remove_dir_all(&d);
    std::fs::create_dir_all(&d).expect("create scratch dir");
    d
}

pub fn remove_dir(d: &str) {
    let _b = crate::simlibc::Bypass::new();
    let _ = std::fs::remove_dir_all(d);
}

pub fn cleanup() {
    let _b = crate::simlibc::Bypass::new();
    let parent = std::env::var("VERIF_SCRATCH").unwrap_or_else(|_| "/dev/shm".to_string());
    let _ = std::fs::remove_dir_all(format!("{}/kyro-verif.{}", parent, std::process::id()));
}
