//! C01: acknowledged writes survive a crash at any instant; restart always succeeds.
//! Histories sampled; inside each history every effect boundary is a crash point (kill model), every write
//! gets torn variants, and (fsync Always / Periodic) several power-loss states per boundary.

use crate::common::*;
use crate::crash::{image_digest, Replayer, Variant};
use crate::hist::*;
use crate::report::{Summary, Violation};
use crate::rng::Rng;
use crate::simlibc::{self, mask_name, Effect, FsImage};
use serde::{Deserialize, Serialize};
use serde_json::json;
use std::collections::BTreeMap;
use std::panic::{catch_unwind, AssertUnwindSafe};

#[derive(Clone, Debug, PartialEq, Serialize, Deserialize)]
pub struct CrashSpec {
    pub index: usize,
    pub variant: Variant,
    /// crash inside the journal of the recovery that follows the first crash
    pub second: Option<(usize, Variant)>,
}

#[derive(Clone, Debug, Serialize, Deserialize)]
pub struct Replay {
    pub check: String,
    pub plan: Plan,
    pub crash: CrashSpec,
    pub clause: String,
}

pub fn gen_plan(seed: u64, run: u64, tier: &str) -> Plan {
    let mut rng = Rng::for_run(seed, "C01", run);
    let fs = [Fsync::Always, Fsync::Always, Fsync::Always, Fsync::Periodic(0), Fsync::Periodic(100), Fsync::Periodic(5000), Fsync::Never];
    let cfg = Cfg::gen(&mut rng, &fs);
    let max_ops = if tier == "thorough" { 40 } else { 24 };
    let n_ops = rng.range(3, max_ops) as usize;
    let universe = rng.range(2, 8);
    let sync_wal = rng.chance(1, 4);
    let ops = gen_history(&mut rng, &cfg, &GenOpts { n_ops, id_universe: universe, restarts: true, gaps: true, flushes: true, sync_wal });
    Plan { cfg, ops, universe, env_seed: rng.next() }
}

#[derive(Clone, Debug)]
pub struct Expect {
    pub acked: Model,
    pub inflight: Option<(Model, String)>,
    /// creation of the engine had not been acknowledged yet: a start-up that finds no MANIFEST may refuse
    pub before_create_ack: bool,
    pub inflight_kind: String,
    pub inflight_batch: Option<(Model, Vec<u64>)>,
    /// Periodic clause: per-op acknowledgement times for the reachable-set oracle
    pub acked_upto: usize,
}

pub fn expectation(recs: &[OpRec], i: usize) -> Expect {
    // i = number of journal entries that happened before the crash
    let mut acked = Model::new();
    let mut acked_upto = 0;
    let mut inflight = None;
    let mut inflight_kind = "none".to_string();
    let mut inflight_batch = None;
    let mut before_create_ack = false;
    for (k, r) in recs.iter().enumerate() {
        if r.end < i {
            acked = r.model_after.clone();
            acked_upto = k + 1;
        } else if r.begin < i {
            // in flight at the crash
            if k == 0 {
                before_create_ack = true;
                inflight_kind = "create".to_string();
            } else {
                inflight_kind = r.pinned.name().to_string();
                if r.ok && r.pinned.is_write() {
                    inflight = Some((r.model_after.clone(), inflight_kind.clone()));
                    if let OpK::BatchDelete { ids } = &r.pinned {
                        inflight_batch = Some((acked.clone(), ids.clone()));
                    }
                }
            }
            break;
        } else {
            if k == 0 {
                before_create_ack = true;
            }
            break;
        }
    }
    Expect { acked, inflight, before_create_ack, inflight_kind, inflight_batch, acked_upto }
}

#[derive(Clone, Debug)]
pub enum Outcome {
    Recovered(Census),
    Refused(String),
    Panicked,
}

pub struct RecoverRun {
    pub outcome: Outcome,
    pub journal: Vec<Effect>,
}

pub fn recover_on_image(cfg: &Cfg, img: &FsImage, universe: u64, tag: &str, n: u64) -> RecoverRun {
    let dir = fresh_dir(tag, n);
    img.dump(&dir);
    let root = simlibc::register_root(&dir, Some(img), true);
    let r = catch_unwind(AssertUnwindSafe(|| Eng::recover(cfg, &dir)));
    let outcome = match r {
        Ok(Ok(e)) => {
            let c = census(e.backend(), universe);
            drop(e);
            Outcome::Recovered(c)
        }
        Ok(Err(e)) => Outcome::Refused(format!("{:#}", e)),
        Err(_) => Outcome::Panicked,
    };
    let journal = simlibc::unregister_root(root);
    remove_dir(&dir);
    RecoverRun { outcome, journal }
}

/// Periodic-fsync clause under power loss: per id, the recovered state must be reachable by applying all "old"
/// acknowledged operations on that id, in order, plus an order-preserving subsequence of the young ones,
/// optionally followed by the in-flight operation.
fn periodic_reachable(recs: &[OpRec], acked_upto: usize, crash_ns: u64, delta_ns: u64, inflight: Option<(&OpK, &Model)>, got: &Census, universe: u64) -> Result<(), (Option<u64>, String)> {
    let mut ids: std::collections::BTreeSet<u64> = (0..universe + 2).collect();
    ids.extend(got.docs.keys().copied());
    for id in ids {
        // states of this id: None or Some(doc)
        let mut reach: Vec<Option<Doc>> = vec![None];
        let touch = |op: &OpK| -> bool {
            match op {
                OpK::Insert { id: i, .. } | OpK::Delete { id: i } | OpK::UpdateMeta { id: i, .. } => *i == id,
                OpK::BatchDelete { ids } => ids.contains(&id),
                _ => false,
            }
        };
        // log-record semantics: what replaying this operation's record does to a state that may have skipped
        // earlier (young, lost) records. A metadata update is logged as the full merged map computed live.
        let step = |s: &Option<Doc>, op: &OpK, after: Option<&Doc>| -> Option<Doc> {
            match op {
                OpK::UpdateMeta { .. } => match (s, after) {
                    (Some(d), Some(a)) => Some((d.0.clone(), a.1.clone())),
                    (Some(d), None) => Some(d.clone()),
                    (None, _) => None,
                },
                _ => {
                    let mut m = Model::new();
                    if let Some(d) = s {
                        m.insert(id, d.clone());
                    }
                    model_apply(&mut m, op);
                    m.remove(&id)
                }
            }
        };
        for r in recs.iter().take(acked_upto).skip(1) {
            if !r.ok || !touch(&r.pinned) {
                continue;
            }
            let old = r.sim_time_ack_ns + delta_ns < crash_ns;
            let mut next: Vec<Option<Doc>> = Vec::new();
            for s in &reach {
                let t = step(s, &r.pinned, r.model_after.get(&id));
                if !next.contains(&t) {
                    next.push(t);
                }
                if !old && !next.contains(s) {
                    next.push(s.clone());
                }
            }
            reach = next;
        }
        if let Some((op, after)) = inflight {
            if touch(op) {
                let extra: Vec<Option<Doc>> = reach.iter().map(|s| step(s, op, after.get(&id))).collect();
                for e in extra {
                    if !reach.contains(&e) {
                        reach.push(e);
                    }
                }
            }
        }
        let g = got.docs.get(&id).cloned();
        if !reach.contains(&g) {
            return Err((Some(id), format!("id {}: recovered {} is not reachable from the acknowledged history (old operations applied, young ones optional)", id, fmt_doc(g.as_ref()))));
        }
    }
    if !got.inconsistent.is_empty() {
        return Err((None, format!("inconsistent reads: {}", got.inconsistent.join("; "))));
    }
    Ok(())
}

/// Why was an old acknowledged write on `id` not durable? Decided from the journal (which write frames were
/// followed by an fsync of their segment before the crash) so that the fingerprint names the mechanism.
fn diagnose_periodic(recs: &[OpRec], journal: &[Effect], times: &[u64], i: usize, id: u64, acked_upto: usize, crash_ns: u64, delta_ns: u64) -> String {
    let touches = |op: &OpK| -> bool {
        match op {
            OpK::Insert { id: x, .. } | OpK::Delete { id: x } | OpK::UpdateMeta { id: x, .. } => *x == id,
            OpK::BatchDelete { ids } => ids.contains(&id),
            _ => false,
        }
    };
    // wal inodes
    let mut wal_inos: BTreeMap<u64, usize> = BTreeMap::new(); // ino -> create index
    for (k, e) in journal[..i.min(journal.len())].iter().enumerate() {
        if let Effect::Create { ino, name } = e {
            if name.starts_with("wal_") {
                wal_inos.insert(*ino, k);
            }
        }
    }
    let margin = 1_000_000u64;
    for r in recs.iter().take(acked_upto).skip(1) {
        if !r.ok || !touches(&r.pinned) || r.sim_time_ack_ns + delta_ns >= crash_ns {
            continue;
        }
        // WAL writes of this op
        for w in r.begin..r.end.min(i) {
            let Effect::Write { ino, .. } = &journal[w] else { continue };
            if !wal_inos.contains_key(ino) {
                continue;
            }
            let synced = journal[w..i.min(journal.len())].iter().any(|e| matches!(e, Effect::FsyncFile { ino: x } if x == ino));
            if synced {
                continue;
            }
            // an old acknowledged frame that was never fsynced before the crash
            // (1) did any append to that segment happen >= delta after the segment's previous fsync and still not sync?
            let mut last_sync_t = times[wal_inos[ino]];
            let mut k = wal_inos[ino];
            while k < i.min(journal.len()) {
                match &journal[k] {
                    Effect::FsyncFile { ino: x } if x == ino => last_sync_t = times[k],
                    Effect::Write { ino: x, off, .. } if x == ino && k >= w && *off >= 4 => {
                        // only appends whose operation completed before the crash count
                        let completed = journal[k..i.min(journal.len())].iter().any(|e| matches!(e, Effect::Mark { kind, .. } if *kind != 0));
                        if completed && times[k] >= last_sync_t + delta_ns + margin {
                            return "append_after_interval_did_not_sync".to_string();
                        }
                    }
                    _ => {}
                }
                k += 1;
            }
            let rotated = journal[w..i.min(journal.len())].iter().any(|e| matches!(e, Effect::Create { name, .. } if name.starts_with("wal_")));
            return if rotated { "unsynced_tail_of_rotated_segment".to_string() } else { "unsynced_tail_of_active_segment_no_later_append".to_string() };
        }
    }
    "all_old_frames_were_fsynced".to_string()
}

pub struct Judged {
    pub clause: String,
    pub message: String,
    pub facts: BTreeMap<String, String>,
}

fn window_facts(journal: &[Effect], i: usize) -> (String, String) {
    let name_of = |ino: u64| -> String {
        // resolve inode to its latest name in the prefix
        let mut n = String::new();
        for e in &journal[..i.min(journal.len())] {
            match e {
                Effect::Create { ino: x, name } if *x == ino => n = name.clone(),
                Effect::Rename { from, to } if *from == n => n = to.clone(),
                _ => {}
            }
        }
        n
    };
    let prev = journal[..i.min(journal.len())].iter().rev().find(|e| !matches!(e, Effect::Mark { .. })).map(|e| e.describe(&name_of)).unwrap_or_else(|| "start".into());
    let next = journal[i.min(journal.len())..].iter().find(|e| !matches!(e, Effect::Mark { .. })).map(|e| e.describe(&name_of)).unwrap_or_else(|| "end".into());
    (strip_numbers(&prev), strip_numbers(&next))
}

fn strip_numbers(s: &str) -> String {
    // "write wal_#.wal off=12 len=80" -> "write wal_#.wal"
    s.split(" off=").next().unwrap_or(s).split(" len=").next().unwrap_or(s).split(" (ino").next().unwrap_or(s).to_string()
}

/// Explain a "required WAL segment missing" refusal from the journal.
fn diagnose_missing_segment(journal: &[Effect], i: usize, err: &str) -> Option<String> {
    let seg = err.split("required WAL segment missing: ").nth(1)?.split_whitespace().next()?.trim_end_matches(|c: char| !c.is_ascii_alphanumeric()).to_string();
    let mut unlinked_at = None;
    for (j, e) in journal[..i.min(journal.len())].iter().enumerate() {
        if let Effect::Unlink { name } = e {
            if *name == seg {
                unlinked_at = Some(j);
            }
        }
    }
    let j = unlinked_at?;
    let renamed_after = journal[j..i.min(journal.len())].iter().any(|e| matches!(e, Effect::Rename { to, .. } if to == "MANIFEST"));
    if !renamed_after {
        Some("manifest_lists_segment_unlinked_by_compaction_before_pruned_manifest_is_published".to_string())
    } else {
        Some("segment_unlinked_and_manifest_republished_but_still_listed".to_string())
    }
}

#[allow(clippy::too_many_arguments)]
pub fn loss_shape(live: &FsImage, img: &FsImage) -> String {
    let newest_wal = live.names.keys().filter(|n| n.starts_with("wal_")).max().cloned();
    let mut out: std::collections::BTreeSet<&'static str> = std::collections::BTreeSet::new();
    for (n, ino) in &live.names {
        match img.names.get(n) {
            None => {
                out.insert("dir_entry_lost");
            }
            Some(i2) => {
                if img.inodes.get(i2) != live.inodes.get(ino) {
                    if n.starts_with("wal_") {
                        if Some(n) == newest_wal.as_ref() {
                            out.insert("active_tail");
                        } else {
                            out.insert("rotated_tail");
                        }
                    } else {
                        out.insert("other_file_stale");
                    }
                }
            }
        }
    }
    for n in img.names.keys() {
        if !live.names.contains_key(n) {
            out.insert("unlinked_file_back");
        }
    }
    if out.is_empty() {
        "none".to_string()
    } else {
        out.into_iter().collect::<Vec<_>>().join("+")
    }
}

#[allow(clippy::too_many_arguments)]
pub fn judge(plan: &Plan, recs: &[OpRec], journal: &[Effect], times: &[u64], i: usize, variant: &Variant, exp: &Expect, out: &Outcome, crash_ns: u64, loss: &str) -> Option<Judged> {
    let mut facts = BTreeMap::new();
    facts.insert("model".to_string(), variant.name().to_string());
    facts.insert(
        "policy".to_string(),
        match plan.cfg.fsync {
            Fsync::Always => "always".to_string(),
            Fsync::Periodic(0) => "periodic_0".to_string(),
            Fsync::Periodic(_) => "periodic_interval".to_string(),
            Fsync::Never => "never".to_string(),
        },
    );
    if matches!(variant, Variant::PowerLoss { .. }) {
        facts.insert("loss".to_string(), loss.to_string());
        facts.insert("rotated_tail_lost".to_string(), if loss.contains("rotated_tail") { "yes" } else { "no" }.to_string());
    }
    facts.insert("inflight".to_string(), exp.inflight_kind.clone());
    let (prev, next) = window_facts(journal, i);
    match out {
        Outcome::Panicked => {
            facts.insert("after".to_string(), prev);
            Some(Judged { clause: "recovery_panicked".into(), message: format!("start-up panicked after crash at effect {} ({})", i, variant.name()), facts })
        }
        Outcome::Refused(e) => {
            if exp.before_create_ack && (e.contains("No MANIFEST found")) {
                return None;
            }
            let class = mask_name(e.split(':').take(3).collect::<Vec<_>>().join(":").as_str());
            facts.insert("error".to_string(), class.chars().take(120).collect());
            if let Some(d) = diagnose_missing_segment(journal, i, e) {
                facts.insert("diagnosis".to_string(), d);
            } else {
                facts.insert("after".to_string(), prev.clone());
                facts.insert("before".to_string(), next.clone());
            }
            Some(Judged {
                clause: "recovery_refused".into(),
                message: format!("strict start-up refused after crash at effect {} ({}; after `{}` before `{}`): {}", i, variant.name(), prev, next, mask_name(e)),
                facts,
            })
        }
        Outcome::Recovered(c) => {
            let periodic = matches!((plan.cfg.fsync, variant), (Fsync::Periodic(_), Variant::PowerLoss { .. }));
            if periodic {
                let delta = match plan.cfg.fsync {
                    Fsync::Periodic(ms) => ms * 1_000_000,
                    _ => 0,
                };
                let infl = recs.get(exp.acked_upto).filter(|r| r.begin < i && r.ok && r.pinned.is_write()).map(|r| (&r.pinned, &r.model_after));
                return match periodic_reachable(recs, exp.acked_upto, crash_ns, delta, infl, c, plan.universe) {
                    Ok(()) => None,
                    Err((bad_id, m)) => {
                        facts.remove("inflight");
                        facts.remove("loss");
                        facts.remove("rotated_tail_lost");
                        let cause = match bad_id {
                            Some(id) => diagnose_periodic(recs, journal, times, i, id, exp.acked_upto, crash_ns, delta),
                            None => "inconsistent_reads".to_string(),
                        };
                        facts.insert("cause".to_string(), cause.clone());
                        Some(Judged { clause: "periodic_old_write_lost".into(), message: format!("crash at effect {} ({}): {} [cause: {}]", i, variant.name(), m, cause), facts })
                    }
                };
            }
            if census_matches(c, &exp.acked).is_ok() {
                return None;
            }
            if let Some((m, _)) = &exp.inflight {
                if census_matches(c, m).is_ok() {
                    return None;
                }
            }
            if let Some((base, ids)) = &exp.inflight_batch {
                // partially applied in-flight batch delete?
                let mut uniq: Vec<u64> = ids.clone();
                uniq.sort_unstable();
                uniq.dedup();
                let present: Vec<u64> = uniq.iter().copied().filter(|id| base.contains_key(id)).collect();
                for mask in 1..(1u32 << present.len().min(10)) - 1 {
                    let mut m = base.clone();
                    for (b, id) in present.iter().enumerate() {
                        if mask & (1 << b) != 0 {
                            m.remove(id);
                        }
                    }
                    if census_matches(c, &m).is_ok() {
                        facts.insert("shape".to_string(), "partial_batch".to_string());
                        return Some(Judged {
                            clause: "inflight_partial".into(),
                            message: format!("crash at effect {} ({}): in-flight batch delete {:?} applied partially", i, variant.name(), ids),
                            facts,
                        });
                    }
                }
            }
            let why = census_matches(c, &exp.acked).unwrap_err();
            // classify the difference for the fingerprint
            let kind = if why.starts_with("id set differs: missing []") {
                "unexpected_document"
            } else if why.starts_with("id set differs") {
                "acked_document_missing"
            } else if why.contains("vector bits") {
                "vector_differs"
            } else if why.contains("metadata differs") {
                "metadata_differs"
            } else {
                "other"
            };
            facts.insert("difference".to_string(), kind.to_string());
            facts.insert("after".to_string(), prev.clone());
            Some(Judged {
                clause: "wrong_state".into(),
                message: format!(
                    "crash at effect {} ({}; after `{}` before `{}`; in flight: {}): recovered collection is neither the acknowledged state nor acknowledged+in-flight: {}",
                    i,
                    variant.name(),
                    prev,
                    next,
                    exp.inflight_kind,
                    why
                ),
                facts,
            })
        }
    }
}

fn variants_at(plan: &Plan, rep: &Replayer, next: Option<&Effect>, rng: &mut Rng, n_pl: usize) -> Vec<Variant> {
    let mut v = vec![Variant::Kill];
    if let Some(Effect::Write { data, .. }) = next {
        if data.len() > 1 {
            let mut keeps = vec![1usize, data.len() - 1];
            if data.len() > 4 {
                keeps.push(4);
            }
            if data.len() > 8 {
                keeps.push(rng.range(5, data.len() as u64 - 2) as usize);
            }
            keeps.sort_unstable();
            keeps.dedup();
            for k in keeps {
                v.push(Variant::Torn { keep: k });
            }
        }
    }
    if plan.cfg.fsync != Fsync::Never {
        let (pd, pf) = rep.pending_counts();
        if pd + pf > 0 {
            for _ in 0..n_pl {
                v.push(Variant::PowerLoss { seed: rng.next() });
            }
        }
    }
    v
}

fn crash_time(recs: &[OpRec], i: usize) -> u64 {
    // simulated time of the crash: the ack time of the last op that began before i (upper bound is fine: a
    // later crash instant only makes more operations "old", i.e. the oracle stricter only by real elapsed time)
    let mut t = simlibc::EPOCH_NS;
    for r in recs {
        if r.begin < i {
            t = if r.end < i { r.sim_time_ack_ns } else { t };
        }
    }
    t
}

pub struct Found {
    pub spec: CrashSpec,
    pub judged: Judged,
}

/// Execute one plan completely: history, then all crash states. Returns violations found (first of each class).
pub fn explore(plan: &Plan, sum: &mut Summary, run: u64, tier: &str, only: Option<&CrashSpec>, stop_at_first: Option<&str>) -> Vec<Found> {
    reset_env(plan.env_seed);
    let plan2 = plan.clone();
    let out = match on_fresh_thread(move || {
        let o = run_history(&plan2, &HistOpts { keep_engine: false, check_restarts: false, tag: "c01h", run_no: 0 });
        remove_dir(&o.dir);
        o
    }) {
        Ok(o) => o,
        Err(p) => {
            sum.notes.push(format!("run {}: history thread panicked: {}", run, p));
            return vec![];
        }
    };
    sum.sim_time_ns += out.sim_ns;
    let journal = out.journal;
    let times = out.times;
    let recs = out.recs;
    let mut found: Vec<Found> = Vec::new();
    for (clause, msg) in &out.problems {
        // problems of the un-crashed history belong to C02/C03; C01 only reports failed clean restarts here
        if clause == "restart_failed" || clause == "restart_panicked" {
            let mut facts = BTreeMap::new();
            facts.insert("model".into(), "none".into());
            facts.insert("error".into(), mask_name(msg).chars().take(120).collect());
            found.push(Found { spec: CrashSpec { index: journal.len(), variant: Variant::Kill, second: None }, judged: Judged { clause: clause.clone(), message: msg.clone(), facts } });
        }
    }
    // probes
    let n_unlink_wal = journal.iter().filter(|e| matches!(e, Effect::Unlink { name } if name.starts_with("wal_"))).count();
    let n_wal_create = journal.iter().filter(|e| matches!(e, Effect::Create { name, .. } if name.starts_with("wal_"))).count();
    let n_snap = journal.iter().filter(|e| matches!(e, Effect::Rename { to, .. } if to.starts_with("snapshot_"))).count();
    sum.probe("wal_segment_compacted", n_unlink_wal as u64);
    sum.probe("wal_segment_created", n_wal_create as u64);
    sum.probe("snapshot_published", n_snap as u64);
    sum.probe("clean_restart_in_history", out.restarts);
    sum.probe("snapshot_superseded", n_snap.saturating_sub(1) as u64);
    sum.count("journal_effects", journal.iter().filter(|e| !matches!(e, Effect::Mark { .. })).count() as u64);

    let mut rng = Rng::new(plan.env_seed ^ 0xC01C01);
    let n_pl = if tier == "thorough" { 8 } else { 3 };
    let base = base_image();
    let mut rep = Replayer::new(&base);
    let mut counter = 0u64;
    let max_states: u64 = if tier == "thorough" { 6000 } else { 1800 };
    let total_boundaries = journal.len() + 1;
    for i in 0..total_boundaries {
        if i > 0 {
            rep.step(&journal[i - 1]);
            if matches!(journal[i - 1], Effect::Mark { .. }) && i < journal.len() {
                continue; // same state as previous boundary
            }
        }
        let specs: Vec<Variant> = match only {
            Some(s) if s.index == i => vec![s.variant.clone()],
            Some(_) => continue,
            None => variants_at(plan, &rep, journal.get(i), &mut rng, n_pl),
        };
        let exp = expectation(&recs, i);
        let ctime = crash_time(&recs, i);
        for v in specs {
            if counter >= max_states && only.is_none() {
                sum.count("crash_states_skipped_by_cap", 1);
                continue;
            }
            counter += 1;
            let img = rep.image(&v, journal.get(i));
            let env = plan.env_seed ^ (i as u64) << 20 ^ counter;
            reset_env_keep_clock(env, ctime);
            let (cfg, img2, uni) = (plan.cfg.clone(), img.clone(), plan.universe);
            let rr = match on_fresh_thread(move || recover_on_image(&cfg, &img2, uni, "c01r", 0)) {
                Ok(r) => r,
                Err(_) => RecoverRun { outcome: Outcome::Panicked, journal: vec![] },
            };
            sum.evaluations += 1;
            sum.count(&format!("crash_states_{}", v.name()), 1);
            let nontrivial = exp.acked_upto > 1;
            if nontrivial {
                sum.distinct_hash(image_digest(&img) ^ (exp.acked_upto as u64).wrapping_mul(0x9E37));
            }
            match (&exp.inflight_kind[..], journal.get(i)) {
                ("create_snapshot", _) | ("insert", Some(Effect::Unlink { .. })) => sum.probe("crash_inside_snapshot_or_compaction", 1),
                ("restart", _) => sum.probe("crash_inside_recovery_of_history", 1),
                _ => {}
            }
            if let Some(Effect::Rename { to, .. }) = journal.get(i) {
                if to == "MANIFEST" {
                    sum.probe("crash_before_manifest_rename", 1);
                }
            }
            if let Some(Effect::FsyncDir) = journal.get(i) {
                sum.probe("crash_before_dir_fsync", 1);
            }
            let loss = if matches!(v, Variant::PowerLoss { .. }) { loss_shape(&rep.live, &img) } else { "none".to_string() };
            let first_judged = judge(plan, &recs, &journal, &times, i, &v, &exp, &rr.outcome, ctime, &loss);
            let mut second_spec = None;
            let mut judged = first_judged;
            // server row: the crash fell into the very first creation of the database (nothing acknowledged, no MANIFEST
            // yet). The engine-level recovery refuses such a directory by design; the server's own start-up decision
            // (main()'s lines, cut out at build time) must then start -- an empty database -- not refuse for ever.
            if judged.is_none() && exp.before_create_ack && matches!(&rr.outcome, Outcome::Refused(e) if e.contains("No MANIFEST found")) {
                let (cfg2, img2, uni) = (plan.cfg.clone(), img.clone(), plan.universe);
                let (code, msg) = on_fresh_thread(move || crate::c13::server_start_on_image(&cfg2, &img2, uni, &Model::new())).unwrap_or((3, String::new()));
                sum.probe("server_startup_after_crash_during_first_creation", 1);
                if code != 0 {
                    let mut facts = BTreeMap::new();
                    facts.insert("model".to_string(), v.name().to_string());
                    facts.insert("entry".to_string(), "server_startup".to_string());
                    facts.insert("inflight".to_string(), "create".to_string());
                    facts.insert("error".to_string(), msg.split(" from ").next().unwrap_or("").chars().take(60).collect());
                    judged = Some(Judged { clause: if code == 1 { "wrong_state".into() } else { "recovery_refused".into() }, message: format!("crash at effect {} ({}) during the first creation of the database: the server's start-up decision does not start an empty database afterwards: {}", i, v.name(), mask_name(&msg)), facts });
                }
            }
            if judged.is_none() {
                // crash during that start-up, then start again: same outcome
                let do_second = match only {
                    Some(s) => s.second.is_some(),
                    None => !rr.journal.is_empty() && rng.chance(1, 3),
                };
                if do_second {
                    let (j, v2) = match only.and_then(|s| s.second.clone()) {
                        Some(x) => x,
                        None => {
                            let j = rng.range(1, rr.journal.len() as u64) as usize;
                            let v2 = match rng.below(3) {
                                0 => Variant::Kill,
                                1 => match rr.journal.get(j) {
                                    Some(Effect::Write { data, .. }) if data.len() > 1 => Variant::Torn { keep: rng.range(1, data.len() as u64 - 1) as usize },
                                    _ => Variant::Kill,
                                },
                                _ => {
                                    if plan.cfg.fsync == Fsync::Never {
                                        Variant::Kill
                                    } else {
                                        Variant::PowerLoss { seed: rng.next() }
                                    }
                                }
                            };
                            (j, v2)
                        }
                    };
                    let img_b = crate::crash::image_at(&img, &rr.journal, j, &v2);
                    reset_env_keep_clock(env ^ 0x5EC0, ctime + 1_000_000);
                    let (cfg, uni) = (plan.cfg.clone(), plan.universe);
                    let rr2 = match on_fresh_thread(move || recover_on_image(&cfg, &img_b, uni, "c01s", 0)) {
                        Ok(r) => r,
                        Err(_) => RecoverRun { outcome: Outcome::Panicked, journal: vec![] },
                    };
                    sum.evaluations += 1;
                    sum.count("crash_states_during_startup", 1);
                    sum.probe("crash_inside_recovery", 1);
                    let same = match (&rr.outcome, &rr2.outcome) {
                        (Outcome::Recovered(a), Outcome::Recovered(b)) => a == b,
                        (Outcome::Refused(_), Outcome::Refused(_)) => true,
                        _ => false,
                    };
                    if !same {
                        let mut facts = BTreeMap::new();
                        facts.insert("model".into(), v2.name().to_string());
                        let (p2, n2) = window_facts(&rr.journal, j);
                        facts.insert("after".into(), p2.clone());
                        facts.insert(
                            "second_outcome".into(),
                            match &rr2.outcome {
                                Outcome::Recovered(_) => "recovered_differently".into(),
                                Outcome::Refused(e) => mask_name(e).chars().take(100).collect(),
                                Outcome::Panicked => "panicked".into(),
                            },
                        );
                        judged = Some(Judged {
                            clause: "startup_crash_changes_outcome".into(),
                            message: format!(
                                "crash at effect {} ({}), start-up, crash inside that start-up at its effect {} ({}; after `{}` before `{}`), second start-up differs: first {:?} second {:?}",
                                i,
                                v.name(),
                                j,
                                v2.name(),
                                p2,
                                n2,
                                short_outcome(&rr.outcome),
                                short_outcome(&rr2.outcome)
                            ),
                            facts,
                        });
                        second_spec = Some((j, v2));
                    }
                }
            }
            if let Some(jd) = judged {
                let stop = stop_at_first.map(|c| c == jd.clause).unwrap_or(false);
                found.push(Found { spec: CrashSpec { index: i, variant: v.clone(), second: second_spec }, judged: jd });
                if stop {
                    return found;
                }
            }
        }
    }
    found
}

fn short_outcome(o: &Outcome) -> String {
    match o {
        Outcome::Recovered(c) => format!("recovered {} docs", c.docs.len()),
        Outcome::Refused(e) => format!("refused: {}", mask_name(e)),
        Outcome::Panicked => "panicked".into(),
    }
}

pub fn reset_env_keep_clock(seed: u64, clock_ns: u64) {
    simlibc::clock_enable(clock_ns.saturating_sub(simlibc::EPOCH_NS) + 1_000_000);
    simlibc::rand_enable(seed);
}

fn class_of(j: &Judged) -> String {
    let mut s = format!("C01|{}", j.clause);
    for (k, v) in &j.facts {
        s.push_str(&format!("|{}={}", k, v));
    }
    s
}

fn minimise(plan: &Plan, target: &Judged, tier: &str, budget: usize) -> (Plan, Option<Found>) {
    // delta-debugging over the operation list; any crash point of the candidate may reproduce the class
    let key = class_of(target);
    let mut best = plan.clone();
    let mut best_found: Option<Found> = None;
    let mut tries = 0;
    let mut chunk = (best.ops.len() / 2).max(1);
    let mut scratch = Summary::new("C01", 0);
    while chunk >= 1 && tries < budget {
        let mut i = 0;
        let mut progress = false;
        while i < best.ops.len() && tries < budget {
            let mut cand = best.clone();
            let end = (i + chunk).min(cand.ops.len());
            cand.ops.drain(i..end);
            tries += 1;
            let f = explore(&cand, &mut scratch, 0, tier, None, Some(&target.clause));
            if let Some(hit) = f.into_iter().find(|x| class_of(&x.judged) == key) {
                best = cand;
                best_found = Some(hit);
                progress = true;
            } else {
                i += chunk;
            }
        }
        if chunk == 1 && !progress {
            break;
        }
        if !progress || chunk > 1 {
            chunk /= 2;
        }
        if chunk == 0 {
            break;
        }
    }
    (best, best_found)
}

pub fn run_batch(seed: u64, start: u64, count: u64, tier: &str, budget_ms: u64, sum: &mut Summary) {
    let t0 = simlibc::real_now_ns();
    for run in start..start + count {
        if budget_ms > 0 && (simlibc::real_now_ns() - t0) / 1_000_000 > budget_ms {
            break;
        }
        let plan = gen_plan(seed, run, tier);
        let found = explore(&plan, sum, run, tier, None, None);
        sum.runs += 1;
        if sum.runs <= 2 {
            sum.sample(json!({"run": run, "cfg": plan.cfg, "ops": plan.ops.len(), "first_ops": plan.ops.iter().take(4).collect::<Vec<_>>() }));
        }
        for f in found {
            let key = class_of(&f.judged);
            if !sum.class_first(&key) || sum.violations.len() >= 12 {
                continue;
            }
            // minimise the first representatives (bounded: a broken tree can produce many classes)
            let over_budget = budget_ms > 0 && (simlibc::real_now_ns() - t0) / 1_000_000 > budget_ms;
            let (mplan, mfound) = if sum.violations.len() < 4 && !over_budget { minimise(&plan, &f.judged, tier, 30) } else { (plan.clone(), None) };
            let (rp, rf, minimised) = match mfound {
                Some(mf) => (mplan, mf, true),
                None => (plan.clone(), Found { spec: f.spec.clone(), judged: Judged { clause: f.judged.clause.clone(), message: f.judged.message.clone(), facts: f.judged.facts.clone() } }, false),
            };
            let replay = Replay { check: "C01".into(), plan: rp, crash: rf.spec.clone(), clause: rf.judged.clause.clone() };
            sum.violations.push(Violation {
                property: "C01".into(),
                clause: rf.judged.clause.clone(),
                facts: rf.judged.facts.clone(),
                message: rf.judged.message.clone(),
                seed,
                run,
                replay: serde_json::to_value(&replay).unwrap(),
                minimised,
                original: Some(json!({"plan": plan, "crash": f.spec, "message": f.judged.message})),
            });
        }
    }
}

pub fn replay(v: &serde_json::Value, sum: &mut Summary) -> Result<(), String> {
    let r: Replay = serde_json::from_value(v.clone()).map_err(|e| e.to_string())?;
    let found = explore(&r.plan, sum, 0, "quick", Some(&r.crash), None);
    sum.runs = 1;
    for f in found {
        sum.class_first(&class_of(&f.judged));
        sum.violations.push(Violation {
            property: "C01".into(),
            clause: f.judged.clause.clone(),
            facts: f.judged.facts.clone(),
            message: f.judged.message.clone(),
            seed: 0,
            run: 0,
            replay: v.clone(),
            minimised: true,
            original: None,
        });
    }
    Ok(())
}
