//! E1: the libc seam. The harness *binary* defines the libc entry points KyroDB reaches through std::fs,
//! std::time, std::thread::sleep and OS randomness; the real functions are obtained with
//! dlsym(RTLD_NEXT). Calls on registered data directories are journalled (crash-state construction) and may
//! be failed or shortened by the armed fault plan; the clock and randomness are simulated when switched on.
#![allow(clippy::missing_safety_doc)]

use libc::{c_char, c_int, c_long, c_uint, c_void, mode_t, off_t, size_t, ssize_t};
use std::cell::Cell;
use std::collections::{BTreeMap, HashMap};
use std::ffi::CStr;
use std::sync::atomic::{AtomicBool, AtomicU64, AtomicUsize, Ordering};
use std::sync::Mutex;

// ------------------------------------------------------------------------------------------------
// real functions

macro_rules! real_fn {
    ($name:ident, $sym:literal, $ty:ty) => {
        fn $name() -> $ty {
            static P: AtomicUsize = AtomicUsize::new(0);
            let mut p = P.load(Ordering::Relaxed);
            if p == 0 {
                p = unsafe { libc::dlsym(libc::RTLD_NEXT, concat!($sym, "\0").as_ptr() as *const c_char) } as usize;
                if p == 0 {
                    unsafe { libc::abort() };
                }
                P.store(p, Ordering::Relaxed);
            }
            unsafe { std::mem::transmute::<usize, $ty>(p) }
        }
    };
}

real_fn!(real_open64, "open64", unsafe extern "C" fn(*const c_char, c_int, c_uint) -> c_int);
real_fn!(real_close, "close", unsafe extern "C" fn(c_int) -> c_int);
real_fn!(real_write, "write", unsafe extern "C" fn(c_int, *const c_void, size_t) -> ssize_t);
real_fn!(real_pwrite64, "pwrite64", unsafe extern "C" fn(c_int, *const c_void, size_t, off_t) -> ssize_t);
real_fn!(real_fsync, "fsync", unsafe extern "C" fn(c_int) -> c_int);
real_fn!(real_fdatasync, "fdatasync", unsafe extern "C" fn(c_int) -> c_int);
real_fn!(real_ftruncate64, "ftruncate64", unsafe extern "C" fn(c_int, off_t) -> c_int);
real_fn!(real_rename, "rename", unsafe extern "C" fn(*const c_char, *const c_char) -> c_int);
real_fn!(real_unlink, "unlink", unsafe extern "C" fn(*const c_char) -> c_int);
real_fn!(real_lseek64, "lseek64", unsafe extern "C" fn(c_int, off_t, c_int) -> off_t);
real_fn!(real_clock_gettime, "clock_gettime", unsafe extern "C" fn(libc::clockid_t, *mut libc::timespec) -> c_int);
real_fn!(real_nanosleep, "nanosleep", unsafe extern "C" fn(*const libc::timespec, *mut libc::timespec) -> c_int);
real_fn!(
    real_clock_nanosleep,
    "clock_nanosleep",
    unsafe extern "C" fn(libc::clockid_t, c_int, *const libc::timespec, *mut libc::timespec) -> c_int
);
real_fn!(real_getrandom, "getrandom", unsafe extern "C" fn(*mut c_void, size_t, c_uint) -> ssize_t);
real_fn!(real_statvfs, "statvfs", unsafe extern "C" fn(*const c_char, *mut libc::statvfs) -> c_int);
real_fn!(real_statvfs64, "statvfs64", unsafe extern "C" fn(*const c_char, *mut libc::statvfs64) -> c_int);
real_fn!(real_futimens, "futimens", unsafe extern "C" fn(c_int, *const libc::timespec) -> c_int);
real_fn!(real_gettimeofday, "gettimeofday", unsafe extern "C" fn(*mut libc::timeval, *mut c_void) -> c_int);
real_fn!(real_time, "time", unsafe extern "C" fn(*mut libc::time_t) -> libc::time_t);

fn set_errno(e: c_int) {
    unsafe { *libc::__errno_location() = e };
}

// ------------------------------------------------------------------------------------------------
// journal types

#[derive(Clone, Debug, PartialEq, Eq)]
pub enum Effect {
    Create { ino: u64, name: String },
    Write { ino: u64, off: u64, data: Vec<u8> },
    Trunc { ino: u64, len: u64 },
    Rename { from: String, to: String },
    Unlink { name: String },
    FsyncFile { ino: u64 },
    FsyncDir,
    /// harness marker: (kind, op number). kind 0 = begin, 1 = ack ok, 2 = ack err
    Mark { kind: u8, op: u32 },
}

impl Effect {
    pub fn kind_name(&self) -> &'static str {
        match self {
            Effect::Create { .. } => "create",
            Effect::Write { .. } => "write",
            Effect::Trunc { .. } => "trunc",
            Effect::Rename { .. } => "rename",
            Effect::Unlink { .. } => "unlink",
            Effect::FsyncFile { .. } => "fsync",
            Effect::FsyncDir => "fsyncdir",
            Effect::Mark { .. } => "mark",
        }
    }
    pub fn describe(&self, names: &dyn Fn(u64) -> String) -> String {
        match self {
            Effect::Create { ino, name } => format!("create {} (ino {})", mask_name(name), ino),
            Effect::Write { ino, off, data } => format!("write {} off={} len={}", mask_name(&names(*ino)), off, data.len()),
            Effect::Trunc { ino, len } => format!("trunc {} len={}", mask_name(&names(*ino)), len),
            Effect::Rename { from, to } => format!("rename {} -> {}", mask_name(from), mask_name(to)),
            Effect::Unlink { name } => format!("unlink {}", mask_name(name)),
            Effect::FsyncFile { ino } => format!("fsync {}", mask_name(&names(*ino))),
            Effect::FsyncDir => "fsync DIR".to_string(),
            Effect::Mark { kind, op } => format!("mark {} op{}", ["begin", "ack", "err"][*kind as usize % 3], op),
        }
    }
}

/// `wal_1700000000123.wal` -> `wal_#.wal` (file ids are clock readings; masked for stable fingerprints)
pub fn mask_name(n: &str) -> String {
    let mut out = String::new();
    let mut in_digits = false;
    for ch in n.chars() {
        if ch.is_ascii_digit() {
            if !in_digits {
                out.push('#');
                in_digits = true;
            }
        } else {
            in_digits = false;
            out.push(ch);
        }
    }
    out
}

#[derive(Clone, Copy, Debug, PartialEq, Eq, Hash, PartialOrd, Ord)]
pub enum Role {
    Wal,
    SnapTmp,
    Snap,
    ManTmp,
    Man,
    Dir,
    Other,
}

pub fn role_of(name: &str) -> Role {
    if name.is_empty() || name == "." {
        Role::Dir
    } else if name.starts_with("wal_") && name.ends_with(".wal") {
        Role::Wal
    } else if name.starts_with("snapshot_") && name.ends_with(".tmp") {
        Role::SnapTmp
    } else if name.starts_with("snapshot_") && name.ends_with(".snap") {
        Role::Snap
    } else if name == "MANIFEST.tmp" {
        Role::ManTmp
    } else if name == "MANIFEST" {
        Role::Man
    } else {
        Role::Other
    }
}

#[derive(Clone, Copy, Debug, PartialEq, Eq, Hash, PartialOrd, Ord)]
pub enum CallKind {
    Open,
    Write,
    Fsync,
    Fdatasync,
    Ftruncate,
    Rename,
    Unlink,
    Statvfs,
}

#[derive(Clone, Copy, Debug, PartialEq)]
pub enum FaultAction {
    Errno(i32),
    /// write only this many bytes (at least 1 less than requested), success return
    Short(usize),
    /// statvfs reports this fraction of free space
    LowSpace(f64),
}

#[derive(Clone, Debug)]
pub struct FaultRule {
    pub kind: CallKind,
    pub role: Option<Role>,
    /// fire on the n-th (1-based) matching call since the plan was armed
    pub nth: u32,
    pub action: FaultAction,
    pub fired: bool,
    seen: u32,
}

impl FaultRule {
    pub fn new(kind: CallKind, role: Option<Role>, nth: u32, action: FaultAction) -> Self {
        FaultRule { kind, role, nth, action, fired: false, seen: 0 }
    }
}

#[derive(Clone, Debug, Default)]
pub struct FsImage {
    pub names: BTreeMap<String, u64>,
    pub inodes: BTreeMap<u64, Vec<u8>>,
}

impl FsImage {
    pub fn files(&self) -> BTreeMap<String, Vec<u8>> {
        self.names.iter().map(|(n, i)| (n.clone(), self.inodes.get(i).cloned().unwrap_or_default())).collect()
    }
    pub fn from_files(files: &BTreeMap<String, Vec<u8>>) -> FsImage {
        let mut img = FsImage::default();
        for (k, (n, d)) in files.iter().enumerate() {
            img.names.insert(n.clone(), k as u64 + 1);
            img.inodes.insert(k as u64 + 1, d.clone());
        }
        img
    }
    pub fn apply(&mut self, e: &Effect) {
        match e {
            Effect::Create { ino, name } => {
                self.names.insert(name.clone(), *ino);
                self.inodes.entry(*ino).or_default();
            }
            Effect::Write { ino, off, data } => {
                let f = self.inodes.entry(*ino).or_default();
                let end = *off as usize + data.len();
                if f.len() < end {
                    f.resize(end, 0);
                }
                f[*off as usize..end].copy_from_slice(data);
            }
            Effect::Trunc { ino, len } => {
                let f = self.inodes.entry(*ino).or_default();
                f.resize(*len as usize, 0);
            }
            Effect::Rename { from, to } => {
                if let Some(i) = self.names.remove(from) {
                    self.names.insert(to.clone(), i);
                }
            }
            Effect::Unlink { name } => {
                self.names.remove(name);
            }
            _ => {}
        }
    }
    /// Write the image into an (empty, existing) directory with the hooks bypassed.
    pub fn dump(&self, dir: &str) {
        let _b = Bypass::new();
        for (n, i) in &self.names {
            let p = format!("{}/{}", dir, n);
            std::fs::write(&p, self.inodes.get(i).map(|v| v.as_slice()).unwrap_or(&[])).expect("dump image");
        }
    }
}

struct Root {
    path: String, // absolute, no trailing slash
    journaling: bool,
    journal: Vec<Effect>,
    times: Vec<u64>,
    names: HashMap<String, u64>,
    sizes: HashMap<u64, u64>,
    next_ino: u64,
}

impl Root {
    fn jpush(&mut self, e: Effect) {
        self.journal.push(e);
        self.times.push(CLOCK_NS.load(Ordering::SeqCst));
    }
}

#[derive(Clone)]
struct FdInfo {
    root: usize,
    ino: u64,
    name: String,
    append: bool,
    is_dir: bool,
}

#[derive(Default)]
struct Global {
    roots: Vec<Option<Root>>,
    fds: HashMap<c_int, FdInfo>,
    rules: Vec<FaultRule>,
    armed: bool,
    fired_log: Vec<(CallKind, Role, FaultAction)>,
    call_counts: BTreeMap<(CallKind, Role), u64>,
}

static G: Mutex<Option<Global>> = Mutex::new(None);
static ANY_ROOT: AtomicBool = AtomicBool::new(false);
static CLOCK_ON: AtomicBool = AtomicBool::new(false);
static CLOCK_NS: AtomicU64 = AtomicU64::new(0);
static CLOCK_TICK_NS: AtomicU64 = AtomicU64::new(1000);
static RAND_ON: AtomicBool = AtomicBool::new(false);
static RAND_STATE: AtomicU64 = AtomicU64::new(0);
static RAND_STATE_AUX: AtomicU64 = AtomicU64::new(0);
static IO_YIELD: AtomicBool = AtomicBool::new(false);
static STAMP_MTIME: AtomicBool = AtomicBool::new(false);
pub static SLEEP_TOTAL_NS: AtomicU64 = AtomicU64::new(0);

pub const EPOCH_NS: u64 = 1_000_000_000u64 * 1_000_000_000u64;

thread_local! {
    static BYPASS: Cell<u32> = const { Cell::new(0) };
    /// Threads of the simulation proper (the run thread, scheduler-controlled threads). Helper threads (rayon
    /// workers, tokio blocking / timer threads) read the simulated clock without advancing it and draw randomness
    /// from a separate stream, so that their idle loops and start-up cannot perturb a run.
    static SIM_THREAD: Cell<bool> = const { Cell::new(false) };
}

thread_local! {
    static FROZEN: Cell<u32> = const { Cell::new(0) };
}
/// While alive, clock reads of this thread do not advance simulated time. Used around `Runtime::block_on` calls
/// that wait for tokio's blocking pool: the number of park / futex-timeout iterations of such a wait (each reads
/// the monotonic clock) depends on real timing and must not leak into the simulation.
pub struct FreezeClock;
impl FreezeClock {
    pub fn new() -> FreezeClock {
        FROZEN.with(|f| f.set(f.get() + 1));
        FreezeClock
    }
}
impl Drop for FreezeClock {
    fn drop(&mut self) {
        FROZEN.with(|f| f.set(f.get().saturating_sub(1)));
    }
}
fn frozen() -> bool {
    FROZEN.try_with(|f| f.get() > 0).unwrap_or(false)
}

pub fn mark_sim_thread(on: bool) {
    SIM_THREAD.with(|m| m.set(on));
}
fn on_sim_thread() -> bool {
    SIM_THREAD.try_with(|m| m.get()).unwrap_or(false) || plsim::sim::is_controlled()
}

pub struct Bypass;
impl Bypass {
    pub fn new() -> Bypass {
        BYPASS.with(|b| b.set(b.get() + 1));
        Bypass
    }
}
impl Drop for Bypass {
    fn drop(&mut self) {
        BYPASS.with(|b| b.set(b.get() - 1));
    }
}
fn bypassed() -> bool {
    BYPASS.try_with(|b| b.get() > 0).unwrap_or(true)
}

fn with_g<R>(f: impl FnOnce(&mut Global) -> R) -> R {
    let _b = Bypass::new();
    let mut g = G.lock().unwrap_or_else(|e| e.into_inner());
    if g.is_none() {
        *g = Some(Global::default());
    }
    f(g.as_mut().unwrap())
}

// ------------------------------------------------------------------------------------------------
// harness API

pub fn clock_enable(start_offset_ns: u64) {
    CLOCK_NS.store(EPOCH_NS + start_offset_ns, Ordering::SeqCst);
    CLOCK_ON.store(true, Ordering::SeqCst);
}
pub fn clock_now_ns() -> u64 {
    CLOCK_NS.load(Ordering::SeqCst)
}
pub fn clock_advance_ns(d: u64) {
    CLOCK_NS.fetch_add(d, Ordering::SeqCst);
}
pub fn clock_set_tick_ns(t: u64) {
    CLOCK_TICK_NS.store(t, Ordering::SeqCst);
}
pub fn rand_enable(seed: u64) {
    RAND_STATE.store(seed | 1, Ordering::SeqCst);
    RAND_STATE_AUX.store(seed.rotate_left(17) ^ 0xA5A5_5A5A_0F0F_F0F1, Ordering::SeqCst);
    RAND_ON.store(true, Ordering::SeqCst);
}
pub fn io_yield_enable(on: bool) {
    IO_YIELD.store(on, Ordering::SeqCst);
}
pub fn stamp_mtime_enable(on: bool) {
    STAMP_MTIME.store(on, Ordering::SeqCst);
}

/// Real (kernel) monotonic clock for harness timing only.
pub fn real_now_ns() -> u64 {
    let mut ts = libc::timespec { tv_sec: 0, tv_nsec: 0 };
    unsafe { real_clock_gettime()(libc::CLOCK_MONOTONIC, &mut ts) };
    ts.tv_sec as u64 * 1_000_000_000 + ts.tv_nsec as u64
}

pub fn register_root(path: &str, image: Option<&FsImage>, journaling: bool) -> usize {
    let mut root = Root {
        path: path.trim_end_matches('/').to_string(),
        journaling,
        journal: Vec::new(),
        times: Vec::new(),
        names: HashMap::new(),
        sizes: HashMap::new(),
        next_ino: 1,
    };
    if let Some(img) = image {
        for (n, i) in &img.names {
            root.names.insert(n.clone(), *i);
            root.sizes.insert(*i, img.inodes.get(i).map(|v| v.len() as u64).unwrap_or(0));
            if *i >= root.next_ino {
                root.next_ino = *i + 1;
            }
        }
    }
    let id = with_g(|g| {
        for (k, slot) in g.roots.iter_mut().enumerate() {
            if slot.is_none() {
                *slot = Some(root);
                return k;
            }
        }
        g.roots.push(Some(root));
        g.roots.len() - 1
    });
    ANY_ROOT.store(true, Ordering::SeqCst);
    id
}

pub fn unregister_root(id: usize) -> Vec<Effect> {
    with_g(|g| {
        let r = g.roots[id].take();
        g.fds.retain(|_, f| f.root != id);
        if g.roots.iter().all(|r| r.is_none()) {
            ANY_ROOT.store(false, Ordering::SeqCst);
        }
        r.map(|r| r.journal).unwrap_or_default()
    })
}

pub fn journal_len(id: usize) -> usize {
    with_g(|g| g.roots[id].as_ref().map(|r| r.journal.len()).unwrap_or(0))
}

pub fn journal_snapshot(id: usize) -> Vec<Effect> {
    with_g(|g| g.roots[id].as_ref().map(|r| r.journal.clone()).unwrap_or_default())
}

pub fn journal_times(id: usize) -> Vec<u64> {
    with_g(|g| g.roots[id].as_ref().map(|r| r.times.clone()).unwrap_or_default())
}

pub fn mark(id: usize, kind: u8, op: u32) {
    with_g(|g| {
        if let Some(Some(r)) = g.roots.get_mut(id) {
            if r.journaling {
                r.jpush(Effect::Mark { kind, op });
            }
        }
    })
}

pub fn arm_faults(rules: Vec<FaultRule>) {
    with_g(|g| {
        g.rules = rules;
        g.armed = true;
    })
}

/// Disarm and return the rules (with their `fired` flags).
pub fn disarm_faults() -> Vec<FaultRule> {
    with_g(|g| {
        g.armed = false;
        std::mem::take(&mut g.rules)
    })
}

pub fn take_fired_log() -> Vec<(CallKind, Role, FaultAction)> {
    with_g(|g| std::mem::take(&mut g.fired_log))
}

pub fn take_call_counts() -> BTreeMap<(CallKind, Role), u64> {
    with_g(|g| std::mem::take(&mut g.call_counts))
}

// ------------------------------------------------------------------------------------------------
// helpers used by hooks

fn split_path(g: &Global, path: &str) -> Option<(usize, String)> {
    for (k, r) in g.roots.iter().enumerate() {
        if let Some(r) = r {
            if path == r.path {
                return Some((k, String::new()));
            }
            if path.len() > r.path.len() + 1 && path.starts_with(&r.path) && path.as_bytes()[r.path.len()] == b'/' {
                let rest = &path[r.path.len() + 1..];
                if !rest.contains('/') {
                    return Some((k, rest.to_string()));
                }
            }
        }
    }
    None
}

fn check_fault(g: &mut Global, kind: CallKind, role: Role) -> Option<FaultAction> {
    *g.call_counts.entry((kind, role)).or_insert(0) += 1;
    if !g.armed {
        return None;
    }
    let mut hit = None;
    for r in g.rules.iter_mut() {
        if r.kind == kind && r.role.map(|x| x == role).unwrap_or(true) {
            r.seen += 1;
            if !r.fired && r.seen == r.nth && hit.is_none() {
                r.fired = true;
                hit = Some(r.action);
            }
        }
    }
    if let Some(a) = hit {
        g.fired_log.push((kind, role, a));
    }
    hit
}

fn io_point() {
    if IO_YIELD.load(Ordering::Relaxed) && !bypassed() {
        plsim::sim::yield_point();
    }
}

unsafe fn cstr(p: *const c_char) -> Option<String> {
    if p.is_null() {
        return None;
    }
    CStr::from_ptr(p).to_str().ok().map(|s| s.to_string())
}

fn stamp_fd(fd: c_int) {
    if STAMP_MTIME.load(Ordering::Relaxed) && CLOCK_ON.load(Ordering::Relaxed) {
        let now = CLOCK_NS.load(Ordering::SeqCst);
        let ts = libc::timespec { tv_sec: (now / 1_000_000_000) as i64, tv_nsec: (now % 1_000_000_000) as i64 };
        let arr = [ts, ts];
        unsafe { real_futimens()(fd, arr.as_ptr()) };
    }
}

// ------------------------------------------------------------------------------------------------
// hooks: files

unsafe fn open_common(path: *const c_char, flags: c_int, mode: c_uint) -> c_int {
    if !ANY_ROOT.load(Ordering::Relaxed) || bypassed() {
        return real_open64()(path, flags, mode);
    }
    let Some(p) = cstr(path) else {
        return real_open64()(path, flags, mode);
    };
    let target = with_g(|g| split_path(g, &p));
    let Some((root, name)) = target else {
        return real_open64()(path, flags, mode);
    };
    io_point();
    let role = role_of(&name);
    let writes = (flags & libc::O_ACCMODE) != libc::O_RDONLY || (flags & libc::O_CREAT) != 0;
    if writes {
        if let Some(FaultAction::Errno(e)) = with_g(|g| check_fault(g, CallKind::Open, role)) {
            set_errno(e);
            return -1;
        }
    }
    let fd = real_open64()(path, flags, mode);
    if fd < 0 {
        return fd;
    }
    with_g(|g| {
        let Some(Some(r)) = g.roots.get_mut(root) else { return };
        if name.is_empty() {
            g.fds.insert(fd, FdInfo { root, ino: 0, name, append: false, is_dir: true });
            return;
        }
        let existing = r.names.get(&name).copied();
        let ino = match existing {
            Some(i) => {
                if (flags & libc::O_TRUNC) != 0 && writes {
                    r.sizes.insert(i, 0);
                    if r.journaling {
                        r.jpush(Effect::Trunc { ino: i, len: 0 });
                    }
                }
                i
            }
            None => {
                if (flags & libc::O_CREAT) != 0 {
                    let i = r.next_ino;
                    r.next_ino += 1;
                    r.names.insert(name.clone(), i);
                    r.sizes.insert(i, 0);
                    if r.journaling {
                        r.jpush(Effect::Create { ino: i, name: name.clone() });
                    }
                    i
                } else {
                    // file exists on disk but unknown to the model (should not happen): treat as untracked
                    return;
                }
            }
        };
        g.fds.insert(fd, FdInfo { root, ino, name, append: (flags & libc::O_APPEND) != 0, is_dir: false });
    });
    if writes {
        stamp_fd(fd);
    }
    fd
}

#[no_mangle]
pub unsafe extern "C" fn open64(path: *const c_char, flags: c_int, mode: c_uint) -> c_int {
    open_common(path, flags, mode)
}

#[no_mangle]
pub unsafe extern "C" fn open(path: *const c_char, flags: c_int, mode: c_uint) -> c_int {
    open_common(path, flags, mode)
}

#[no_mangle]
pub unsafe extern "C" fn creat(path: *const c_char, mode: mode_t) -> c_int {
    open_common(path, libc::O_CREAT | libc::O_WRONLY | libc::O_TRUNC, mode as c_uint)
}

#[no_mangle]
pub unsafe extern "C" fn creat64(path: *const c_char, mode: mode_t) -> c_int {
    open_common(path, libc::O_CREAT | libc::O_WRONLY | libc::O_TRUNC, mode as c_uint)
}

#[no_mangle]
pub unsafe extern "C" fn close(fd: c_int) -> c_int {
    if ANY_ROOT.load(Ordering::Relaxed) && !bypassed() {
        with_g(|g| {
            g.fds.remove(&fd);
        });
    }
    real_close()(fd)
}

fn tracked(fd: c_int) -> Option<FdInfo> {
    if !ANY_ROOT.load(Ordering::Relaxed) || bypassed() {
        return None;
    }
    with_g(|g| g.fds.get(&fd).cloned())
}

unsafe fn write_common(fd: c_int, buf: *const c_void, count: size_t, pos: Option<off_t>) -> ssize_t {
    let do_real = |n: size_t| -> ssize_t {
        match pos {
            Some(o) => real_pwrite64()(fd, buf, n, o),
            None => real_write()(fd, buf, n),
        }
    };
    let Some(info) = tracked(fd) else {
        return do_real(count);
    };
    if info.is_dir || count == 0 {
        return do_real(count);
    }
    io_point();
    let role = role_of(&info.name);
    let mut n = count;
    match with_g(|g| check_fault(g, CallKind::Write, role)) {
        Some(FaultAction::Errno(e)) => {
            set_errno(e);
            return -1;
        }
        Some(FaultAction::Short(k)) => {
            n = k.min(count.saturating_sub(1)).max(1);
            if count == 1 {
                n = 1;
            }
        }
        _ => {}
    }
    let off: u64 = match pos {
        Some(o) => o as u64,
        None => {
            if info.append {
                with_g(|g| g.roots[info.root].as_ref().and_then(|r| r.sizes.get(&info.ino).copied()).unwrap_or(0))
            } else {
                real_lseek64()(fd, 0, libc::SEEK_CUR) as u64
            }
        }
    };
    let r = do_real(n);
    if r > 0 {
        let data = std::slice::from_raw_parts(buf as *const u8, r as usize).to_vec();
        with_g(|g| {
            if let Some(Some(root)) = g.roots.get_mut(info.root) {
                let end = off + r as u64;
                let sz = root.sizes.entry(info.ino).or_insert(0);
                if *sz < end {
                    *sz = end;
                }
                if root.journaling {
                    root.jpush(Effect::Write { ino: info.ino, off, data });
                }
            }
        });
        stamp_fd(fd);
    }
    r
}

#[no_mangle]
pub unsafe extern "C" fn write(fd: c_int, buf: *const c_void, count: size_t) -> ssize_t {
    write_common(fd, buf, count, None)
}

#[no_mangle]
pub unsafe extern "C" fn pwrite64(fd: c_int, buf: *const c_void, count: size_t, off: off_t) -> ssize_t {
    write_common(fd, buf, count, Some(off))
}

#[no_mangle]
pub unsafe extern "C" fn pwrite(fd: c_int, buf: *const c_void, count: size_t, off: off_t) -> ssize_t {
    write_common(fd, buf, count, Some(off))
}

#[no_mangle]
pub unsafe extern "C" fn writev(fd: c_int, iov: *const libc::iovec, iovcnt: c_int) -> ssize_t {
    // performed as sequential writes so that every byte passes the journal
    let mut total: ssize_t = 0;
    for i in 0..iovcnt as isize {
        let v = &*iov.offset(i);
        if v.iov_len == 0 {
            continue;
        }
        let r = write_common(fd, v.iov_base, v.iov_len, None);
        if r < 0 {
            return if total > 0 { total } else { r };
        }
        total += r;
        if (r as usize) < v.iov_len {
            break;
        }
    }
    total
}

unsafe fn sync_common(fd: c_int, data_only: bool) -> c_int {
    let do_real = || if data_only { real_fdatasync()(fd) } else { real_fsync()(fd) };
    let Some(info) = tracked(fd) else {
        return do_real();
    };
    io_point();
    let role = if info.is_dir { Role::Dir } else { role_of(&info.name) };
    let kind = if data_only { CallKind::Fdatasync } else { CallKind::Fsync };
    if let Some(FaultAction::Errno(e)) = with_g(|g| check_fault(g, kind, role)) {
        set_errno(e);
        return -1;
    }
    // tmpfs: nothing to do for real; the journal entry is what matters
    with_g(|g| {
        if let Some(Some(root)) = g.roots.get_mut(info.root) {
            if root.journaling {
                root.jpush(if info.is_dir { Effect::FsyncDir } else { Effect::FsyncFile { ino: info.ino } });
            }
        }
    });
    0
}

#[no_mangle]
pub unsafe extern "C" fn fsync(fd: c_int) -> c_int {
    sync_common(fd, false)
}

#[no_mangle]
pub unsafe extern "C" fn fdatasync(fd: c_int) -> c_int {
    sync_common(fd, true)
}

unsafe fn truncate_common(fd: c_int, len: off_t) -> c_int {
    let Some(info) = tracked(fd) else {
        return real_ftruncate64()(fd, len);
    };
    io_point();
    if let Some(FaultAction::Errno(e)) = with_g(|g| check_fault(g, CallKind::Ftruncate, role_of(&info.name))) {
        set_errno(e);
        return -1;
    }
    let r = real_ftruncate64()(fd, len);
    if r == 0 {
        with_g(|g| {
            if let Some(Some(root)) = g.roots.get_mut(info.root) {
                root.sizes.insert(info.ino, len as u64);
                if root.journaling {
                    root.jpush(Effect::Trunc { ino: info.ino, len: len as u64 });
                }
            }
        });
        stamp_fd(fd);
    }
    r
}

#[no_mangle]
pub unsafe extern "C" fn ftruncate64(fd: c_int, len: off_t) -> c_int {
    truncate_common(fd, len)
}

#[no_mangle]
pub unsafe extern "C" fn ftruncate(fd: c_int, len: off_t) -> c_int {
    truncate_common(fd, len)
}

#[no_mangle]
pub unsafe extern "C" fn rename(old: *const c_char, new: *const c_char) -> c_int {
    if !ANY_ROOT.load(Ordering::Relaxed) || bypassed() {
        return real_rename()(old, new);
    }
    let (Some(o), Some(n)) = (cstr(old), cstr(new)) else {
        return real_rename()(old, new);
    };
    let t = with_g(|g| (split_path(g, &o), split_path(g, &n)));
    let (Some((ro, no)), Some((rn, nn))) = t else {
        return real_rename()(old, new);
    };
    if ro != rn {
        return real_rename()(old, new);
    }
    io_point();
    if let Some(FaultAction::Errno(e)) = with_g(|g| check_fault(g, CallKind::Rename, role_of(&nn))) {
        set_errno(e);
        return -1;
    }
    let r = real_rename()(old, new);
    if r == 0 {
        with_g(|g| {
            if let Some(Some(root)) = g.roots.get_mut(ro) {
                if let Some(i) = root.names.remove(&no) {
                    root.names.insert(nn.clone(), i);
                }
                for f in g.fds.values_mut() {
                    if f.root == ro && f.name == no {
                        f.name = nn.clone();
                    }
                }
                if root.journaling {
                    root.jpush(Effect::Rename { from: no, to: nn });
                }
            }
        });
    }
    r
}

#[no_mangle]
pub unsafe extern "C" fn unlink(path: *const c_char) -> c_int {
    if !ANY_ROOT.load(Ordering::Relaxed) || bypassed() {
        return real_unlink()(path);
    }
    let Some(p) = cstr(path) else {
        return real_unlink()(path);
    };
    let Some((root, name)) = with_g(|g| split_path(g, &p)) else {
        return real_unlink()(path);
    };
    io_point();
    if let Some(FaultAction::Errno(e)) = with_g(|g| check_fault(g, CallKind::Unlink, role_of(&name))) {
        set_errno(e);
        return -1;
    }
    let r = real_unlink()(path);
    if r == 0 {
        with_g(|g| {
            if let Some(Some(rt)) = g.roots.get_mut(root) {
                rt.names.remove(&name);
                if rt.journaling {
                    rt.jpush(Effect::Unlink { name });
                }
            }
        });
    }
    r
}

unsafe fn statvfs_fault(path: *const c_char) -> Option<f64> {
    if !ANY_ROOT.load(Ordering::Relaxed) || bypassed() {
        return None;
    }
    let p = cstr(path)?;
    with_g(|g| {
        split_path(g, &p)?;
        match check_fault(g, CallKind::Statvfs, Role::Dir) {
            Some(FaultAction::LowSpace(f)) => Some(f),
            _ => None,
        }
    })
}

#[no_mangle]
pub unsafe extern "C" fn statvfs(path: *const c_char, buf: *mut libc::statvfs) -> c_int {
    let low = statvfs_fault(path);
    let r = real_statvfs()(path, buf);
    if r == 0 {
        if let Some(f) = low {
            let b = &mut *buf;
            b.f_bavail = ((b.f_blocks as f64) * f) as _;
            b.f_bfree = b.f_bavail;
        }
    }
    r
}

#[no_mangle]
pub unsafe extern "C" fn statvfs64(path: *const c_char, buf: *mut libc::statvfs64) -> c_int {
    let low = statvfs_fault(path);
    let r = real_statvfs64()(path, buf);
    if r == 0 {
        if let Some(f) = low {
            let b = &mut *buf;
            b.f_bavail = ((b.f_blocks as f64) * f) as _;
            b.f_bfree = b.f_bavail;
        }
    }
    r
}

// ------------------------------------------------------------------------------------------------
// hooks: clock, sleep, randomness

fn sim_clock_read() -> u64 {
    if on_sim_thread() && !frozen() {
        CLOCK_NS.fetch_add(CLOCK_TICK_NS.load(Ordering::Relaxed), Ordering::SeqCst)
    } else {
        CLOCK_NS.load(Ordering::SeqCst)
    }
}

#[no_mangle]
pub unsafe extern "C" fn clock_gettime(clk: libc::clockid_t, ts: *mut libc::timespec) -> c_int {
    if CLOCK_ON.load(Ordering::Relaxed) && !bypassed() {
        match clk {
            libc::CLOCK_REALTIME
            | libc::CLOCK_MONOTONIC
            | libc::CLOCK_MONOTONIC_RAW
            | libc::CLOCK_MONOTONIC_COARSE
            | libc::CLOCK_REALTIME_COARSE
            | libc::CLOCK_BOOTTIME => {
                let now = sim_clock_read();
                (*ts).tv_sec = (now / 1_000_000_000) as _;
                (*ts).tv_nsec = (now % 1_000_000_000) as _;
                return 0;
            }
            _ => {}
        }
    }
    real_clock_gettime()(clk, ts)
}

#[no_mangle]
pub unsafe extern "C" fn gettimeofday(tv: *mut libc::timeval, tz: *mut c_void) -> c_int {
    if CLOCK_ON.load(Ordering::Relaxed) && !bypassed() && !tv.is_null() {
        let now = sim_clock_read();
        (*tv).tv_sec = (now / 1_000_000_000) as _;
        (*tv).tv_usec = ((now % 1_000_000_000) / 1000) as _;
        return 0;
    }
    real_gettimeofday()(tv, tz)
}

#[no_mangle]
pub unsafe extern "C" fn time(t: *mut libc::time_t) -> libc::time_t {
    if CLOCK_ON.load(Ordering::Relaxed) && !bypassed() {
        let now = (sim_clock_read() / 1_000_000_000) as libc::time_t;
        if !t.is_null() {
            *t = now;
        }
        return now;
    }
    real_time()(t)
}

#[no_mangle]
pub unsafe extern "C" fn nanosleep(req: *const libc::timespec, rem: *mut libc::timespec) -> c_int {
    if CLOCK_ON.load(Ordering::Relaxed) && !bypassed() && !req.is_null() {
        if !on_sim_thread() {
            // a helper thread's sleep must not move simulated time: really wait a little instead
            let short = libc::timespec { tv_sec: 0, tv_nsec: 200_000 };
            return real_nanosleep()(&short, rem);
        }
        let d = (*req).tv_sec as u64 * 1_000_000_000 + (*req).tv_nsec as u64;
        CLOCK_NS.fetch_add(d, Ordering::SeqCst);
        SLEEP_TOTAL_NS.fetch_add(d, Ordering::Relaxed);
        if IO_YIELD.load(Ordering::Relaxed) {
            plsim::sim::yield_point();
        }
        return 0;
    }
    real_nanosleep()(req, rem)
}

#[no_mangle]
pub unsafe extern "C" fn clock_nanosleep(
    clk: libc::clockid_t,
    flags: c_int,
    req: *const libc::timespec,
    rem: *mut libc::timespec,
) -> c_int {
    if CLOCK_ON.load(Ordering::Relaxed) && !bypassed() && !req.is_null() {
        if !on_sim_thread() {
            let short = libc::timespec { tv_sec: 0, tv_nsec: 200_000 };
            return real_nanosleep()(&short, std::ptr::null_mut());
        }
        let t = (*req).tv_sec as u64 * 1_000_000_000 + (*req).tv_nsec as u64;
        let d = if (flags & libc::TIMER_ABSTIME) != 0 { t.saturating_sub(CLOCK_NS.load(Ordering::SeqCst)) } else { t };
        CLOCK_NS.fetch_add(d, Ordering::SeqCst);
        SLEEP_TOTAL_NS.fetch_add(d, Ordering::Relaxed);
        if IO_YIELD.load(Ordering::Relaxed) {
            plsim::sim::yield_point();
        }
        return 0;
    }
    real_clock_nanosleep()(clk, flags, req, rem)
}

#[no_mangle]
pub unsafe extern "C" fn getrandom(buf: *mut c_void, len: size_t, flags: c_uint) -> ssize_t {
    if RAND_ON.load(Ordering::Relaxed) {
        let out = std::slice::from_raw_parts_mut(buf as *mut u8, len);
        let mut i = 0;
        while i < len {
            let st = if on_sim_thread() { &RAND_STATE } else { &RAND_STATE_AUX };
            let s = st.fetch_add(0x9E3779B97F4A7C15, Ordering::SeqCst).wrapping_add(0x9E3779B97F4A7C15);
            let mut z = s;
            z = (z ^ (z >> 30)).wrapping_mul(0xBF58476D1CE4E5B9);
            z = (z ^ (z >> 27)).wrapping_mul(0x94D049BB133111EB);
            z ^= z >> 31;
            for b in z.to_le_bytes() {
                if i < len {
                    out[i] = b;
                    i += 1;
                }
            }
        }
        return len as ssize_t;
    }
    real_getrandom()(buf, len, flags)
}

#[allow(dead_code)]
pub fn unused(_: c_long) {}
