//! C11: metadata filters select exactly the matching documents -- judged inside simulated histories with
//! overwrites, metadata merges/replacements, deletes, tombstone compaction, restarts and filtered batch deletes.
//! The reference is the harness's own implementation of the documented semantics over its own filter tree.

use crate::common::*;
use crate::hist::{on_fresh_thread, reset_env};
use crate::report::{Summary, Violation};
use crate::rng::Rng;
use crate::simlibc;
use kyrodb_engine::proto::{metadata_filter::FilterType, range_match::Bound, AndFilter, ExactMatch, InMatch, MetadataFilter, NotFilter, OrFilter, RangeMatch};
use serde::{Deserialize, Serialize};
use serde_json::json;
use std::collections::{BTreeMap, BTreeSet};

#[derive(Clone, Debug, PartialEq, Serialize, Deserialize)]
pub enum F {
    NoFilter,
    Exact { key: String, value: String },
    In { key: String, values: Vec<String> },
    /// op: 0 gte, 1 lte, 2 gt, 3 lt; None = range without bound
    Range { key: String, bound: Option<(u8, String)> },
    And(Vec<F>),
    Or(Vec<F>),
    Not(Option<Box<F>>),
}

impl F {
    pub fn to_proto(&self) -> MetadataFilter {
        let ft = match self {
            F::NoFilter => None,
            F::Exact { key, value } => Some(FilterType::Exact(ExactMatch { key: key.clone(), value: value.clone() })),
            F::In { key, values } => Some(FilterType::InMatch(InMatch { key: key.clone(), values: values.clone() })),
            F::Range { key, bound } => Some(FilterType::Range(RangeMatch {
                key: key.clone(),
                bound: bound.as_ref().map(|(op, v)| match op {
                    0 => Bound::Gte(v.clone()),
                    1 => Bound::Lte(v.clone()),
                    2 => Bound::Gt(v.clone()),
                    _ => Bound::Lt(v.clone()),
                }),
            })),
            F::And(fs) => Some(FilterType::AndFilter(AndFilter { filters: fs.iter().map(|f| f.to_proto()).collect() })),
            F::Or(fs) => Some(FilterType::OrFilter(OrFilter { filters: fs.iter().map(|f| f.to_proto()).collect() })),
            F::Not(inner) => Some(FilterType::NotFilter(Box::new(NotFilter { filter: inner.as_ref().map(|f| Box::new(f.to_proto())) }))),
        };
        MetadataFilter { filter_type: ft }
    }
    pub fn shape(&self) -> String {
        match self {
            F::NoFilter => "none".into(),
            F::Exact { .. } => "exact".into(),
            F::In { .. } => "in".into(),
            F::Range { bound: None, .. } => "range_unbounded".into(),
            F::Range { bound: Some((_, v)), .. } => {
                if v.parse::<f64>().is_ok() {
                    "range_numeric_bound".into()
                } else {
                    "range_lexical_bound".into()
                }
            }
            F::And(fs) => {
                if fs.is_empty() {
                    "and_empty".into()
                } else {
                    "and".into()
                }
            }
            F::Or(fs) => {
                if fs.is_empty() {
                    "or_empty".into()
                } else {
                    "or".into()
                }
            }
            F::Not(None) => "not_empty".into(),
            F::Not(Some(i)) => format!("not({})", i.shape()),
        }
    }
}

/// Documented semantics: numeric comparison iff both sides parse as f64, else lexicographic; missing key false;
/// empty OR false; NOT without operand false; empty AND / no filter true.
pub fn ref_matches(f: &F, m: &Meta) -> bool {
    match f {
        F::NoFilter => true,
        F::Exact { key, value } => m.get(key) == Some(value),
        F::In { key, values } => m.get(key).map(|v| values.contains(v)).unwrap_or(false),
        F::Range { key, bound } => {
            let Some(v) = m.get(key) else { return false };
            let Some((op, b)) = bound else { return true };
            if let (Ok(x), Ok(y)) = (v.parse::<f64>(), b.parse::<f64>()) {
                match op {
                    0 => x >= y,
                    1 => x <= y,
                    2 => x > y,
                    _ => x < y,
                }
            } else {
                match op {
                    0 => v.as_str() >= b.as_str(),
                    1 => v.as_str() <= b.as_str(),
                    2 => v.as_str() > b.as_str(),
                    _ => v.as_str() < b.as_str(),
                }
            }
        }
        F::And(fs) => fs.iter().all(|x| ref_matches(x, m)),
        F::Or(fs) => fs.iter().any(|x| ref_matches(x, m)),
        F::Not(None) => false,
        F::Not(Some(i)) => !ref_matches(i, m),
    }
}

pub const VALUES: [&str; 16] = ["5", "05", "+5", "5.0", "5e0", "-0", "0", "inf", "-inf", "NaN", " 5", "", "é", "10", "a", "-3.5"];
const KEYS: [&str; 2] = ["k", "s"];

fn long_value() -> String {
    "x".repeat(300)
}

fn gen_value(rng: &mut Rng) -> String {
    if rng.chance(1, 25) {
        long_value()
    } else {
        rng.pick(&VALUES).to_string()
    }
}

fn gen_meta11(rng: &mut Rng, w: u64) -> Meta {
    let mut m = Meta::new();
    // documents without any metadata are part of every NOT / match-all / empty-AND selection
    if rng.chance(1, 8) {
        return m;
    }
    m.insert("w".into(), w.to_string());
    for k in KEYS {
        if rng.chance(3, 4) {
            m.insert(k.to_string(), gen_value(rng));
        }
    }
    m
}

pub fn gen_filter(rng: &mut Rng, depth: u32) -> F {
    let leaf = depth == 0 || rng.chance(1, 2);
    if leaf {
        let key = if rng.chance(1, 12) { "missing".to_string() } else { rng.pick(&KEYS).to_string() };
        match rng.below(10) {
            0..=2 => F::Exact { key, value: gen_value(rng) },
            3..=4 => F::In { key, values: (0..rng.below(4)).map(|_| gen_value(rng)).collect() },
            5..=8 => F::Range { key, bound: if rng.chance(1, 8) { None } else { Some((rng.below(4) as u8, gen_value(rng))) } },
            _ => F::NoFilter,
        }
    } else {
        match rng.below(10) {
            0..=3 => F::And((0..rng.below(4)).map(|_| gen_filter(rng, depth - 1)).collect()),
            4..=6 => F::Or((0..rng.below(4)).map(|_| gen_filter(rng, depth - 1)).collect()),
            _ => F::Not(if rng.chance(1, 10) { None } else { Some(Box::new(gen_filter(rng, depth - 1))) }),
        }
    }
}

/// "Arbitrarily nested": a filter under a tower of and / or / not wrappers (single-operand and / or, an and with a
/// match-all sibling, an or with an empty-or sibling, not), 5 to 200 levels high, with heights around 32 and 64.
pub fn wrap_deep(rng: &mut Rng, inner: F) -> F {
    let levels = *rng.pick(&[5u32, 16, 31, 32, 33, 34, 40, 63, 64, 65, 100, 200]);
    let mut f = inner;
    for _ in 0..levels {
        f = match rng.below(8) {
            0..=2 => F::Not(Some(Box::new(f))),
            3 => F::And(vec![f]),
            4 => F::Or(vec![f]),
            5 => F::And(vec![f, F::NoFilter]),
            6 => F::Or(vec![F::Or(vec![]), f]),
            _ => F::Not(Some(Box::new(F::Not(Some(Box::new(f)))))),
        };
    }
    f
}

#[derive(Clone, Debug, PartialEq, Serialize, Deserialize)]
pub enum Step {
    Op(OpK),
    /// evaluate these filters against the live engine
    Eval(Vec<F>),
    /// TieredEngine only: filtered batch delete
    DeleteWhere(F),
}

#[derive(Clone, Debug, PartialEq, Serialize, Deserialize)]
pub struct Plan {
    pub cfg: Cfg,
    pub steps: Vec<Step>,
    pub universe: u64,
    pub env_seed: u64,
}

#[derive(Clone, Debug, Serialize, Deserialize)]
pub struct Replay {
    pub check: String,
    pub plan: Plan,
    pub clause: String,
}

/// The exhaustive small scope: all leaves over the 2-key x value alphabet, each also under NOT.
pub fn leaf_catalogue() -> Vec<F> {
    let mut out = vec![F::NoFilter, F::And(vec![]), F::Or(vec![]), F::Not(None)];
    for k in KEYS.iter().chain(["missing"].iter()) {
        out.push(F::Range { key: k.to_string(), bound: None });
        for v in VALUES.iter() {
            out.push(F::Exact { key: k.to_string(), value: v.to_string() });
            for op in 0..4u8 {
                out.push(F::Range { key: k.to_string(), bound: Some((op, v.to_string())) });
            }
        }
    }
    let n = out.len();
    for i in 0..n {
        out.push(F::Not(Some(Box::new(out[i].clone()))));
    }
    out
}

pub fn gen_plan(seed: u64, run: u64, tier: &str) -> Plan {
    let mut rng = Rng::for_run(seed, "C11", run);
    let fs = [Fsync::Never, Fsync::Always];
    let mut cfg = Cfg::gen(&mut rng, &fs);
    cfg.dim = 2;
    cfg.capacity = *rng.pick(&[4usize, 8, 1000]);
    cfg.tiered = rng.chance(1, 2);
    let universe = rng.range(2, 7);
    let n = rng.range(4, if tier == "thorough" { 50 } else { 26 }) as usize;
    let mut steps = Vec::new();
    let mut w = 0u64;
    let cat = leaf_catalogue();
    for i in 0..n {
        let id = rng.below(universe);
        let r = rng.below(100);
        let op = if r < 35 {
            w += 1;
            OpK::Insert { id, vec: bits(&gen_vector(&mut rng, cfg.dim, w)), meta: gen_meta11(&mut rng, w) }
        } else if r < 55 {
            w += 1;
            // merges that turn a numeric value into a string (and back)
            let mut m = Meta::new();
            m.insert(rng.pick(&KEYS).to_string(), gen_value(&mut rng));
            if rng.chance(1, 3) {
                m.insert("w".into(), w.to_string());
            }
            if rng.chance(1, 10) {
                // replace with the empty map
                OpK::UpdateMeta { id, meta: Meta::new(), merge: false }
            } else {
                OpK::UpdateMeta { id, meta: m, merge: rng.chance(2, 3) }
            }
        } else if r < 67 {
            OpK::Delete { id }
        } else if r < 72 {
            OpK::BatchDelete { ids: vec![id, rng.below(universe)] }
        } else if r < 78 {
            OpK::Restart
        } else if r < 82 {
            OpK::Snapshot
        } else if r < 86 && cfg.tiered {
            w += 1;
            OpK::BulkLoad { docs: vec![(id, bits(&gen_vector(&mut rng, cfg.dim, w)), gen_meta11(&mut rng, w))] }
        } else if r < 90 && cfg.tiered {
            let f = gen_filter(&mut rng, 2);
            let f = if rng.chance(1, 6) { wrap_deep(&mut rng, f) } else { f };
            steps.push(Step::DeleteWhere(f));
            continue;
        } else {
            let mut fs: Vec<F> = (0..6)
                .map(|_| {
                    let d = rng.range(0, 4) as u32;
                    gen_filter(&mut rng, d)
                })
                .collect();
            // towers of wrappers over a leaf or a small tree
            if rng.chance(1, 3) {
                for _ in 0..2 {
                    let inner = if rng.chance(1, 2) { cat[rng.below(cat.len() as u64) as usize].clone() } else { gen_filter(&mut rng, 2) };
                    fs.push(wrap_deep(&mut rng, inner));
                }
            }
            // a rotating window of the exhaustive leaf catalogue
            let off = (run as usize * 7 + i * 13) % cat.len();
            for j in 0..14 {
                fs.push(cat[(off + j) % cat.len()].clone());
            }
            steps.push(Step::Eval(fs));
            continue;
        };
        let follow = matches!(op, OpK::UpdateMeta { .. } | OpK::Restart | OpK::Delete { .. }) && rng.chance(1, 2);
        steps.push(Step::Op(op));
        if follow {
            let off = rng.below(cat.len() as u64) as usize;
            let mut fs: Vec<F> = (0..10).map(|j| cat[(off + j) % cat.len()].clone()).collect();
            fs.push(gen_filter(&mut rng, 3));
            steps.push(Step::Eval(fs));
        }
    }
    let off = rng.below(cat.len() as u64) as usize;
    steps.push(Step::Eval((0..24).map(|j| cat[(off + j) % cat.len()].clone()).collect()));
    Plan { cfg, steps, universe, env_seed: rng.next() }
}

pub struct Problem {
    pub clause: String,
    pub message: String,
    pub facts: BTreeMap<String, String>,
}

struct Exec {
    problems: Vec<Problem>,
    filters_evaluated: u64,
    pairs_checked: u64,
    shapes: BTreeSet<u64>,
    probes: BTreeMap<String, u64>,
}

fn value_class(v: &str) -> &'static str {
    if v.len() > 100 {
        "very_long"
    } else if v.is_empty() {
        "empty"
    } else if v == "NaN" {
        "nan"
    } else if v.contains("inf") {
        "infinity"
    } else if v.starts_with(' ') {
        "leading_whitespace"
    } else if !v.is_ascii() {
        "non_ascii"
    } else if v.parse::<f64>().is_ok() {
        "numeric"
    } else {
        "text"
    }
}

fn execute_inner(plan: &Plan) -> Exec {
    let mut ex = Exec { problems: vec![], filters_evaluated: 0, pairs_checked: 0, shapes: BTreeSet::new(), probes: BTreeMap::new() };
    let dir = fresh_dir("c11", 0);
    let root = simlibc::register_root(&dir, None, false);
    let mut eng = match Eng::create(&plan.cfg, &dir) {
        Ok(e) => Some(e),
        Err(_) => None,
    };
    let mut model = Model::new();
    let mut since_rewrite: BTreeSet<&'static str> = BTreeSet::new(); // what happened since the index was last rebuilt
    for (k, step) in plan.steps.iter().enumerate() {
        let Some(e) = eng.as_ref() else { break };
        match step {
            Step::Op(op) => match op {
                OpK::Restart => {
                    drop(eng.take());
                    match Eng::recover(&plan.cfg, &dir) {
                        Ok(e2) => eng = Some(e2),
                        Err(_) => break,
                    }
                    since_rewrite.clear();
                    since_rewrite.insert("recovery");
                }
                _ => {
                    if e.apply(op).is_ok() {
                        match op {
                            OpK::Insert { id, meta, .. } => {
                                if let Some(v) = e.backend().fetch_document(*id) {
                                    since_rewrite.insert(if model.contains_key(id) { "overwrite" } else { "insert" });
                                    model.insert(*id, (bits(&v), meta.clone()));
                                }
                            }
                            OpK::BulkLoad { docs } => {
                                for (id, _, meta) in docs {
                                    // per-item failures (index full) are only reported as a count: an item took
                                    // effect iff the canonical metadata is now the item's metadata ("w" is unique)
                                    if let (Some(v), Some(m)) = (e.backend().fetch_document(*id), e.backend().fetch_metadata(*id)) {
                                        if to_btree(&m) == *meta {
                                            model.insert(*id, (bits(&v), meta.clone()));
                                        }
                                    }
                                }
                                since_rewrite.insert("bulk_load");
                            }
                            OpK::UpdateMeta { merge, .. } => {
                                model_apply(&mut model, op);
                                since_rewrite.insert(if *merge { "metadata_merge" } else { "metadata_replace" });
                            }
                            OpK::Delete { .. } | OpK::BatchDelete { .. } => {
                                model_apply(&mut model, op);
                                since_rewrite.insert("delete");
                            }
                            _ => model_apply(&mut model, op),
                        }
                    }
                }
            },
            Step::Eval(fs) => {
                for f in fs {
                    ex.filters_evaluated += 1;
                    let proto = f.to_proto();
                    let got: BTreeSet<u64> = e.backend().ids_for_metadata_filter(&proto).into_iter().collect();
                    let want: BTreeSet<u64> = model.iter().filter(|(_, d)| ref_matches(f, &d.1)).map(|(i, _)| *i).collect();
                    let mut h = 0xcbf29ce484222325u64;
                    for b in format!("{:?}{:?}", f, want).bytes() {
                        h = (h ^ b as u64).wrapping_mul(0x100000001b3);
                    }
                    if !want.is_empty() && want.len() < model.len() {
                        ex.shapes.insert(h);
                    }
                    if got != want {
                        let missing: Vec<u64> = want.difference(&got).copied().collect();
                        let extra: Vec<u64> = got.difference(&want).copied().collect();
                        let culprit = missing.first().or(extra.first()).copied();
                        let mut facts = BTreeMap::new();
                        facts.insert("filter_shape".into(), f.shape());
                        facts.insert("direction".into(), if !missing.is_empty() && extra.is_empty() { "matching_document_not_selected" } else if missing.is_empty() { "non_matching_document_selected" } else { "both" }.into());
                        // value class of the culprit's value under the filter's key (if a leaf)
                        let key = match f {
                            F::Exact { key, .. } | F::In { key, .. } | F::Range { key, .. } => Some(key.clone()),
                            F::Not(Some(inner)) => match inner.as_ref() {
                                F::Exact { key, .. } | F::In { key, .. } | F::Range { key, .. } => Some(key.clone()),
                                _ => None,
                            },
                            _ => None,
                        };
                        if let (Some(key), Some(id)) = (key, culprit) {
                            if let Some(d) = model.get(&id) {
                                facts.insert("document_value_class".into(), d.1.get(&key).map(|v| value_class(v)).unwrap_or("missing_key").to_string());
                            }
                        }
                        facts.insert("since_index_rebuild".into(), since_rewrite.iter().copied().collect::<Vec<_>>().join("+"));
                        ex.problems.push(Problem { clause: "selected_set_differs".into(), message: format!("step {}: filter {:?} selects {:?} but the matching live documents are {:?} (metadata: {:?})", k + 1, f, got, want, culprit.and_then(|i| model.get(&i)).map(|d| &d.1)), facts });
                        if ex.problems.len() >= 3 {
                            break;
                        }
                    }
                    // engine's own matcher vs reference on every live metadata map
                    for (id, d) in &model {
                        ex.pairs_checked += 1;
                        let m = kyrodb_engine::metadata_filter::matches(&proto, &to_hash(&d.1));
                        if m != ref_matches(f, &d.1) {
                            let mut facts = BTreeMap::new();
                            facts.insert("filter_shape".into(), f.shape());
                            ex.problems.push(Problem { clause: "matcher_differs_from_reference".into(), message: format!("step {}: metadata_filter::matches({:?}, {:?}) = {} (document {})", k + 1, f, d.1, m, id), facts });
                            break;
                        }
                    }
                }
            }
            Step::DeleteWhere(f) => {
                if let Eng::T(t) = e {
                    let want: BTreeSet<u64> = model.iter().filter(|(_, d)| ref_matches(f, &d.1)).map(|(i, _)| *i).collect();
                    if t.batch_delete_by_metadata_filter(&f.to_proto()).is_ok() {
                        *ex.probes.entry("filtered_batch_delete".into()).or_insert(0) += 1;
                        for id in &want {
                            model.remove(id);
                        }
                        if !want.is_empty() {
                            since_rewrite.insert("delete");
                        }
                        let c = census(t.cold_tier(), plan.universe);
                        if let Err(m) = census_matches(&c, &model) {
                            let mut facts = BTreeMap::new();
                            facts.insert("filter_shape".into(), f.shape());
                            facts.insert("direction".into(), if m.contains("missing []") { "matching_document_not_removed" } else { "non_matching_document_removed" }.into());
                            ex.problems.push(Problem { clause: "filtered_delete_removed_wrong_set".into(), message: format!("step {}: batch_delete_by_metadata_filter({:?}) should remove exactly {:?}: {}", k + 1, f, want, m), facts });
                            model = c.docs.clone();
                        }
                    }
                }
            }
        }
        if !ex.problems.is_empty() {
            break;
        }
    }
    drop(eng.take());
    simlibc::unregister_root(root);
    remove_dir(&dir);
    ex
}

pub fn execute(plan: &Plan, sum: &mut Summary) -> Vec<Problem> {
    reset_env(plan.env_seed);
    let p = plan.clone();
    match on_fresh_thread(move || execute_inner(&p)) {
        Ok(ex) => {
            sum.evaluations += ex.filters_evaluated;
            sum.count("filter_metadata_pairs_checked_against_matcher", ex.pairs_checked);
            for h in &ex.shapes {
                sum.distinct_hash(*h);
            }
            for (k, v) in &ex.probes {
                sum.probe(k, *v);
            }
            ex.problems
        }
        Err(p) => vec![Problem { clause: "harness_thread_panicked".into(), message: p, facts: BTreeMap::new() }],
    }
}

fn key_of(p: &Problem) -> String {
    let mut s = format!("C11|{}", p.clause);
    for (k, v) in &p.facts {
        s.push_str(&format!("|{}={}", k, v));
    }
    s
}

pub fn run_batch(seed: u64, start: u64, count: u64, tier: &str, budget_ms: u64, sum: &mut Summary) {
    let t0 = simlibc::real_now_ns();
    for run in start..start + count {
        if budget_ms > 0 && (simlibc::real_now_ns() - t0) / 1_000_000 > budget_ms {
            break;
        }
        let plan = gen_plan(seed, run, tier);
        let problems = execute(&plan, sum);
        sum.runs += 1;
        if sum.runs <= 2 {
            sum.sample(json!({"run": run, "cfg": plan.cfg, "steps": plan.steps.iter().take(5).collect::<Vec<_>>() }));
        }
        for p in problems {
            let key = key_of(&p);
            if !sum.class_first(&key) || sum.violations.len() >= 12 {
                continue;
            }
            let mut best = plan.clone();
            let mut scratch = Summary::new("C11", 0);
            let mut tries = 0;
            let mut chunk = (best.steps.len() / 2).max(1);
            if sum.violations.len() < 6 {
                loop {
                    let mut i = 0;
                    let mut progress = false;
                    while i < best.steps.len() && tries < 150 {
                        let mut cand = best.clone();
                        let end = (i + chunk).min(cand.steps.len());
                        cand.steps.drain(i..end);
                        tries += 1;
                        if execute(&cand, &mut scratch).iter().any(|x| key_of(x) == key) {
                            best = cand;
                            progress = true;
                        } else {
                            i += chunk;
                        }
                    }
                    if tries >= 150 || (chunk == 1 && !progress) {
                        break;
                    }
                    if chunk > 1 {
                        chunk /= 2;
                    }
                }
            }
            let msg = execute(&best, &mut scratch).into_iter().find(|x| key_of(x) == key).map(|x| x.message).unwrap_or(p.message.clone());
            sum.violations.push(Violation {
                property: "C11".into(),
                clause: p.clause.clone(),
                facts: p.facts.clone(),
                message: msg,
                seed,
                run,
                replay: serde_json::to_value(Replay { check: "C11".into(), plan: best, clause: p.clause.clone() }).unwrap(),
                minimised: true,
                original: Some(json!({"plan": plan, "message": p.message})),
            });
        }
    }
}

pub fn replay(v: &serde_json::Value, sum: &mut Summary) -> Result<(), String> {
    let r: Replay = serde_json::from_value(v.clone()).map_err(|e| e.to_string())?;
    let problems = execute(&r.plan, sum);
    sum.runs = 1;
    for p in problems {
        sum.violations.push(Violation { property: "C11".into(), clause: p.clause.clone(), facts: p.facts.clone(), message: p.message, seed: 0, run: 0, replay: v.clone(), minimised: true, original: None });
    }
    Ok(())
}
