//! C04 (lookups by id return the canonical latest version whatever the caches hold) and
//! C20 (caches and the recent-write tier stay within their bounds): one sequential driver over TieredEngine.
//! Histories mix writes, deletes, metadata updates, bulk loads, forced and threshold drains, clock gaps, a tick of
//! the real background flush/audit task, reads of every flavour, and adversarial pokes that plant stale /
//! foreign / corrupted / orphan entries through handles the harness legitimately owns.

use crate::common::*;
use crate::hist::{on_fresh_thread, reset_env};
use crate::report::{Summary, Violation};
use crate::rng::Rng;
use crate::simlibc;
use crate::tiered::*;
use kyrodb_engine::vector_cache::CachedVector;
use kyrodb_engine::VectorCoherenceToken;
use serde::{Deserialize, Serialize};
use serde_json::json;
use std::collections::BTreeMap;
use std::sync::Arc;

#[derive(Clone, Debug, PartialEq, Serialize, Deserialize)]
pub enum Poke {
    /// plant an older observed (vector, token) of the same id: target 0 = document cache, 1 = hot-tier mirror
    Stale { id: u64, target: u8, pick: u32 },
    /// current vector under another document's token
    ForeignToken { id: u64, other: u64, target: u8 },
    /// current token, flipped payload bits
    CorruptPayload { id: u64, target: u8, lane: usize },
    /// change the mirror's own metadata only
    MirrorMetadata { id: u64, meta: Meta },
}

#[derive(Clone, Debug, PartialEq, Serialize, Deserialize)]
pub enum Step {
    Api(ApiOp),
    Poke(Poke),
    /// advance the clock past the flush interval, run one tick of the real background task, then shut it down
    BackgroundTick,
    /// a timed search during which the named tiers are slow (E2 stall gate): their timeouts fire, three in a row
    /// open the tier's circuit breaker. The search result itself is C06's subject; here it is the fault.
    SlowSearch { q: Vec<u32>, k: usize, hot: bool, cold: bool },
}

#[derive(Clone, Debug, PartialEq, Serialize, Deserialize)]
pub struct Plan {
    pub cfg: TCfg,
    pub universe: u64,
    pub steps: Vec<Step>,
    pub env_seed: u64,
    pub pokes: bool,
}

#[derive(Clone, Debug, Serialize, Deserialize)]
pub struct Replay {
    pub check: String,
    pub plan: Plan,
    pub clause: String,
}

pub fn gen_plan(seed: u64, run: u64, tier: &str) -> Plan {
    let mut rng = Rng::for_run(seed, "C04", run);
    let mut cfg = TCfg::gen(&mut rng);
    cfg.capacity = *rng.pick(&[16usize, 64, 1000]);
    cfg.cache_cap = *rng.pick(&[1usize, 2, 5, 5, 50]);
    cfg.hot_hard = *rng.pick(&[1usize, 2, 5, 200]);
    let pokes = run % 2 == 1;
    let universe = rng.range(1, 6);
    let n = rng.range(4, if tier == "thorough" { 60 } else { 30 }) as usize;
    let mut w = 0u64;
    let mut steps = Vec::new();
    // a quarter of the histories meet slow tiers: timed searches whose hot / cold tier search is held back past its
    // timeout, mostly three in a row (the breaker threshold), followed by the ordinary mix of reads and clock gaps
    let slow = run % 4 == 2;
    for _ in 0..n {
        let r = rng.below(100);
        if slow && rng.chance(1, 12) {
            let (hot, cold) = *rng.pick(&[(false, true), (false, true), (true, false), (true, true)]);
            let reps = if rng.chance(2, 3) { 3 } else { 1 };
            for _ in 0..reps {
                w += 1;
                steps.push(Step::SlowSearch { q: bits(&gen_vector(&mut rng, cfg.dim, 7000 + w)), k: *rng.pick(&[1usize, 3]), hot, cold });
            }
            if rng.chance(1, 2) {
                steps.push(Step::Api(ApiOp::Query { id: rng.below(universe) }));
            }
            continue;
        }
        if pokes && r < 18 {
            let id = rng.below(universe);
            let target = rng.below(2) as u8;
            let p = match rng.below(10) {
                0..=4 => Poke::Stale { id, target, pick: rng.below(8) as u32 },
                5..=6 => Poke::ForeignToken { id, other: rng.below(universe), target },
                7..=8 => Poke::CorruptPayload { id, target, lane: rng.below(cfg.dim as u64) as usize },
                _ => {
                    w += 1;
                    Poke::MirrorMetadata { id, meta: gen_meta(&mut rng, 9000 + w) }
                }
            };
            steps.push(Step::Poke(p));
        } else if r < 21 {
            steps.push(Step::BackgroundTick);
        } else if r < 27 {
            steps.push(Step::Api(ApiOp::Gap { ns: *rng.pick(&[1_000_000u64, 2_000_000_000, 61_000_000_000, 3_700_000_000_000]) }));
        } else {
            let mix = if rng.chance(1, 2) { "point" } else { "all" };
            let mut op = gen_op(&mut rng, &cfg, universe, &mut w, mix);
            // operations outside this check's scope are replaced by reads
            if matches!(op, ApiOp::Snapshot | ApiOp::UpdatePredictor | ApiOp::KnnBatch { .. }) && rng.chance(1, 2) {
                op = ApiOp::Query { id: rng.below(universe) };
            }
            steps.push(Step::Api(op));
        }
    }
    Plan { cfg, universe, steps, env_seed: rng.next(), pokes }
}

pub struct Problem {
    pub property: &'static str,
    pub clause: String,
    pub message: String,
    pub facts: BTreeMap<String, String>,
}

struct Ctx {
    model: Model,
    /// observed canonical (vector bits, token) per id, oldest first
    seen: BTreeMap<u64, Vec<(Vec<u32>, VectorCoherenceToken)>>,
    /// classes of pokes planted since the id was last written/deleted: id -> labels
    planted: BTreeMap<u64, Vec<String>>,
    /// simulated instants at which an injected slow cold tier made the engine report a cold-tier timeout
    cold_timeouts_at: Vec<u64>,
}

fn observe(b: &Built, ctx: &mut Ctx, id: u64) {
    if let Some((v, t)) = b.engine.cold_tier().fetch_document_with_coherence(id) {
        let e = ctx.seen.entry(id).or_default();
        let item = (bits(&v), t);
        if e.last() != Some(&item) {
            e.push(item);
        }
    }
}

fn plant(b: &Built, target: u8, id: u64, emb: Vec<f32>, tok: VectorCoherenceToken, meta: &Meta) {
    if target == 0 {
        b.strat.insert_cached(CachedVector { doc_id: id, embedding: emb, coherence: tok, distance: 0.0, cached_at: std::time::Instant::now() });
    } else {
        b.engine.hot_tier().insert_with_coherence(id, emb, to_hash(meta), tok);
    }
}

fn do_poke(b: &Built, ctx: &mut Ctx, p: &Poke) -> Option<String> {
    match p {
        Poke::Stale { id, target, pick } => {
            let hist = ctx.seen.get(id)?;
            let cur = b.engine.cold_tier().fetch_document_with_coherence(*id);
            // candidates: observed versions that are not the current canonical one
            let cands: Vec<&(Vec<u32>, VectorCoherenceToken)> = hist.iter().filter(|(v, t)| cur.as_ref().map(|(cv, ct)| !(bits(cv) == *v && ct == t)).unwrap_or(true)).collect();
            if cands.is_empty() {
                return None;
            }
            let (v, t) = cands[(*pick as usize) % cands.len()];
            let meta = ctx.model.get(id).map(|d| d.1.clone()).unwrap_or_default();
            plant(b, *target, *id, unbits(v), *t, &meta);
            Some(if cur.is_some() { format!("stale_version_{}", if *target == 0 { "cache" } else { "mirror" }) } else { format!("orphan_{}", if *target == 0 { "cache" } else { "mirror" }) })
        }
        Poke::ForeignToken { id, other, target } => {
            if id == other {
                return None;
            }
            let (v, _) = b.engine.cold_tier().fetch_document_with_coherence(*id)?;
            let (_, t2) = b.engine.cold_tier().fetch_document_with_coherence(*other)?;
            let meta = ctx.model.get(id).map(|d| d.1.clone()).unwrap_or_default();
            plant(b, *target, *id, v, t2, &meta);
            Some(format!("foreign_token_{}", if *target == 0 { "cache" } else { "mirror" }))
        }
        Poke::CorruptPayload { id, target, lane } => {
            let (mut v, t) = b.engine.cold_tier().fetch_document_with_coherence(*id)?;
            let l = *lane % v.len();
            v[l] = f32::from_bits(v[l].to_bits() ^ 0x0040_0000);
            let meta = ctx.model.get(id).map(|d| d.1.clone()).unwrap_or_default();
            plant(b, *target, *id, v, t, &meta);
            Some(format!("corrupt_payload_{}", if *target == 0 { "cache" } else { "mirror" }))
        }
        Poke::MirrorMetadata { id, meta } => {
            if b.engine.hot_tier().update_metadata(*id, to_hash(meta), false) {
                Some("mirror_metadata_only".to_string())
            } else {
                None
            }
        }
    }
}

fn background_tick(b: &Built) {
    // the real spawn_flush_task loop on a paused current-thread runtime: one tick (audit + threshold drain),
    // then the shutdown branch (final forced drain)
    let rt = tokio::runtime::Builder::new_current_thread().enable_time().start_paused(true).build().expect("runtime");
    let engine = Arc::clone(&b.engine);
    rt.block_on(async move {
        let (tx, rx) = tokio::sync::broadcast::channel::<()>(1);
        let h = engine.spawn_flush_task(rx);
        tokio::time::sleep(std::time::Duration::from_secs(31)).await;
        let _ = tx.send(());
        let _ = h.await;
    });
}

fn read_all(b: &Built, id: u64) -> Vec<(&'static str, Option<Option<Doc>>, Option<bool>, bool)> {
    // (flavour, Some(result as (vector?, metadata?)), exists, turned away by an open circuit breaker)
    let e = &b.engine;
    let mut out: Vec<(&'static str, Option<Option<Doc>>, Option<bool>, bool)> = Vec::new();
    let rej = |e: &kyrodb_engine::TieredEngine| e.stats().circuit_breaker_rejections;
    let mut r0 = rej(e);
    let mut push = |out: &mut Vec<(&'static str, Option<Option<Doc>>, Option<bool>, bool)>, fl: &'static str, res: Option<Option<Doc>>, ex: Option<bool>| {
        let r1 = rej(e);
        out.push((fl, res, ex, r1 != r0));
        r0 = r1;
    };
    let v = e.query(id, None).map(|v| (bits(&v), Meta::new()));
    push(&mut out, "query", Some(v), None);
    let v = e.get_embedding_cache_aware(id).map(|v| (bits(&v), Meta::new()));
    push(&mut out, "get_embedding_cache_aware", Some(v), None);
    let v = e.get_document_with_metadata(id).map(|(v, m)| (bits(&v), to_btree(&m)));
    push(&mut out, "get_document_with_metadata", Some(v), None);
    let v = e.bulk_query(&[id], true).into_iter().next().flatten().map(|(v, m)| (bits(&v), to_btree(&m)));
    push(&mut out, "bulk_query", Some(v), None);
    let v = e.get_metadata(id).map(|m| (vec![], to_btree(&m)));
    push(&mut out, "get_metadata", Some(v), None);
    let x = e.exists(id);
    push(&mut out, "exists", None, Some(x));
    out
}

fn check_read(flavour: &str, got: &Option<Doc>, want: Option<&Doc>) -> Result<(), String> {
    let vec_only = flavour == "query" || flavour == "get_embedding_cache_aware";
    let meta_only = flavour == "get_metadata";
    match (got, want) {
        (None, None) => Ok(()),
        (Some(_), None) => Err("returned a document that does not exist (deleted or never written)".to_string()),
        (None, Some(_)) => Err("returned not-found for an existing document".to_string()),
        (Some(g), Some(w)) => {
            if !meta_only && g.0 != w.0 {
                return Err(format!("vector differs: got {:?} expected {:?}", unbits(&g.0), unbits(&w.0)));
            }
            if !vec_only && g.1 != w.1 {
                return Err(format!("metadata differs: got {:?} expected {:?}", g.1, w.1));
            }
            Ok(())
        }
    }
}

struct Exec {
    problems: Vec<Problem>,
    steps: u64,
    reads_checked: u64,
    probes: BTreeMap<String, u64>,
    shape: u64,
    sim_ns: u64,
}

fn execute_inner(plan: &Plan) -> Exec {
    let mut ex = Exec { problems: vec![], steps: 0, reads_checked: 0, probes: BTreeMap::new(), shape: 0xcbf29ce484222325, sim_ns: 0 };
    let dir = if plan.cfg.persist { Some(fresh_dir("c04", 0)) } else { None };
    let root = dir.as_ref().map(|d| simlibc::register_root(d, None, false));
    let b = match build(&plan.cfg, dir.as_deref()) {
        Ok(b) => b,
        Err(e) => {
            ex.problems.push(Problem { property: "C04", clause: "build_failed".into(), message: format!("{:#}", e), facts: BTreeMap::new() });
            if let Some(r) = root {
                simlibc::unregister_root(r);
            }
            return ex;
        }
    };
    let mut ctx = Ctx { model: Model::new(), seen: BTreeMap::new(), planted: BTreeMap::new(), cold_timeouts_at: Vec::new() };
    let cap = plan.cfg.cache_cap;
    let mut probe = |ex: &mut Exec, k: &str| *ex.probes.entry(k.to_string()).or_insert(0) += 1;
    'steps: for (k, step) in plan.steps.iter().enumerate() {
        let step_no = k + 1;
        ex.steps += 1;
        let hot_before = b.engine.hot_tier().len();
        let flushes_before = b.engine.hot_tier().stats().total_flushes;
        let mut step_name = String::new();
        let mut read_result: Option<(String, u64, Option<Doc>)> = None; // flavour, id, got
        let mut multi_read: Vec<(u64, Option<Doc>)> = Vec::new();
        let mut was_insert_returned = false;
        let mut own_read_rejected = false;
        match step {
            Step::Poke(p) => {
                step_name = "poke".into();
                if let Some(label) = do_poke(&b, &mut ctx, p) {
                    let id = match p {
                        Poke::Stale { id, .. } | Poke::ForeignToken { id, .. } | Poke::CorruptPayload { id, .. } | Poke::MirrorMetadata { id, .. } => *id,
                    };
                    probe(&mut ex, &format!("poke_{}", label));
                    ctx.planted.entry(id).or_default().push(label);
                }
            }
            Step::SlowSearch { q, k, hot, cold } => {
                step_name = "slow_search".into();
                let _fz = simlibc::FreezeClock::new();
                let (_r, d) = timed_search(&b, &unbits(q), *k, None, 0, Stall { hot: *hot, cold: *cold });
                if d.threads_stalled > 0 {
                    probe(&mut ex, "slow_tier_thread_stalled");
                }
                if d.any() {
                    probe(&mut ex, &format!("slow_search_{}", d.label()));
                }
                for _ in 0..d.cold_timeouts {
                    ctx.cold_timeouts_at.push(simlibc::clock_now_ns());
                }
            }
            Step::BackgroundTick => {
                step_name = "background_tick".into();
                simlibc::clock_advance_ns(31_000_000_000);
                background_tick(&b);
                probe(&mut ex, "background_task_tick");
            }
            Step::Api(op) => {
                step_name = op.name().to_string();
                let rej0 = b.engine.stats().circuit_breaker_rejections;
                let res = exec(&b, op);
                own_read_rejected = b.engine.stats().circuit_breaker_rejections != rej0;
                match (op, &res) {
                    (ApiOp::Insert { id, vec, meta }, ApiRes::Unit(r)) => {
                        was_insert_returned = true;
                        if r.is_ok() {
                            match b.engine.cold_tier().fetch_document(*id) {
                                Some(stored) => {
                                    let pinned = pin_vector(plan.cfg.metric, vec, &stored).unwrap_or_else(|_| bits(&stored));
                                    ctx.model.insert(*id, (pinned, meta.clone()));
                                }
                                None => ex.problems.push(Problem { property: "C04", clause: "acked_insert_not_canonical".into(), message: format!("step {}: insert of id {} acknowledged but absent from the canonical store", step_no, id), facts: BTreeMap::new() }),
                            }
                            ctx.planted.remove(id);
                        }
                        observe(&b, &mut ctx, *id);
                    }
                    (ApiOp::Delete { id }, ApiRes::Bool(Ok(_))) => {
                        ctx.model.remove(id);
                    }
                    (ApiOp::BatchDelete { ids }, ApiRes::Count(Ok(_))) => {
                        for id in ids {
                            ctx.model.remove(id);
                        }
                    }
                    (ApiOp::BatchDeleteByFilter { key, value }, ApiRes::Count(Ok(_))) => {
                        let victims: Vec<u64> = ctx.model.iter().filter(|(_, d)| d.1.get(key) == Some(value)).map(|(i, _)| *i).collect();
                        for id in victims {
                            ctx.model.remove(&id);
                        }
                    }
                    (ApiOp::UpdateMeta { id, meta, merge }, ApiRes::Bool(Ok(_))) => {
                        model_apply(&mut ctx.model, &OpK::UpdateMeta { id: *id, meta: meta.clone(), merge: *merge });
                    }
                    (ApiOp::BulkLoad { docs }, ApiRes::Count(Ok(loaded))) => {
                        // the call reports counts only. When every item is reported as loaded the items are writes
                        // in batch order (the last copy of a repeated id is its latest write); when some failed,
                        // which ones took effect is read off the canonical store
                        let all_loaded = *loaded as usize == docs.len();
                        let mut last: BTreeMap<u64, usize> = BTreeMap::new();
                        for (i, (id, _, _)) in docs.iter().enumerate() {
                            last.insert(*id, i);
                        }
                        if all_loaded && last.len() < docs.len() {
                            probe(&mut ex, "bulk_load_repeats_an_id");
                        }
                        for (i, (id, vec, meta)) in docs.iter().enumerate() {
                            let stored = b.engine.cold_tier().fetch_document(*id);
                            let stored_meta = b.engine.cold_tier().fetch_metadata(*id).map(|m| to_btree(&m));
                            if all_loaded {
                                if last[id] != i {
                                    continue;
                                }
                                let pinned = stored.as_ref().and_then(|sv| pin_vector(plan.cfg.metric, vec, sv).ok());
                                match (pinned, stored_meta.as_ref() == Some(meta)) {
                                    (Some(pv), true) => {
                                        ctx.model.insert(*id, (pv, meta.clone()));
                                    }
                                    _ => {
                                        let mut f = BTreeMap::new();
                                        f.insert("read".into(), "canonical_store_after_bulk_load".to_string());
                                        f.insert("difference".into(), if stored.is_none() { "existing_document_not_found" } else if stored_meta.as_ref() != Some(meta) { "metadata_differs" } else { "vector_differs" }.to_string());
                                        f.insert("planted".into(), "none".to_string());
                                        ex.problems.push(Problem { property: "C04", clause: "read_differs_from_latest_write".into(), message: format!("step {}: bulk load reported all {} items loaded, but the canonical record of id {} is not the last item written for it (stored metadata {:?}, expected {:?})", step_no, docs.len(), id, stored_meta, meta), facts: f });
                                        if let (Some(sv), Some(sm)) = (stored.as_ref(), stored_meta.clone()) {
                                            ctx.model.insert(*id, (bits(sv), sm));
                                        }
                                    }
                                }
                                ctx.planted.remove(id);
                            } else if let Some(sv) = stored.as_ref() {
                                if stored_meta.as_ref() == Some(meta) {
                                    let pinned = pin_vector(plan.cfg.metric, vec, sv).unwrap_or_else(|_| bits(sv));
                                    ctx.model.insert(*id, (pinned, meta.clone()));
                                }
                            }
                            observe(&b, &mut ctx, *id);
                        }
                        probe(&mut ex, "bulk_load");
                    }
                    (ApiOp::Flush { force }, ApiRes::Count(Ok(n))) => {
                        if *n > 0 {
                            probe(&mut ex, if *force { "forced_drain_moved_documents" } else { "threshold_drain_moved_documents" });
                        }
                    }
                    (ApiOp::Query { id }, ApiRes::Vector(v)) => read_result = Some(("query".into(), *id, v.clone().map(|x| (x, Meta::new())))),
                    (ApiOp::GetEmb { id }, ApiRes::Vector(v)) => read_result = Some(("get_embedding_cache_aware".into(), *id, v.clone().map(|x| (x, Meta::new())))),
                    (ApiOp::GetDocMeta { id }, ApiRes::Doc(d)) => read_result = Some(("get_document_with_metadata".into(), *id, d.clone())),
                    (ApiOp::GetMeta { id }, ApiRes::MetaOnly(m)) => read_result = Some(("get_metadata".into(), *id, m.clone().map(|x| (vec![], x)))),
                    (ApiOp::Exists { id }, ApiRes::Exists(e2)) => {
                        ex.reads_checked += 1;
                        if *e2 != ctx.model.contains_key(id) {
                            let mut f = BTreeMap::new();
                            f.insert("read".into(), "exists".into());
                            f.insert("planted".into(), ctx.planted.get(id).map(|v| v.join("+")).unwrap_or_else(|| "none".into()));
                            ex.problems.push(Problem { property: "C04", clause: "read_differs_from_latest_write".into(), message: format!("step {}: exists({}) = {} but the model says {}", step_no, id, e2, ctx.model.contains_key(id)), facts: f });
                        }
                    }
                    (ApiOp::BulkQuery { ids, emb }, ApiRes::Docs(ds)) => {
                        if *emb {
                            for (id, d) in ids.iter().zip(ds.iter()) {
                                multi_read.push((*id, d.clone()));
                            }
                        }
                    }
                    _ => {}
                }
            }
        }
        ex.shape = (ex.shape ^ step_name.len() as u64 ^ ((b.engine.hot_tier().len() as u64) << 8) ^ ((b.engine.cache_size() as u64) << 16)).wrapping_mul(0x100000001b3);
        if b.engine.hot_tier().stats().total_flushes != flushes_before && hot_before >= plan.cfg.hot_hard && was_insert_returned {
            probe(&mut ex, "emergency_drain");
        }
        // ---- C04: the read performed by this step
        let mut judge_read = |ex: &mut Exec, flavour: &str, id: u64, got: &Option<Doc>, ctx: &Ctx, when: &str, rejected: bool| {
            ex.reads_checked += 1;
            if rejected {
                *ex.probes.entry("read_while_breaker_open".to_string()).or_insert(0) += 1;
            }
            if let Err(m) = check_read(flavour, got, ctx.model.get(&id)) {
                let mut f = BTreeMap::new();
                f.insert("read".into(), flavour.to_string());
                // the engine's own counter says whether this read was turned away by an open circuit breaker
                f.insert("breaker_rejection_during_read".into(), if rejected { "yes" } else { "no" }.to_string());
                // injected faults that explain an open cold-tier breaker: three timeouts inside its one-minute window
                // open it for one minute, so the three lie within the two minutes before the read
                let now = simlibc::clock_now_ns();
                let recent = ctx.cold_timeouts_at.iter().filter(|t| now.saturating_sub(**t) <= 120_000_000_000).count();
                f.insert("cold_tier_timeouts_in_last_two_minutes".into(), match recent { 0 => "0", 1 | 2 => "1-2", _ => "3+" }.to_string());
                f.insert("planted".into(), ctx.planted.get(&id).map(|v| {
                    let mut u = v.clone();
                    u.sort();
                    u.dedup();
                    u.join("+")
                }).unwrap_or_else(|| "none".into()));
                let kind = if m.contains("does not exist") { "nonexistent_document_returned" } else if m.contains("not-found") { "existing_document_not_found" } else if m.contains("vector differs") { "vector_differs" } else { "metadata_differs" };
                f.insert("difference".into(), kind.to_string());
                ex.problems.push(Problem { property: "C04", clause: "read_differs_from_latest_write".into(), message: format!("step {} ({}; {}): {}({}) {}", step_no, step_name, when, flavour, id, m), facts: f });
            }
        };
        if let Some((fl, id, got)) = &read_result {
            judge_read(&mut ex, fl, *id, got, &ctx, "this step's own read", own_read_rejected);
        }
        for (id, got) in &multi_read {
            judge_read(&mut ex, "bulk_query", *id, got, &ctx, "this step's own read", own_read_rejected);
        }
        // ---- C04: a drain / audit / poke must not change what is durable: canonical store == model
        let drained = matches!(step, Step::Api(ApiOp::Flush { .. }) | Step::BackgroundTick) || b.engine.hot_tier().stats().total_flushes != flushes_before;
        if drained || k % 6 == 5 || k + 1 == plan.steps.len() {
            let c = census(b.engine.cold_tier(), plan.universe);
            if let Err(m) = census_matches(&c, &ctx.model) {
                let mut f = BTreeMap::new();
                let planted_any: Vec<String> = {
                    let mut v: Vec<String> = ctx.planted.values().flatten().cloned().collect();
                    v.sort();
                    v.dedup();
                    v
                };
                let orphan = planted_any.iter().any(|p| p.starts_with("orphan_mirror"));
                let resurrect = m.contains("missing []") && m.contains("id set differs");
                let clause = if drained && orphan && resurrect { "drain_resurrects_orphan" } else { "canonical_store_differs_from_model" };
                f.insert("orphan_mirror_planted".into(), if orphan { "yes" } else { "no" }.into());
                f.insert("after".into(), if drained { "drain_or_audit".into() } else { step_name.clone() });
                f.insert("planted".into(), if planted_any.is_empty() { "none".into() } else { planted_any.join("+") });
                ex.problems.push(Problem { property: "C04", clause: clause.into(), message: format!("step {} ({}): canonical store differs from the model: {}", step_no, step_name, m), facts: f });
                break 'steps;
            }
        }
        // ---- C04: full read census at checkpoints
        if k % 5 == 4 || k + 1 == plan.steps.len() || matches!(step, Step::Poke(_)) && k % 2 == 0 {
            for id in 0..plan.universe + 1 {
                for (fl, res, exists, rejected) in read_all(&b, id) {
                    if let Some(got) = res {
                        judge_read(&mut ex, fl, id, &got, &ctx, "checkpoint read", rejected);
                    }
                    if let Some(e2) = exists {
                        ex.reads_checked += 1;
                        if e2 != ctx.model.contains_key(&id) {
                            let mut f = BTreeMap::new();
                            f.insert("read".into(), "exists".into());
                            f.insert("planted".into(), ctx.planted.get(&id).map(|v| v.join("+")).unwrap_or_else(|| "none".into()));
                            ex.problems.push(Problem { property: "C04", clause: "read_differs_from_latest_write".into(), message: format!("step {}: exists({}) = {}", step_no, id, e2), facts: f });
                        }
                    }
                }
            }
        }
        // ---- C20: bounds after every operation
        let csz = b.engine.cache_size();
        let cache_bound = if b.arms.is_some() { 2 * cap } else { cap };
        if csz > cache_bound {
            let mut f = BTreeMap::new();
            f.insert("which".into(), "document_cache".into());
            f.insert("strategy".into(), plan.cfg.strat.to_string());
            ex.problems.push(Problem { property: "C20", clause: "bound_exceeded".into(), message: format!("step {} ({}): document cache holds {} entries, capacity {}", step_no, step_name, csz, cache_bound), facts: f });
        }
        if let Some((a, l)) = &b.arms {
            for (name, arm) in [("lru_arm", a), ("learned_arm", l)] {
                if arm.size() > cap {
                    let mut f = BTreeMap::new();
                    f.insert("which".into(), name.to_string());
                    ex.problems.push(Problem { property: "C20", clause: "bound_exceeded".into(), message: format!("step {} ({}): {} holds {} entries, capacity {}", step_no, step_name, name, arm.size(), cap), facts: f });
                }
            }
        }
        let qlen = b.qc.len();
        if qlen > plan.cfg.qc_cap.max(1) {
            let mut f = BTreeMap::new();
            f.insert("which".into(), "query_result_cache".into());
            ex.problems.push(Problem { property: "C20", clause: "bound_exceeded".into(), message: format!("step {} ({}): query-result cache holds {} entries, capacity {}", step_no, step_name, qlen, plan.cfg.qc_cap), facts: f });
        }
        if was_insert_returned && b.engine.hot_tier().len() > plan.cfg.hot_hard {
            let mut f = BTreeMap::new();
            f.insert("which".into(), "recent_write_tier".into());
            ex.problems.push(Problem { property: "C20", clause: "bound_exceeded".into(), message: format!("step {}: recent-write tier holds {} documents when insert returned, hard limit {}", step_no, b.engine.hot_tier().len(), plan.cfg.hot_hard), facts: f });
        }
        if csz == cache_bound && cache_bound > 0 {
            probe(&mut ex, "document_cache_full");
        }
        if qlen == plan.cfg.qc_cap.max(1) {
            probe(&mut ex, "query_cache_full");
        }
        if ex.problems.len() >= 4 {
            break;
        }
    }
    drop(b);
    if let Some(r) = root {
        simlibc::unregister_root(r);
    }
    if let Some(d) = dir {
        remove_dir(&d);
    }
    ex.sim_ns = simlibc::clock_now_ns() - simlibc::EPOCH_NS;
    ex
}

pub fn execute(plan: &Plan, sum: &mut Summary) -> Vec<Problem> {
    reset_env(plan.env_seed);
    let p = plan.clone();
    match on_fresh_thread(move || execute_inner(&p)) {
        Ok(ex) => {
            sum.sim_time_ns += ex.sim_ns;
            sum.evaluations += ex.steps;
            sum.count("reads_checked", ex.reads_checked);
            for (k, v) in &ex.probes {
                sum.probe(k, *v);
            }
            if ex.steps > 3 {
                sum.distinct_hash(ex.shape);
            }
            ex.problems
        }
        Err(p) => vec![Problem { property: "C04", clause: "harness_thread_panicked".into(), message: p, facts: BTreeMap::new() }],
    }
}

fn key_of(p: &Problem) -> String {
    let mut s = format!("{}|{}", p.property, p.clause);
    for (k, v) in &p.facts {
        s.push_str(&format!("|{}={}", k, v));
    }
    s
}

pub fn run_batch(property: &'static str, seed: u64, start: u64, count: u64, tier: &str, budget_ms: u64, sum: &mut Summary) {
    let t0 = simlibc::real_now_ns();
    for run in start..start + count {
        if budget_ms > 0 && (simlibc::real_now_ns() - t0) / 1_000_000 > budget_ms {
            break;
        }
        let plan = gen_plan(seed, run, tier);
        let problems = execute(&plan, sum);
        sum.runs += 1;
        if sum.runs <= 2 {
            sum.sample(json!({"run": run, "cfg": plan.cfg, "pokes": plan.pokes, "steps": plan.steps.iter().take(8).collect::<Vec<_>>() }));
        }
        for p in problems.into_iter().filter(|p| p.property == property || p.clause == "harness_thread_panicked") {
            let key = key_of(&p);
            if !sum.class_first(&key) || sum.violations.len() >= 12 {
                continue;
            }
            // minimise by dropping steps
            let mut best = plan.clone();
            let mut scratch = Summary::new(property, 0);
            let mut tries = 0;
            let mut chunk = (best.steps.len() / 2).max(1);
            if sum.violations.len() < 6 {
                loop {
                    let mut i = 0;
                    let mut progress = false;
                    while i < best.steps.len() && tries < 150 {
                        let mut cand = best.clone();
                        let end = (i + chunk).min(cand.steps.len());
                        cand.steps.drain(i..end);
                        tries += 1;
                        if execute(&cand, &mut scratch).iter().any(|x| key_of(x) == key) {
                            best = cand;
                            progress = true;
                        } else {
                            i += chunk;
                        }
                    }
                    if tries >= 150 || (chunk == 1 && !progress) {
                        break;
                    }
                    if chunk > 1 {
                        chunk /= 2;
                    }
                }
            }
            let msg = execute(&best, &mut scratch).into_iter().find(|x| key_of(x) == key).map(|x| x.message).unwrap_or(p.message.clone());
            sum.violations.push(Violation {
                property: property.into(),
                clause: p.clause.clone(),
                facts: p.facts.clone(),
                message: msg,
                seed,
                run,
                replay: serde_json::to_value(Replay { check: property.into(), plan: best, clause: p.clause.clone() }).unwrap(),
                minimised: true,
                original: Some(json!({"plan": plan, "message": p.message})),
            });
        }
    }
}

pub fn replay(property: &'static str, v: &serde_json::Value, sum: &mut Summary) -> Result<(), String> {
    let r: Replay = serde_json::from_value(v.clone()).map_err(|e| e.to_string())?;
    let problems = execute(&r.plan, sum);
    sum.runs = 1;
    for p in problems.into_iter().filter(|p| p.property == property) {
        sum.violations.push(Violation { property: property.into(), clause: p.clause.clone(), facts: p.facts.clone(), message: p.message, seed: 0, run: 0, replay: v.clone(), minimised: true, original: None });
    }
    Ok(())
}
