
// ------------------------------------------------------------------------------------------------
// Verification harness, appended to the included server source (same module => private access).
// Real: KyroDBServiceImpl and every handler, validators, tonic-generated KyroDbServiceServer (routing, codec),
// GrpcPanicContainmentLayer, AuthManager, TenantIdMapper, RateLimiter, UsageTracker, the /usage handler and the
// observability auth middleware. Copied from main() (stub): the auth interceptor closure, the start-up recount,
// the recover-or-fresh decision, the ServerState wiring.

#[allow(dead_code)]
pub mod vharness {
    use super::*;
    use tonic::codegen::Body as HttpBodyTrait;

    #[derive(Clone, Debug)]
    pub struct TenantSpec {
        pub id: String,
        pub key: String,
        pub max_vectors: usize,
        pub max_qps: u32,
        pub is_admin: bool,
        pub enabled: bool,
    }

    #[derive(Clone, Debug)]
    pub struct ServerCfg {
        pub dim: usize,
        pub metric: u8,
        pub tenants: Vec<TenantSpec>,
        pub auth: bool,
        pub rate_limit: bool,
        pub data_dir: Option<String>,
        pub aux_dir: String,
        pub cache_cap: usize,
        pub qc_cap: usize,
        pub qc_threshold: f32,
        pub hot_soft: usize,
        pub hot_hard: usize,
        pub capacity: usize,
        pub snapshot_interval: usize,
        pub max_wal: u64,
        pub global_qps: Option<u32>,
    }

    pub struct Harness {
        pub state: Arc<ServerState>,
        pub cfg: ServerCfg,
    }

    pub struct RpcResult {
        /// gRPC status code (0 = OK); -1 = no grpc-status found (transport-level answer)
        pub code: i32,
        pub message: String,
        pub http_status: u16,
        pub responses: Vec<Vec<u8>>,
    }

    /// grpc-message is percent-encoded on the wire
    fn percent_decode(s: &str) -> String {
        let b = s.as_bytes();
        let mut out = Vec::with_capacity(b.len());
        let mut i = 0;
        while i < b.len() {
            if b[i] == b'%' && i + 3 <= b.len() {
                let hex = |c: u8| (c as char).to_digit(16);
                if let (Some(h), Some(l)) = (hex(b[i + 1]), hex(b[i + 2])) {
                    out.push((h * 16 + l) as u8);
                    i += 3;
                    continue;
                }
            }
            out.push(b[i]);
            i += 1;
        }
        String::from_utf8_lossy(&out).to_string()
    }

    fn metric_of(m: u8) -> kyrodb_engine::config::DistanceMetric {
        match m {
            0 => kyrodb_engine::config::DistanceMetric::Cosine,
            1 => kyrodb_engine::config::DistanceMetric::Euclidean,
            _ => kyrodb_engine::config::DistanceMetric::InnerProduct,
        }
    }

    /// whether the pieces of main() run by the harness are the working tree's own lines (cut out at build time)
    pub fn main_pieces_extracted() -> bool {
        cfg!(vh_extracted)
    }

    /// The server's start-up decision on a data directory (strict recovery, no fresh start after a failed recovery):
    /// main()'s own lines when the build could cut them out, else the hand copy. Used by C13's server rows.
    #[allow(clippy::too_many_arguments)]
    pub fn start_engine_like_main(dim: usize, metric: u8, capacity: usize, fsync: FsyncPolicy, snapshot_interval: usize, max_wal: u64, hot_soft: usize, hot_hard: usize, cache_cap: usize, data_dir: &str) -> anyhow::Result<TieredEngine> {
        let engine_config = TieredEngineConfig {
            hot_tier_max_size: hot_soft,
            hot_tier_hard_limit: hot_hard,
            hnsw_max_elements: capacity,
            embedding_dimension: dim,
            hnsw_distance: metric_of(metric),
            data_dir: Some(data_dir.to_string()),
            fsync_policy: fsync,
            snapshot_interval,
            max_wal_size_bytes: max_wal,
            ..TieredEngineConfig::default()
        };
        let mut app_config = kyrodb_engine::config::KyroDbConfig::default();
        app_config.hnsw.dimension = dim;
        app_config.hnsw.distance = metric_of(metric);
        app_config.persistence.data_dir = std::path::PathBuf::from(data_dir);
        app_config.persistence.enable_recovery = true;
        app_config.persistence.allow_fresh_start_on_recovery_failure = false;
        let strategy: Box<dyn kyrodb_engine::CacheStrategy> = Box::new(LruCacheStrategy::new(cache_cap));
        let query_cache = Arc::new(kyrodb_engine::QueryHashCache::new(cache_cap.max(1), 1.0));
        #[cfg(vh_extracted)]
        {
            vh_x_start_engine(&app_config, &engine_config, strategy, query_cache, &move || Ok((Box::new(LruCacheStrategy::new(cache_cap)) as Box<dyn kyrodb_engine::CacheStrategy>, None, "lru")))
        }
        #[cfg(not(vh_extracted))]
        {
            if Path::new(data_dir).join("MANIFEST").exists() {
                TieredEngine::recover(strategy, query_cache, data_dir, engine_config.clone())
            } else {
                TieredEngine::new(strategy, query_cache, Vec::new(), Vec::new(), engine_config.clone())
            }
        }
    }

    impl Harness {
        /// Start-up: recover when a MANIFEST exists (copied decision), else fresh; then the copied wiring.
        pub fn start(cfg: &ServerCfg) -> anyhow::Result<Harness> {
            let engine_config = TieredEngineConfig {
                hot_tier_max_size: cfg.hot_soft,
                hot_tier_hard_limit: cfg.hot_hard,
                hnsw_max_elements: cfg.capacity,
                embedding_dimension: cfg.dim,
                hnsw_distance: metric_of(cfg.metric),
                data_dir: cfg.data_dir.clone(),
                fsync_policy: FsyncPolicy::Always,
                snapshot_interval: cfg.snapshot_interval,
                max_wal_size_bytes: cfg.max_wal,
                ..TieredEngineConfig::default()
            };
            let strategy: Box<dyn kyrodb_engine::CacheStrategy> = Box::new(LruCacheStrategy::new(cfg.cache_cap));
            let query_cache = Arc::new(kyrodb_engine::QueryHashCache::new(cfg.qc_cap.max(1), cfg.qc_threshold));
            let mut app_config = kyrodb_engine::config::KyroDbConfig::default();
            app_config.auth.enabled = cfg.auth;
            app_config.rate_limit.enabled = cfg.rate_limit;
            app_config.server.observability_auth = ObservabilityAuthMode::All;
            app_config.hnsw.dimension = cfg.dim;
            app_config.hnsw.distance = metric_of(cfg.metric);
            if let Some(d) = &cfg.data_dir {
                app_config.persistence.data_dir = std::path::PathBuf::from(d);
            }
            app_config.persistence.enable_recovery = true;
            app_config.persistence.allow_fresh_start_on_recovery_failure = false;
            // --- the recover-or-fresh start of the engine: the lines of main() themselves when the build could cut
            // them out (cfg vh_extracted), otherwise the hand copy below
            #[cfg(vh_extracted)]
            let engine = if cfg.data_dir.is_some() {
                let cap = cfg.cache_cap;
                vh_x_start_engine(&app_config, &engine_config, strategy, query_cache, &move || Ok((Box::new(LruCacheStrategy::new(cap)) as Box<dyn kyrodb_engine::CacheStrategy>, None, "lru")))?
            } else {
                TieredEngine::new(strategy, query_cache, Vec::new(), Vec::new(), engine_config.clone())?
            };
            #[cfg(not(vh_extracted))]
            let engine = {
                let should_attempt_recovery = cfg.data_dir.as_ref().map(|d| Path::new(d).join("MANIFEST").exists()).unwrap_or(false);
                if should_attempt_recovery {
                    TieredEngine::recover(strategy, query_cache, cfg.data_dir.as_ref().unwrap().as_str(), engine_config.clone())?
                } else {
                    TieredEngine::new(strategy, query_cache, Vec::new(), Vec::new(), engine_config.clone())?
                }
            };
            let engine_arc = Arc::new(engine);

            let auth = if cfg.auth {
                let a = AuthManager::new();
                for t in &cfg.tenants {
                    a.add_key(
                        t.key.clone(),
                        TenantInfo {
                            tenant_id: t.id.clone(),
                            tenant_name: t.id.clone(),
                            max_qps: t.max_qps,
                            max_vectors: t.max_vectors,
                            is_admin: t.is_admin,
                            enabled: t.enabled,
                            created_at: String::new(),
                        },
                    )
                    .map_err(|e| anyhow::anyhow!("add_key: {}", e))?;
                }
                Some(a)
            } else {
                None
            };
            let tenant_id_mapper = if cfg.auth {
                let infos = auth.as_ref().map(|a| a.enabled_tenants()).unwrap_or_default();
                Some(TenantIdMapper::load_or_create(Path::new(&cfg.aux_dir).join("tenant_map.json"), &infos)?)
            } else {
                None
            };
            // --- start-up recount of per-tenant vectors: main()'s own lines when cut out by the build, else the copy
            #[cfg(vh_extracted)]
            let tenant_vector_counts = vh_x_recount(&app_config, &auth, &tenant_id_mapper, &engine_arc)?;
            #[cfg(not(vh_extracted))]
            let tenant_vector_counts = if cfg.auth {
                let mut counts: HashMap<String, usize> = HashMap::new();
                if let (Some(auth_mgr), Some(mapper)) = (&auth, &tenant_id_mapper) {
                    let tenants = auth_mgr.enabled_tenants();
                    let engine = &engine_arc;
                    for tenant in tenants {
                        let tenant_index = mapper.ensure_tenant(&tenant.tenant_id).map_err(|e| anyhow::anyhow!("tenant mapping error: {}", e))?;
                        let tenant_idx_str = tenant_index.to_string();
                        let cold_filter = kyrodb::MetadataFilter {
                            filter_type: Some(kyrodb::metadata_filter::FilterType::Exact(kyrodb::ExactMatch { key: "__tenant_idx__".to_string(), value: tenant_idx_str.clone() })),
                        };
                        let cold_count = engine.cold_tier().ids_for_metadata_filter(&cold_filter).len();
                        let hot_count = engine.hot_tier().scan(|meta| meta.get("__tenant_idx__") == Some(&tenant_idx_str)).len();
                        counts.insert(tenant.tenant_id.clone(), cold_count.saturating_add(hot_count));
                    }
                }
                Some(parking_lot::RwLock::new(counts))
            } else {
                None
            };
            let tenant_quota_locks = if cfg.auth {
                let mut locks: HashMap<String, Arc<parking_lot::Mutex<()>>> = HashMap::new();
                if let Some(auth_mgr) = &auth {
                    for tenant in auth_mgr.enabled_tenants() {
                        locks.insert(tenant.tenant_id.clone(), Arc::new(parking_lot::Mutex::new(())));
                    }
                }
                Some(parking_lot::RwLock::new(locks))
            } else {
                None
            };
            let usage_tracker = if cfg.auth { Some(Arc::new(UsageTracker::new())) } else { None };
            let rate_limiter = if cfg.auth || cfg.rate_limit { Some(RateLimiter::new_with_global(cfg.global_qps)) } else { None };

            let state = Arc::new(ServerState {
                engine: engine_arc,
                start_time: Instant::now(),
                app_config,
                engine_config,
                metrics: MetricsCollector::new(),
                auth,
                rate_limiter,
                tenant_id_mapper,
                tenant_vector_counts,
                tenant_quota_locks,
                usage_tracker,
            });
            Ok(Harness { state, cfg: cfg.clone() })
        }

        /// One gRPC call through the real generated server + interceptor (copied closure) + panic containment layer.
        pub async fn call(&self, method: &str, api_key: Option<&str>, bearer: bool, messages: Vec<Vec<u8>>) -> RpcResult {
            let mut framed: Vec<u8> = Vec::new();
            for m in &messages {
                framed.push(0u8);
                framed.extend_from_slice(&(m.len() as u32).to_be_bytes());
                framed.extend_from_slice(m);
            }
            let grpc_service = KyroDBServiceImpl { state: self.state.clone() };
            // --- the auth interceptor closure: main()'s own lines when cut out by the build, else the copy
            let auth_enabled = self.state.app_config.auth.enabled;
            let state_for_interceptor = self.state.clone();
            #[cfg(vh_extracted)]
            let service = KyroDbServiceServer::with_interceptor(grpc_service, move |req: Request<()>| vh_x_interceptor(auth_enabled, &state_for_interceptor, req));
            #[cfg(not(vh_extracted))]
            let service = KyroDbServiceServer::with_interceptor(grpc_service, move |mut req: Request<()>| {
                if !auth_enabled {
                    return Ok(req);
                }
                let auth = state_for_interceptor.auth.as_ref().ok_or_else(|| Status::internal("auth manager not initialized"))?;
                let tenant_id_mapper = state_for_interceptor.tenant_id_mapper.as_ref().ok_or_else(|| Status::internal("tenant mapper not initialized"))?;
                let api_key = req
                    .metadata()
                    .get(API_KEY_HEADER)
                    .and_then(|v| v.to_str().ok())
                    .map(str::to_string)
                    .or_else(|| req.metadata().get(AUTHORIZATION_HEADER).and_then(|v| v.to_str().ok()).and_then(|v| v.strip_prefix("Bearer ")).map(str::to_string))
                    .ok_or_else(|| Status::unauthenticated("missing api key"))?;
                let tenant = auth.validate(&api_key).ok_or_else(|| Status::unauthenticated("invalid api key"))?;
                let tenant_index = tenant_id_mapper.ensure_tenant(&tenant.tenant_id).map_err(|e| Status::internal(format!("tenant mapping error: {}", e)))?;
                let rate_limit_enabled = state_for_interceptor.app_config.rate_limit.enabled;
                let default_max_qps = state_for_interceptor.app_config.rate_limit.max_qps_per_connection as u32;
                let effective_max_qps = if tenant.max_qps == 0 {
                    if rate_limit_enabled {
                        default_max_qps.max(1)
                    } else {
                        u32::MAX
                    }
                } else {
                    tenant.max_qps
                };
                req.extensions_mut().insert(TenantContext { tenant_id: tenant.tenant_id, tenant_index, max_qps: effective_max_qps, max_vectors: tenant.max_vectors });
                Ok(req)
            });
            let mut stack = GrpcPanicContainmentLayer.layer(service);
            let mut builder = tonic::codegen::http::Request::builder()
                .method("POST")
                .uri(format!("/kyrodb.v1.KyroDBService/{}", method))
                .header("content-type", "application/grpc")
                .header("te", "trailers");
            if let Some(k) = api_key {
                if bearer {
                    builder = builder.header(AUTHORIZATION_HEADER, format!("Bearer {}", k));
                } else {
                    builder = builder.header(API_KEY_HEADER, k);
                }
            }
            let req = builder.body(tonic::transport::Body::from(framed)).expect("request");
            let resp = match Service::call(&mut stack, req).await {
                Ok(r) => r,
                Err(_) => return RpcResult { code: -2, message: "service error".into(), http_status: 0, responses: vec![] },
            };
            let http_status = resp.status().as_u16();
            let mut code: Option<i32> = resp.headers().get("grpc-status").and_then(|v| v.to_str().ok()).and_then(|s| s.parse().ok());
            let mut message: String = resp.headers().get("grpc-message").and_then(|v| v.to_str().ok()).unwrap_or("").to_string();
            let mut body = resp.into_body();
            let mut buf: Vec<u8> = Vec::new();
            let mut body = std::pin::Pin::new(&mut body);
            loop {
                match std::future::poll_fn(|cx| body.as_mut().poll_data(cx)).await {
                    Some(Ok(chunk)) => buf.extend_from_slice(&chunk),
                    Some(Err(st)) => {
                        code = Some(st.code() as i32);
                        message = st.message().to_string();
                        break;
                    }
                    None => break,
                }
            }
            if let Ok(Some(tr)) = std::future::poll_fn(|cx| body.as_mut().poll_trailers(cx)).await {
                if let Some(c) = tr.get("grpc-status").and_then(|v| v.to_str().ok()).and_then(|s| s.parse().ok()) {
                    code = Some(c);
                }
                if let Some(m) = tr.get("grpc-message").and_then(|v| v.to_str().ok()) {
                    message = m.to_string();
                }
            }
            let mut responses = Vec::new();
            let mut p = 0usize;
            while p + 5 <= buf.len() {
                let n = u32::from_be_bytes([buf[p + 1], buf[p + 2], buf[p + 3], buf[p + 4]]) as usize;
                if p + 5 + n > buf.len() {
                    break;
                }
                responses.push(buf[p + 5..p + 5 + n].to_vec());
                p += 5 + n;
            }
            RpcResult { code: code.unwrap_or(-1), message: percent_decode(&message), http_status, responses }
        }

        pub fn quota_count(&self, tenant_id: &str) -> Option<usize> {
            self.state.tenant_vector_counts.as_ref().and_then(|c| c.read().get(tenant_id).copied())
        }

        pub fn tenant_index(&self, tenant_id: &str) -> Option<u32> {
            self.state.tenant_id_mapper.as_ref().and_then(|m| m.ensure_tenant(tenant_id).ok())
        }

        /// Ground truth: canonical documents carrying this tenant's index.
        pub fn live_docs(&self, tenant_id: &str) -> Vec<u64> {
            let Some(idx) = self.tenant_index(tenant_id) else { return vec![] };
            let f = kyrodb::MetadataFilter {
                filter_type: Some(kyrodb::metadata_filter::FilterType::Exact(kyrodb::ExactMatch { key: "__tenant_idx__".to_string(), value: idx.to_string() })),
            };
            let mut v: Vec<u64> = self.state.engine.cold_tier().ids_for_metadata_filter(&f).into_iter().map(TenantIdMapper::to_local_doc_id).collect();
            v.sort_unstable();
            v
        }

        /// Ground truth: every canonical document with its full (server-side) metadata.
        pub fn all_docs(&self) -> Vec<(u64, HashMap<String, String>)> {
            let cold = self.state.engine.cold_tier();
            let mut ids = cold.scan(|_| true);
            ids.sort_unstable();
            ids.dedup();
            ids.into_iter().map(|id| (id, cold.fetch_metadata(id).unwrap_or_default())).collect()
        }

        /// Ground truth with vectors: (global id, stored vector, full metadata), sorted by id.
        pub fn all_docs_full(&self) -> Vec<(u64, Vec<f32>, HashMap<String, String>)> {
            let cold = self.state.engine.cold_tier();
            let mut ids = cold.scan(|_| true);
            ids.sort_unstable();
            ids.dedup();
            ids.into_iter().map(|id| (id, cold.fetch_document(id).unwrap_or_default(), cold.fetch_metadata(id).unwrap_or_default())).collect()
        }

        /// Ids present in the hot-tier mirror.
        pub fn hot_ids(&self) -> Vec<u64> {
            let mut v = self.state.engine.hot_tier().scan(|_| true);
            v.sort_unstable();
            v
        }

        /// Tokens currently available to a tenant in the real limiter (None: bucket not created yet / no limiter).
        pub fn rate_tokens(&self, tenant_id: &str) -> Option<f64> {
            self.state.rate_limiter.as_ref().and_then(|l| l.available_tokens(tenant_id))
        }

        pub fn engine(&self) -> &Arc<TieredEngine> {
            &self.state.engine
        }

        pub fn usage_vector_count(&self, tenant_id: &str) -> Option<u64> {
            self.state.usage_tracker.as_ref().and_then(|u| u.get_all_snapshots().into_iter().find(|s| s.0 == tenant_id).map(|s| s.1.vector_count))
        }

        /// GET /usage through the real router (usage_handler + observability_auth_middleware).
        pub async fn usage_http(&self, api_key: Option<&str>, scope_all: bool) -> (u16, String) {
            use tower::ServiceExt;
            let app: Router = Router::new()
                .route("/usage", get(usage_handler))
                .layer(middleware::from_fn_with_state(self.state.clone(), observability_auth_middleware))
                .with_state(self.state.clone());
            let mut b = axum::http::Request::builder().uri(if scope_all { "/usage?scope=all" } else { "/usage" });
            if let Some(k) = api_key {
                b = b.header("x-api-key", k);
            }
            let resp = match app.oneshot(b.body(Body::empty()).expect("request")).await {
                Ok(r) => r,
                Err(_) => return (0, String::new()),
            };
            let status = resp.status().as_u16();
            let bytes = axum::body::to_bytes(resp.into_body(), usize::MAX).await.unwrap_or_default();
            (status, String::from_utf8_lossy(&bytes).to_string())
        }
    }
}
