//! C08: no interleaving of concurrent API calls can deadlock.
//! Seeded pairs/triples of operations from the full catalogue x cache strategy x persistence, each under seeded
//! schedules (random walk, sticky walk, PCT d<=3, bounded preemption) at lock granularity with parking_lot's
//! RwLock rules modelled. Oracle: the scheduler's all-blocked state. Also: lock-order graph over all runs.

use crate::common::*;
use crate::hist::{on_fresh_thread, reset_env};
use crate::report::{Summary, Violation};
use crate::rng::Rng;
use crate::simlibc;
use crate::tiered::*;
use plsim::sim::{self, RunConfig, RunResult, Strategy};
use serde::{Deserialize, Serialize};
use serde_json::json;
use std::collections::{BTreeMap, BTreeSet};
use std::sync::atomic::{AtomicUsize, Ordering};
use std::sync::Arc;

#[derive(Clone, Debug, PartialEq, Serialize, Deserialize)]
pub struct SchedSpec {
    pub kind: String, // walk | sticky | pct | preempt | replay
    pub a: u32,
    pub len: u64,
    pub seed: u64,
    pub yield_on_release: bool,
    pub choices: Vec<(u64, u32)>,
}

impl SchedSpec {
    pub fn gen(rng: &mut Rng, est_len: u64) -> SchedSpec {
        let kind = match rng.below(10) {
            0..=2 => "walk",
            3..=4 => "sticky",
            5..=7 => "pct",
            _ => "preempt",
        };
        let a = match kind {
            "sticky" => *rng.pick(&[50u32, 80, 95]),
            "pct" => rng.range(1, 3) as u32,
            "preempt" => rng.range(1, 3) as u32,
            _ => 0,
        };
        SchedSpec { kind: kind.to_string(), a, len: est_len.max(8), seed: rng.next(), yield_on_release: rng.chance(1, 2), choices: vec![] }
    }
    pub fn strategy(&self) -> Strategy {
        match self.kind.as_str() {
            "walk" => Strategy::RandomWalk,
            "sticky" => Strategy::StickyWalk { stay_pct: self.a },
            "pct" => Strategy::Pct { depth: self.a, len: self.len },
            "preempt" => Strategy::Preempt { count: self.a, len: self.len },
            _ => Strategy::Replay(self.choices.clone()),
        }
    }
    pub fn to_replay(&self, r: &RunResult) -> SchedSpec {
        SchedSpec { kind: "replay".into(), a: 0, len: self.len, seed: self.seed, yield_on_release: self.yield_on_release, choices: r.choices.clone() }
    }
}

#[derive(Clone, Debug, PartialEq, Serialize, Deserialize)]
pub struct Plan {
    pub cfg: TCfg,
    pub universe: u64,
    pub pre: Vec<ApiOp>,
    pub threads: Vec<Vec<ApiOp>>,
    pub sched: SchedSpec,
    pub env_seed: u64,
    /// issue the operations directly against the cold tier (no tiered write gate in between)
    #[serde(default)]
    pub direct_cold: bool,
}

#[derive(Clone, Debug, Serialize, Deserialize)]
pub struct Replay {
    pub check: String,
    pub plan: Plan,
    pub clause: String,
}

pub fn gen_plan(seed: u64, run: u64, _tier: &str) -> Plan {
    // programs change slowly (many schedules per program), schedules change every run
    let prog = run / 8;
    let mut rng = Rng::for_run(seed, "C08p", prog);
    let mut cfg = TCfg::gen(&mut rng);
    cfg.capacity = 1000;
    cfg.snap_interval = *rng.pick(&[0usize, 1, 2, 1000]);
    let universe = rng.range(1, 4);
    let mut w = 0u64;
    // a third of the programs go straight to the cold tier: 3 threads (two writers and a snapshot are needed for the
    // reader-writer-reader cycles of a writer-preferring RwLock), persistence on, sometimes a nearly full index
    let direct_cold = prog % 3 == 2;
    if direct_cold {
        cfg.persist = true;
        cfg.capacity = *rng.pick(&[6usize, 1000]);
    }
    let mix = if direct_cold { "cold" } else { "all" };
    let n_pre = rng.range(0, 6);
    let pre: Vec<ApiOp> = (0..n_pre).map(|_| gen_op(&mut rng, &cfg, universe, &mut w, mix)).collect();
    let n_threads = if direct_cold { rng.range(2, 4) as usize } else if rng.chance(3, 4) { 2 } else { 3 };
    let threads: Vec<Vec<ApiOp>> = (0..n_threads).map(|_| (0..rng.range(1, 2)).map(|_| gen_op(&mut rng, &cfg, universe, &mut w, mix)).collect()).collect();
    let env_seed = rng.next();
    let mut srng = Rng::for_run(seed, "C08s", run);
    let sched = SchedSpec::gen(&mut srng, 60);
    Plan { cfg, universe, pre, threads, sched, env_seed, direct_cold }
}

pub struct Exec {
    pub result: RunResult,
    pub current_op: Vec<usize>,
    pub build_error: Option<String>,
}

pub fn execute(plan: &Plan, record_sites: bool) -> Exec {
    reset_env(plan.env_seed);
    let p = plan.clone();
    let r = on_fresh_thread(move || {
        let dir = if p.cfg.persist { Some(fresh_dir("c08", 0)) } else { None };
        let root = dir.as_ref().map(|d| simlibc::register_root(d, None, false));
        let built = match build(&p.cfg, dir.as_deref()) {
            Ok(b) => Arc::new(b),
            Err(e) => {
                if let Some(r) = root {
                    simlibc::unregister_root(r);
                }
                return Exec { result: RunResult::default(), current_op: vec![], build_error: Some(format!("{:#}", e)) };
            }
        };
        for op in &p.pre {
            let _ = if p.direct_cold { crate::tiered::exec_cold(&built, op) } else { exec(&built, op) };
        }
        let cur: Arc<Vec<AtomicUsize>> = Arc::new((0..p.threads.len()).map(|_| AtomicUsize::new(usize::MAX)).collect());
        let mut bodies: Vec<Box<dyn FnOnce() + Send + 'static>> = Vec::new();
        for (t, ops) in p.threads.iter().enumerate() {
            let b = Arc::clone(&built);
            let ops = ops.clone();
            let cur = Arc::clone(&cur);
            let direct = p.direct_cold;
            bodies.push(Box::new(move || {
                for (k, op) in ops.iter().enumerate() {
                    cur[t].store(k, Ordering::SeqCst);
                    let _ = if direct { crate::tiered::exec_cold(&b, op) } else { exec(&b, op) };
                }
                cur[t].store(usize::MAX - 1, Ordering::SeqCst);
            }));
        }
        simlibc::io_yield_enable(p.cfg.persist);
        let result = sim::run(RunConfig { seed: p.sched.seed, strategy: p.sched.strategy(), max_decisions: 20_000, yield_on_release: p.sched.yield_on_release, record_sites }, bodies);
        simlibc::io_yield_enable(false);
        let current_op = cur.iter().map(|a| a.load(Ordering::SeqCst)).collect();
        if result.deadlock.is_none() && !result.step_cap_hit {
            drop(built);
        } else {
            // threads were unwound out of lock calls: the engine may hold inconsistent state; leak it
            std::mem::forget(built);
        }
        if let Some(r) = root {
            simlibc::unregister_root(r);
        }
        if let Some(d) = dir {
            remove_dir(&d);
        }
        Exec { result, current_op, build_error: None }
    });
    match r {
        Ok(e) => e,
        Err(p) => Exec { result: RunResult::default(), current_op: vec![], build_error: Some(format!("harness thread panicked: {}", p)) },
    }
}

pub fn short_fn(s: &str) -> String {
    s.to_string()
}

pub fn deadlock_facts(rep: &[plsim::sim::ThreadReport]) -> (BTreeMap<String, String>, String) {
    let mut edges: BTreeSet<String> = BTreeSet::new();
    let mut text = Vec::new();
    for t in rep {
        if t.finished {
            continue;
        }
        if let Some((lock, op, site)) = &t.wanted {
            let held: Vec<String> = t.held.iter().map(|(l, m, s)| format!("{}({} lock#{})", short_fn(s), m, l)).collect();
            text.push(format!("T{} wants lock#{} ({}) at {} while holding [{}]", t.tid, lock, op, short_fn(site), held.join(", ")));
            for (_, _, hs) in &t.held {
                edges.insert(format!("{} -> {}", short_fn(hs), short_fn(site)));
            }
        }
    }
    let mut facts = BTreeMap::new();
    facts.insert("edges".to_string(), edges.into_iter().collect::<Vec<_>>().join(" ; "));
    (facts, text.join(" | "))
}

fn confirm_minimal(plan: &Plan, ex: &Exec, budget: u64) -> Option<(Plan, Exec)> {
    // directed confirmation: keep only the operation each thread was executing when everything blocked
    let mut cand = plan.clone();
    for (t, ops) in cand.threads.iter_mut().enumerate() {
        let k = ex.current_op.get(t).copied().unwrap_or(usize::MAX);
        if k < ops.len() {
            *ops = vec![ops[k].clone()];
        } else {
            ops.clear();
        }
    }
    cand.threads.retain(|o| !o.is_empty());
    if cand.threads.len() < 2 {
        return None;
    }
    let mut rng = Rng::new(plan.env_seed ^ 0xC08);
    for _ in 0..budget {
        cand.sched = SchedSpec::gen(&mut rng, 40);
        let e = execute(&cand, false);
        if e.result.deadlock.is_some() {
            // drop warm-up operations one by one
            let mut best = cand.clone();
            best.sched = cand.sched.to_replay(&e.result);
            let mut i = 0;
            while i < best.pre.len() {
                let mut c2 = best.clone();
                c2.pre.remove(i);
                // a different prefix changes the schedule: search again briefly
                let mut hit = None;
                for _ in 0..60 {
                    c2.sched = SchedSpec::gen(&mut rng, 40);
                    let e2 = execute(&c2, false);
                    if e2.result.deadlock.is_some() {
                        c2.sched = c2.sched.to_replay(&e2.result);
                        hit = Some(c2.clone());
                        break;
                    }
                }
                match hit {
                    Some(h) => best = h,
                    None => i += 1,
                }
            }
            let fin = execute(&best, true);
            if fin.result.deadlock.is_some() {
                return Some((best, fin));
            }
        }
    }
    None
}

pub fn run_batch(seed: u64, start: u64, count: u64, tier: &str, budget_ms: u64, sum: &mut Summary) {
    let t0 = simlibc::real_now_ns();
    let mut all_edges: BTreeSet<(String, String)> = BTreeSet::new();
    for run in start..start + count {
        if budget_ms > 0 && (simlibc::real_now_ns() - t0) / 1_000_000 > budget_ms {
            break;
        }
        let plan = gen_plan(seed, run, tier);
        // every 16th run records acquisition sites for the lock-order graph
        let graph_run = run % 16 == 0;
        let ex = execute(&plan, graph_run);
        sum.runs += 1;
        sum.evaluations += 1;
        if let Some(e) = &ex.build_error {
            sum.notes.push(format!("run {}: {}", run, e));
            continue;
        }
        sum.count("scheduling_points", ex.result.points);
        sum.count("decisions", ex.result.decisions);
        sum.count(&format!("strategy_{}", plan.sched.kind), 1);
        if ex.result.decisions > 2 {
            sum.distinct_hash(ex.result.trace_hash);
        }
        if ex.result.step_cap_hit {
            sum.probe("decision_cap_hit", 1);
        }
        if let Some(m) = &ex.result.model_mismatch {
            sum.notes.push(format!("run {}: MODEL MISMATCH {}", run, m));
            sum.count("model_mismatch", 1);
        }
        for (a, b) in &ex.result.edges {
            all_edges.insert((short_fn(a), short_fn(b)));
        }
        if sum.runs <= 2 {
            sum.sample(json!({"run": run, "strategy": plan.cfg.strat, "persist": plan.cfg.persist, "threads": plan.threads, "schedule": plan.sched.kind, "decisions": ex.result.decisions}));
        }
        for (tid, msg) in &ex.result.panics {
            let mut facts = BTreeMap::new();
            let op = plan.threads.get(*tid).and_then(|o| o.get(ex.current_op.get(*tid).copied().unwrap_or(0))).map(|o| o.name()).unwrap_or("?");
            facts.insert("op".to_string(), op.to_string());
            facts.insert("panic".to_string(), simlibc::mask_name(msg).chars().take(100).collect());
            let key = format!("C08|operation_panicked|{}|{}", op, facts["panic"]);
            if sum.class_first(&key) && sum.violations.len() < 10 {
                let mut rp = plan.clone();
                rp.sched = plan.sched.to_replay(&ex.result);
                sum.violations.push(Violation { property: "C08".into(), clause: "operation_panicked".into(), facts, message: format!("thread {} panicked inside {}: {}", tid, op, msg), seed, run, replay: serde_json::to_value(Replay { check: "C08".into(), plan: rp, clause: "operation_panicked".into() }).unwrap(), minimised: false, original: None });
            }
        }
        if ex.result.deadlock.is_some() {
            sum.count("deadlocks", 1);
            // reproduce with acquisition sites
            let mut rp = plan.clone();
            rp.sched = plan.sched.to_replay(&ex.result);
            let with_sites = execute(&rp, true);
            let Some(rep) = &with_sites.result.deadlock else {
                sum.notes.push(format!("run {}: deadlock did not reproduce with site recording (harness determinism problem)", run));
                sum.count("deadlock_not_reproduced", 1);
                continue;
            };
            let (facts, text) = deadlock_facts(rep);
            let key = format!("C08|deadlock|{}", facts["edges"]);
            if !sum.class_first(&key) || sum.violations.len() >= 10 {
                continue;
            }
            let (fplan, fex, minimised) = match confirm_minimal(&rp, &with_sites, 400) {
                Some((p2, e2)) => (p2, e2, true),
                None => (rp.clone(), with_sites, false),
            };
            let (facts2, text2) = deadlock_facts(fex.result.deadlock.as_ref().unwrap());
            let ops: Vec<String> = fplan.threads.iter().map(|o| o.iter().map(|x| x.name()).collect::<Vec<_>>().join(",")).collect();
            sum.violations.push(Violation {
                property: "C08".into(),
                clause: "deadlock".into(),
                facts: if minimised { facts2 } else { facts },
                message: format!("all threads blocked forever: {} [threads: {}]", if minimised { text2 } else { text }, ops.join(" || ")),
                seed,
                run,
                replay: serde_json::to_value(Replay { check: "C08".into(), plan: fplan, clause: "deadlock".into() }).unwrap(),
                minimised,
                original: Some(json!({"plan": rp})),
            });
        }
    }
    // lock-order graph: report cycles among sites as probes (no alarm from the graph alone)
    let mut adj: BTreeMap<String, BTreeSet<String>> = BTreeMap::new();
    for (a, b) in &all_edges {
        if a != b {
            adj.entry(a.clone()).or_default().insert(b.clone());
        }
    }
    sum.count("lock_order_edges", all_edges.len() as u64);
    let mut two_cycles = 0;
    for (a, outs) in &adj {
        for b in outs {
            if a < b && adj.get(b).map(|s| s.contains(a)).unwrap_or(false) {
                two_cycles += 1;
                if sum.notes.len() < 12 {
                    sum.notes.push(format!("lock-order 2-cycle (site level, unconfirmed): {} <-> {}", a, b));
                }
            }
        }
    }
    sum.probe("lock_order_site_two_cycles", two_cycles);
}

pub fn replay(v: &serde_json::Value, sum: &mut Summary) -> Result<(), String> {
    let r: Replay = serde_json::from_value(v.clone()).map_err(|e| e.to_string())?;
    let ex = execute(&r.plan, true);
    sum.runs = 1;
    sum.evaluations = 1;
    if let Some(rep) = &ex.result.deadlock {
        let (facts, text) = deadlock_facts(rep);
        sum.violations.push(Violation { property: "C08".into(), clause: "deadlock".into(), facts, message: format!("all threads blocked forever: {}", text), seed: 0, run: 0, replay: v.clone(), minimised: true, original: None });
    }
    for (tid, msg) in &ex.result.panics {
        let mut facts = BTreeMap::new();
        facts.insert("panic".to_string(), simlibc::mask_name(msg).chars().take(100).collect());
        sum.violations.push(Violation { property: "C08".into(), clause: "operation_panicked".into(), facts, message: format!("thread {} panicked: {}", tid, msg), seed: 0, run: 0, replay: v.clone(), minimised: true, original: None });
    }
    Ok(())
}
