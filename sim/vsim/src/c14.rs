//! C14: tenant vector quotas are exact.
//! The real server runs in-process (E3). Invariant after every RPC of a seeded history and after every restart:
//! for each tenant, the server's quota counter == number of that tenant's canonical documents (ground truth read from
//! the cold tier), hence live <= max_vectors; a new-id Insert is refused RESOURCE_EXHAUSTED iff the tenant is at its
//! limit. Rows with 2-3 caller threads run their RPCs (same ids) concurrently under the seeded scheduler (E2).

use crate::c08::SchedSpec;
use crate::common::*;
use crate::hist::{on_fresh_thread, reset_env};
use crate::report::{Summary, Violation};
use crate::rng::Rng;
use crate::rpc::{self, api_key, Body, Cred, Fx, Item, Resp, Rpc};
use crate::server::vharness::{Harness, ServerCfg, TenantSpec};
use crate::simlibc;
use plsim::sim::{self, RunConfig};
use serde::{Deserialize, Serialize};
use serde_json::json;
use std::collections::BTreeMap;
use std::sync::{Arc, Mutex};

pub const TEN: [&str; 2] = ["acme", "bolt"];

#[derive(Clone, Debug, PartialEq, Serialize, Deserialize)]
pub struct Cfg14 {
    pub dim: usize,
    pub metric: u8,
    pub limit: usize, // acme's max_vectors; bolt has 1000
    pub hot_soft: usize,
    pub hot_hard: usize,
    pub persist: bool,
    pub capacity: usize,
}

#[derive(Clone, Debug, PartialEq, Serialize, Deserialize)]
pub enum Step {
    Rpc(usize, Rpc),
    Restart,
    /// the RPC runs with storage faults armed on the data directory (persistent configurations)
    Faulty(usize, Rpc, Vec<crate::c03::RuleSpec>),
}

#[derive(Clone, Debug, PartialEq, Serialize, Deserialize)]
pub struct Plan {
    pub cfg: Cfg14,
    pub steps: Vec<Step>,
    /// concurrent tail: each inner vector is one caller thread's RPCs (tenant acme)
    pub threads: Vec<Vec<Rpc>>,
    pub sched: SchedSpec,
    pub env_seed: u64,
}

#[derive(Clone, Debug, Serialize, Deserialize)]
pub struct Replay {
    pub check: String,
    pub plan: Plan,
    pub clause: String,
}

fn good_vec(rng: &mut Rng, dim: usize) -> Vec<f32> {
    let mut v = vec![0.0f32; dim];
    let lane = rng.below(dim as u64) as usize;
    v[lane] = 1.0;
    if rng.chance(1, 3) {
        v[(lane + 1) % dim] = 0.5;
    }
    v
}

/// 0 good; 1 wrong dimension (short); 2 wrong dimension (long); 3 NaN lane; 4 zero vector; 5 +inf lane; 6 f32::MAX lanes
fn vec_of_kind(rng: &mut Rng, dim: usize, kind: u64) -> Vec<f32> {
    match kind {
        1 => vec![1.0; dim - 1],
        2 => vec![0.5; dim + 1],
        3 => {
            let mut v = good_vec(rng, dim);
            v[0] = f32::NAN;
            v
        }
        4 => vec![0.0; dim],
        5 => {
            let mut v = good_vec(rng, dim);
            v[dim - 1] = f32::INFINITY;
            v
        }
        6 => vec![f32::MAX; dim],
        _ => good_vec(rng, dim),
    }
}

fn gen_item(rng: &mut Rng, c: &Cfg14, w: &mut u64, max_id: u64) -> Item {
    *w += 1;
    let kind = if rng.chance(1, 4) { rng.range(1, 6) } else { 0 };
    let mut meta = Meta::new();
    meta.insert("w".into(), w.to_string());
    meta.insert("k".into(), rng.pick(&["5", "a"]).to_string());
    let id = match rng.below(30) {
        0 => 0,
        1 => u32::MAX as u64 + 1,
        _ => rng.range(1, max_id),
    };
    Item { id, vec: bits(&vec_of_kind(rng, c.dim, kind)), meta, ns: rng.pick(&["", "", "blue"]).to_string() }
}

fn gen_rpc(rng: &mut Rng, c: &Cfg14, w: &mut u64, max_id: u64) -> Rpc {
    match rng.below(100) {
        0..=29 => Rpc::Insert(gen_item(rng, c, w, max_id)),
        30..=41 => Rpc::BulkInsert((0..rng.range(1, 5)).map(|_| gen_item(rng, c, w, max_id)).collect()),
        42..=55 => Rpc::BulkLoad((0..rng.range(1, 5)).map(|_| gen_item(rng, c, w, max_id)).collect()),
        56..=72 => Rpc::Delete { id: rng.range(1, max_id), ns: rng.pick(&["", "", "blue"]).to_string() },
        73..=84 => Rpc::BatchDeleteIds { ids: (0..rng.range(1, 5)).map(|_| rng.range(1, max_id)).collect(), ns: rng.pick(&["", "", "blue"]).to_string() },
        85..=91 => {
            let f = match rng.below(4) {
                0 => crate::c11::F::Exact { key: "k".into(), value: "5".into() },
                1 => crate::c11::F::Not(Some(Box::new(crate::c11::F::Exact { key: "k".into(), value: "zzz".into() }))),
                2 => crate::c11::F::Exact { key: "__tenant_idx__".into(), value: rng.below(2).to_string() },
                _ => crate::c11::F::Range { key: "w".into(), bound: Some((0, (*w / 2).to_string())) },
            };
            Rpc::BatchDeleteFilter { f: Fx::F(f), ns: rng.pick(&["", "", "blue"]).to_string() }
        }
        92..=96 => {
            let mut meta = Meta::new();
            meta.insert("k".into(), "a".into());
            Rpc::UpdateMeta { id: rng.range(1, max_id), meta, merge: rng.chance(1, 2), ns: String::new() }
        }
        _ => Rpc::Flush { force: rng.chance(1, 2) },
    }
}

pub fn gen_plan(seed: u64, run: u64, tier: &str) -> Plan {
    // 4 schedules per program for the concurrent rows
    let concurrent = run % 2 == 1;
    let prog = if concurrent { run / 8 } else { run };
    let mut rng = Rng::for_run(seed, if concurrent { "C14c" } else { "C14s" }, prog);
    let limit = *rng.pick(&[1usize, 2, 3, 5]);
    let hot_soft = rng.range(2, 6) as usize;
    let cfg = Cfg14 { dim: 4, metric: rng.below(3) as u8, limit, hot_soft, hot_hard: hot_soft + rng.range(1, 3) as usize, persist: !concurrent && rng.chance(1, 3), capacity: *rng.pick(&[400usize, 400, 12]) };
    let max_id = limit as u64 + 2;
    let mut w = 0u64;
    let mut steps = Vec::new();
    let n = if concurrent { rng.range(0, 6) } else if tier == "thorough" { rng.range(6, 50) } else { rng.range(4, 24) } as usize;
    for _ in 0..n {
        if cfg.persist && rng.chance(1, 12) {
            steps.push(Step::Restart);
            continue;
        }
        let tenant = if rng.chance(1, 6) { 1 } else { 0 };
        let r = gen_rpc(&mut rng, &cfg, &mut w, max_id);
        if cfg.persist && r.is_write() && rng.chance(1, 5) {
            let faults = crate::c03::gen_faults(&mut rng);
            steps.push(Step::Faulty(tenant, r, faults));
        } else {
            steps.push(Step::Rpc(tenant, r));
        }
    }
    let mut threads = Vec::new();
    if concurrent {
        // all threads work on one or two ids so that exists-check / reservation / delete race
        let hot_id = rng.range(1, max_id);
        let n_threads = rng.range(2, 3) as usize;
        for _ in 0..n_threads {
            let n_ops = rng.range(1, 2) as usize;
            let mut ops = Vec::new();
            for _ in 0..n_ops {
                w += 1;
                let mut meta = Meta::new();
                meta.insert("w".into(), w.to_string());
                let id = if rng.chance(4, 5) { hot_id } else { rng.range(1, max_id) };
                let item = |rng: &mut Rng, id: u64, meta: &Meta| {
                    let kind = if rng.chance(1, 6) { 1 } else { 0 };
                    Item { id, vec: bits(&vec_of_kind(rng, 4, kind)), meta: meta.clone(), ns: String::new() }
                };
                let other = rng.range(1, max_id);
                let op = match rng.below(10) {
                    0..=2 => Rpc::Insert(item(&mut rng, id, &meta)),
                    3..=5 => Rpc::Delete { id, ns: String::new() },
                    6 => Rpc::BulkInsert(vec![item(&mut rng, id, &meta), item(&mut rng, other, &meta)]),
                    7 => Rpc::BulkLoad(vec![item(&mut rng, id, &meta), item(&mut rng, other, &meta)]),
                    8 => Rpc::BatchDeleteIds { ids: vec![id, other], ns: String::new() },
                    _ => Rpc::BatchDeleteFilter { f: Fx::F(crate::c11::F::Not(Some(Box::new(crate::c11::F::Exact { key: "k".into(), value: "zzz".into() })))), ns: String::new() },
                };
                ops.push(op);
            }
            threads.push(ops);
        }
    }
    let env_seed = rng.next();
    let mut srng = Rng::for_run(seed, "C14sched", run);
    Plan { cfg, steps, threads, sched: SchedSpec::gen(&mut srng, 400), env_seed }
}

fn server_cfg(c: &Cfg14, data_dir: Option<String>, aux_dir: String) -> (ServerCfg, Vec<String>) {
    let keys: Vec<String> = TEN.iter().enumerate().map(|(i, t)| api_key(t, i as u64)).collect();
    let tenants = TEN.iter().enumerate().map(|(i, t)| TenantSpec { id: t.to_string(), key: keys[i].clone(), max_vectors: if i == 0 { c.limit } else { 1000 }, max_qps: 0, is_admin: false, enabled: true }).collect();
    (
        ServerCfg {
            dim: c.dim,
            metric: c.metric,
            tenants,
            auth: true,
            rate_limit: false,
            data_dir,
            aux_dir,
            cache_cap: 4,
            qc_cap: 4,
            qc_threshold: 0.99,
            hot_soft: c.hot_soft,
            hot_hard: c.hot_hard,
            capacity: c.capacity,
            snapshot_interval: 5,
            max_wal: 1 << 20,
            global_qps: None,
        },
        keys,
    )
}

pub struct Problem {
    pub clause: String,
    pub msg: String,
    pub facts: BTreeMap<String, String>,
    pub step: usize,
}

pub struct Exec {
    pub problems: Vec<Problem>,
    pub steps: u64,
    pub aborted: bool,
    pub probes: BTreeMap<String, u64>,
    pub per_rpc: BTreeMap<String, u64>,
    pub faults: BTreeMap<String, u64>,
    pub trace_hash: u64,
    pub choices: Vec<(u64, u32)>,
    pub digest: u64,
}

fn counts(h: &Harness) -> Vec<(usize, usize)> {
    TEN.iter().map(|t| (h.quota_count(t).unwrap_or(0), h.live_docs(t).len())).collect()
}

fn fact(k: &str, v: &str) -> (String, String) {
    (k.to_string(), v.to_string())
}

/// counted == live for every tenant; live <= limit.
fn check_exact(h: &Harness, c: &Cfg14, step: usize, after: &str, rpc_kind: &str, concurrent: bool) -> Option<Problem> {
    for (i, (counted, live)) in counts(h).into_iter().enumerate() {
        if counted != live {
            let dir = if counted > live { "counted_more_than_live" } else { "counted_fewer_than_live" };
            return Some(Problem {
                clause: "quota_count_differs_from_live_documents".into(),
                msg: format!("after {} ({}): tenant {} is charged {} vectors but holds {} live documents {:?}", after, rpc_kind, TEN[i], counted, live, h.live_docs(TEN[i])),
                facts: [fact("direction", dir), fact("after", if concurrent { "concurrent_rpcs" } else { rpc_kind }), fact("tenant", if i == 0 { "acting_or_limited" } else { "bystander" })].into_iter().collect(),
                step,
            });
        }
        let max = if i == 0 { c.limit } else { 1000 };
        if live > max {
            return Some(Problem {
                clause: "tenant_holds_more_than_limit".into(),
                msg: format!("after {} ({}): tenant {} holds {} live documents with max_vectors={}", after, rpc_kind, TEN[i], live, max),
                facts: [fact("after", if concurrent { "concurrent_rpcs" } else { rpc_kind })].into_iter().collect(),
                step,
            });
        }
    }
    None
}

pub fn execute(plan: &Plan) -> Exec {
    reset_env(plan.env_seed);
    let p = plan.clone();
    let r = on_fresh_thread(move || {
        let mut ex = Exec { problems: vec![], steps: 0, aborted: false, probes: BTreeMap::new(), per_rpc: BTreeMap::new(), faults: BTreeMap::new(), trace_hash: 0, choices: vec![], digest: 0 };
        let dir = fresh_dir("c14", 0);
        let data = format!("{}/data", dir);
        let aux = format!("{}/aux", dir);
        let _ = std::fs::create_dir_all(&data);
        let _ = std::fs::create_dir_all(&aux);
        let root = if p.cfg.persist { Some(simlibc::register_root(&data, None, false)) } else { None };
        let (scfg, keys) = server_cfg(&p.cfg, if p.cfg.persist { Some(data) } else { None }, aux);
        let rt = rpc::paused_runtime();
        let mut faulted = false;
        let mut h = match Harness::start(&scfg) {
            Ok(h) => Arc::new(h),
            Err(e) => {
                ex.problems.push(Problem { clause: "harness".into(), msg: format!("start failed: {}", e), facts: BTreeMap::new(), step: 0 });
                return ex;
            }
        };
        let mut digest = 0u64;
        'steps: for (i, st) in p.steps.iter().enumerate() {
            ex.steps += 1;
            match st {
                Step::Restart => {
                    let before = counts(&h);
                    drop(h);
                    h = match Harness::start(&scfg) {
                        Ok(n) => Arc::new(n),
                        Err(e) => {
                            if faulted {
                                // what recovery does after storage faults is C01/C03's subject, not a quota verdict
                                *ex.probes.entry("restart_refused_after_storage_fault".into()).or_insert(0) += 1;
                            } else {
                                ex.problems.push(Problem { clause: "restart_failed".into(), msg: format!("server did not restart: {}", e), facts: BTreeMap::new(), step: i });
                            }
                            if let Some(r) = root {
                                simlibc::unregister_root(r);
                            }
                            remove_dir(&dir);
                            return ex;
                        }
                    };
                    *ex.probes.entry("restart_recount".into()).or_insert(0) += 1;
                    if before.iter().any(|(_, l)| *l > 0) {
                        *ex.probes.entry("restart_recount_with_live_documents".into()).or_insert(0) += 1;
                    }
                    if let Some(pb) = check_exact(&h, &p.cfg, i, "restart", "Restart", false) {
                        ex.problems.push(pb);
                        break 'steps;
                    }
                }
                Step::Faulty(t, r, faults) => {
                    faulted = true;
                    simlibc::arm_faults(faults.iter().map(crate::c03::to_rule).collect());
                    let resp = rpc::call(&rt, &h, &keys, &Cred::Tenant(*t), r);
                    let fired = simlibc::disarm_faults().iter().filter(|f| f.fired).count();
                    *ex.per_rpc.entry(r.kind().to_string()).or_insert(0) += 1;
                    if fired > 0 {
                        *ex.probes.entry("rpc_with_storage_fault_fired".into()).or_insert(0) += 1;
                        *ex.faults.entry(format!("storage_fault_during_{}", r.kind())).or_insert(0) += 1;
                        if resp.code != 0 {
                            *ex.probes.entry("rpc_failed_under_storage_fault".into()).or_insert(0) += 1;
                        }
                    }
                    digest = crate::rng::mix(digest, resp.code as u64 ^ ((counts(&h)[0].0 as u64) << 8) ^ 0xF00D);
                    if let Some(mut pb) = check_exact(&h, &p.cfg, i, &format!("step {} under storage faults", i), r.kind(), false) {
                        pb.facts.insert("storage_fault".into(), if fired > 0 { "fired" } else { "armed_not_fired" }.into());
                        pb.msg.push_str(&format!(" [answer code {} {:?}; faults {:?}]", resp.code, resp.message, faults));
                        ex.problems.push(pb);
                        break 'steps;
                    }
                }
                Step::Rpc(t, r) => {
                    let before = counts(&h);
                    let resp = rpc::call(&rt, &h, &keys, &Cred::Tenant(*t), r);
                    *ex.per_rpc.entry(r.kind().to_string()).or_insert(0) += 1;
                    digest = crate::rng::mix(digest, resp.code as u64 ^ ((counts(&h)[0].0 as u64) << 8));
                    probe_resp(&mut ex.probes, r, &resp, before[*t].1, if *t == 0 { p.cfg.limit } else { 1000 });
                    if let Some(pb) = check_exact(&h, &p.cfg, i, &format!("step {}", i), r.kind(), false) {
                        ex.problems.push(pb);
                        break 'steps;
                    }
                    // admission at the boundary: single Insert of a valid-looking item
                    if let Rpc::Insert(it) = r {
                        let max = if *t == 0 { p.cfg.limit } else { 1000 };
                        let live_before = before[*t].1;
                        if resp.code == 8 && live_before < max {
                            ex.problems.push(Problem {
                                clause: "refused_below_limit".into(),
                                msg: format!("step {}: Insert of id {} refused RESOURCE_EXHAUSTED ({:?}) while tenant {} held {} live documents, max_vectors={}", i, it.id, resp.message, TEN[*t], live_before, max),
                                facts: [fact("rpc", "Insert")].into_iter().collect(),
                                step: i,
                            });
                            break 'steps;
                        }
                    }
                }
            }
        }
        if ex.problems.is_empty() && !p.threads.is_empty() {
            // concurrent tail under the seeded scheduler
            let results: Arc<Mutex<Vec<(usize, String, i32)>>> = Arc::new(Mutex::new(Vec::new()));
            let mut bodies: Vec<Box<dyn FnOnce() + Send + 'static>> = Vec::new();
            for (ti, ops) in p.threads.iter().enumerate() {
                let hh = Arc::clone(&h);
                let ops = ops.clone();
                let keys = keys.clone();
                let results = Arc::clone(&results);
                bodies.push(Box::new(move || {
                    let rt = rpc::paused_runtime();
                    for r in &ops {
                        let _ = sim::stamp();
                        let resp = rpc::call(&rt, &hh, &keys, &Cred::Tenant(0), r);
                        results.lock().unwrap().push((ti, r.kind().to_string(), resp.code));
                    }
                }));
            }
            let result = sim::run(RunConfig { seed: p.sched.seed, strategy: p.sched.strategy(), max_decisions: 200_000, yield_on_release: p.sched.yield_on_release, record_sites: false }, bodies);
            ex.trace_hash = result.trace_hash;
            ex.choices = result.choices.clone();
            if let Some(reports) = &result.deadlock {
                // no caller thread can make progress: the concurrent RPCs will never be answered, let alone counted
                let kinds: Vec<String> = p.threads.iter().map(|t| t.iter().map(|r| r.kind()).collect::<Vec<_>>().join("+")).collect();
                ex.problems.push(Problem {
                    clause: "concurrent_rpcs_deadlocked".into(),
                    msg: format!("the concurrent RPCs ({}) deadlocked: {:?}", kinds.join(" || "), reports.iter().map(|r| format!("{:?}", r)).collect::<Vec<_>>()).chars().take(1500).collect(),
                    facts: BTreeMap::new(),
                    step: p.steps.len(),
                });
            } else if result.step_cap_hit {
                ex.aborted = true;
            } else {
                for (tid, msg) in &result.panics {
                    ex.problems.push(Problem { clause: "operation_panicked".into(), msg: format!("caller thread {} panicked: {}", tid, msg), facts: BTreeMap::new(), step: p.steps.len() });
                }
                let res = results.lock().unwrap().clone();
                ex.steps += res.len() as u64;
                for (_, k, _) in &res {
                    *ex.per_rpc.entry(format!("concurrent_{}", k)).or_insert(0) += 1;
                }
                digest = crate::rng::mix(digest, result.trace_hash);
                let kinds: Vec<String> = p.threads.iter().map(|t| t.iter().map(|r| r.kind()).collect::<Vec<_>>().join("+")).collect();
                if ex.problems.is_empty() {
                    if let Some(mut pb) = check_exact(&h, &p.cfg, p.steps.len(), "the concurrent RPCs", &kinds.join(" || "), true) {
                        let mut pair: Vec<&str> = p.threads.iter().flat_map(|t| t.iter().map(|r| r.kind())).collect();
                        pair.sort();
                        pair.dedup();
                        pb.msg.push_str(&format!(" [rpc kinds involved: {}]", pair.join("|")));
                        ex.problems.push(pb);
                    }
                }
            }
        }
        ex.digest = digest;
        drop(h);
        drop(rt);
        if let Some(r) = root {
            simlibc::unregister_root(r);
        }
        remove_dir(&dir);
        ex
    });
    match r {
        Ok(e) => e,
        Err(p) => Exec { problems: vec![Problem { clause: "harness_thread_panicked".into(), msg: p, facts: BTreeMap::new(), step: 0 }], steps: 0, aborted: false, probes: BTreeMap::new(), per_rpc: BTreeMap::new(), faults: BTreeMap::new(), trace_hash: 0, choices: vec![], digest: 0 },
    }
}

fn probe_resp(probes: &mut BTreeMap<String, u64>, r: &Rpc, resp: &Resp, live_before: usize, max: usize) {
    let mut pr = |k: &str| *probes.entry(k.to_string()).or_insert(0) += 1;
    if resp.code == 8 {
        pr("refused_resource_exhausted");
    }
    if live_before == max {
        pr("rpc_issued_at_the_limit");
    }
    match (r, &resp.body) {
        (Rpc::BulkInsert(items), Body::Insert { inserted, failed, .. }) => {
            if *failed > 0 && *inserted > 0 {
                pr("bulk_insert_partial_failure");
            }
            let mut ids: Vec<u64> = items.iter().map(|i| i.id).collect();
            ids.sort();
            let n = ids.len();
            ids.dedup();
            if ids.len() < n {
                pr("bulk_batch_with_duplicate_ids");
            }
        }
        (Rpc::BulkLoad(items), Body::BulkLoad { loaded, failed, .. }) => {
            if *failed > 0 && *loaded > 0 {
                pr("bulk_load_partial_failure");
            }
            let mut ids: Vec<u64> = items.iter().map(|i| i.id).collect();
            ids.sort();
            let n = ids.len();
            ids.dedup();
            if ids.len() < n {
                pr("bulk_batch_with_duplicate_ids");
            }
        }
        (Rpc::Insert(_), _) if resp.code == 13 => pr("insert_failed_in_engine_after_reservation"),
        (Rpc::Delete { .. }, Body::Delete { existed: false, .. }) => pr("delete_of_absent_id"),
        (Rpc::BatchDeleteIds { ids, .. }, Body::BatchDelete { deleted, .. }) => {
            if (*deleted as usize) < ids.len() {
                pr("batch_delete_with_absent_or_duplicate_ids");
            }
        }
        _ => {}
    }
}

fn class_key(p: &Problem) -> String {
    let mut key = format!("C14|{}", p.clause);
    for (k, v) in &p.facts {
        key.push_str(&format!("|{}={}", k, v));
    }
    key
}

fn same(e: &Exec, target: &Problem) -> Option<String> {
    e.problems.iter().find(|q| q.clause == target.clause && q.facts == target.facts).map(|q| q.msg.clone())
}

fn minimise(plan: &Plan, target: &Problem, choices: &[(u64, u32)], max_tries: usize) -> (Plan, String) {
    let mut best = plan.clone();
    let mut msg = target.msg.clone();
    if !plan.threads.is_empty() {
        // concurrent: keep the recorded schedule, only try dropping sequential prefix steps under the original strategy
        best.sched = SchedSpec { kind: "replay".into(), a: 0, len: plan.sched.len, seed: plan.sched.seed, yield_on_release: plan.sched.yield_on_release, choices: choices.to_vec() };
        let e = execute(&best);
        if same(&e, target).is_none() {
            // replay of the recorded choices must reproduce; if not, keep the generating strategy
            best.sched = plan.sched.clone();
        }
        return (best, msg);
    }
    if target.step + 1 < best.steps.len() {
        let mut cand = best.clone();
        cand.steps.truncate(target.step + 1);
        if let Some(m) = same(&execute(&cand), target) {
            best = cand;
            msg = m;
        }
    }
    let mut i = 0;
    let mut tries = 0;
    while i < best.steps.len() && tries < max_tries {
        let mut cand = best.clone();
        cand.steps.remove(i);
        tries += 1;
        if let Some(m) = same(&execute(&cand), target) {
            best = cand;
            msg = m;
        } else {
            i += 1;
        }
    }
    // shrink batches
    for i in 0..best.steps.len() {
        loop {
            let mut cand = best.clone();
            let shrunk = match &mut cand.steps[i] {
                Step::Rpc(_, Rpc::BulkInsert(items)) | Step::Rpc(_, Rpc::BulkLoad(items)) if items.len() > 1 => {
                    items.pop();
                    true
                }
                _ => false,
            };
            if !shrunk || tries >= max_tries + 40 {
                break;
            }
            tries += 1;
            if let Some(m) = same(&execute(&cand), target) {
                best = cand;
                msg = m;
            } else {
                break;
            }
        }
    }
    (best, msg)
}

pub fn run_batch(seed: u64, start: u64, count: u64, tier: &str, budget_ms: u64, sum: &mut Summary) {
    let t0 = simlibc::real_now_ns();
    for run in start..start + count {
        if budget_ms > 0 && (simlibc::real_now_ns() - t0) / 1_000_000 > budget_ms {
            break;
        }
        let plan = gen_plan(seed, run, tier);
        let ex = execute(&plan);
        sum.runs += 1;
        if ex.aborted {
            sum.count("aborted_by_deadlock_or_cap", 1);
            continue;
        }
        sum.evaluations += ex.steps;
        for (k, n) in &ex.per_rpc {
            sum.count(&format!("rpc_{}", k), *n);
        }
        for (k, n) in &ex.probes {
            sum.probe(k, *n);
        }
        for (k, n) in &ex.faults {
            sum.fault(k, *n);
        }
        if !plan.threads.is_empty() {
            sum.probe("concurrent_rows", 1);
        }
        sum.distinct_hash(ex.digest);
        if sum.runs <= 2 {
            sum.sample(json!({"run": run, "cfg": plan.cfg, "steps": plan.steps.iter().take(4).collect::<Vec<_>>(), "threads": plan.threads}));
        }
        for pb in &ex.problems {
            let key = class_key(pb);
            if !sum.class_first(&key) || sum.violations.len() >= 10 {
                continue;
            }
            let within = budget_ms == 0 || (simlibc::real_now_ns() - t0) / 1_000_000 < budget_ms;
            let (best, msg) = if within && sum.violations.len() < 4 { minimise(&plan, pb, &ex.choices, 60) } else { (plan.clone(), pb.msg.clone()) };
            sum.violations.push(Violation {
                property: "C14".into(),
                clause: pb.clause.clone(),
                facts: pb.facts.clone(),
                message: msg,
                seed,
                run,
                replay: serde_json::to_value(Replay { check: "C14".into(), plan: best, clause: pb.clause.clone() }).unwrap(),
                minimised: within,
                original: Some(json!({"steps": plan.steps.len(), "message": pb.msg})),
            });
        }
    }
}

pub fn replay(v: &serde_json::Value, sum: &mut Summary) -> Result<(), String> {
    let r: Replay = serde_json::from_value(v.clone()).map_err(|e| e.to_string())?;
    let ex = execute(&r.plan);
    sum.runs = 1;
    sum.evaluations = ex.steps;
    for pb in &ex.problems {
        sum.violations.push(Violation { property: "C14".into(), clause: pb.clause.clone(), facts: pb.facts.clone(), message: pb.msg.clone(), seed: 0, run: 0, replay: v.clone(), minimised: true, original: None });
    }
    Ok(())
}
