//! Execution of a sequential history against a persistent engine with journalling (shared by C01, C02, C11,
//! C13). One history = one fresh OS thread (fresh thread-local hasher state) + reset clock and randomness.

use crate::common::*;
use crate::simlibc::{self, Effect, FsImage};
use serde::{Deserialize, Serialize};
use std::panic::{catch_unwind, AssertUnwindSafe};

#[derive(Clone, Debug, PartialEq, Serialize, Deserialize)]
pub struct Plan {
    pub cfg: Cfg,
    pub ops: Vec<OpK>,
    pub universe: u64,
    pub env_seed: u64,
}

#[derive(Clone, Debug)]
pub struct OpRec {
    /// journal index of the begin / end marks
    pub begin: usize,
    pub end: usize,
    pub ok: bool,
    pub err: Option<String>,
    /// the operation with the vector bits the live engine actually stored (inserts)
    pub pinned: OpK,
    pub model_after: Model,
    pub sim_time_ack_ns: u64,
}

pub struct HistOutcome {
    pub journal: Vec<Effect>,
    pub times: Vec<u64>,
    pub recs: Vec<OpRec>, // recs[0] = engine creation
    pub problems: Vec<(String, String)>, // (clause, message) found while running (restart mismatches, ...)
    pub final_model: Model,
    pub dir: String,
    pub eng: Option<Eng>,
    pub restarts: u64,
    pub sim_ns: u64,
}

pub fn reset_env(seed: u64) {
    simlibc::clock_enable(0);
    simlibc::clock_set_tick_ns(1000);
    simlibc::rand_enable(seed);
}

/// Run `f` on a fresh OS thread (fresh thread-local `RandomState` keys => HashMap iteration order is a pure
/// function of the seed) and return its result; panics are propagated as Err(message).
pub fn on_fresh_thread<T: Send + 'static>(f: impl FnOnce() -> T + Send + 'static) -> Result<T, String> {
    let h = std::thread::Builder::new()
        .stack_size(16 << 20)
        .spawn(move || {
            simlibc::mark_sim_thread(true);
            f()
        })
        .expect("spawn");
    h.join().map_err(|p| {
        if let Some(s) = p.downcast_ref::<&str>() {
            s.to_string()
        } else if let Some(s) = p.downcast_ref::<String>() {
            s.clone()
        } else {
            "panic".to_string()
        }
    })
}

pub struct HistOpts {
    pub keep_engine: bool,
    pub check_restarts: bool,
    pub tag: &'static str,
    pub run_no: u64,
}

/// Execute the plan. Must be called on a fresh thread after `reset_env`.
pub fn run_history(plan: &Plan, o: &HistOpts) -> HistOutcome {
    let dir = fresh_dir(o.tag, o.run_no);
    let root = simlibc::register_root(&dir, None, true);
    let mut recs: Vec<OpRec> = Vec::new();
    let mut problems = Vec::new();
    let mut model = Model::new();
    let mut restarts = 0u64;

    simlibc::mark(root, 0, 0);
    let b0 = simlibc::journal_len(root) - 1;
    let created = catch_unwind(AssertUnwindSafe(|| Eng::create(&plan.cfg, &dir)));
    let mut eng: Option<Eng> = match created {
        Ok(Ok(e)) => Some(e),
        Ok(Err(e)) => {
            problems.push(("create_failed".to_string(), format!("{:#}", e)));
            None
        }
        Err(_) => {
            problems.push(("create_panicked".to_string(), "engine creation panicked".to_string()));
            None
        }
    };
    simlibc::mark(root, if eng.is_some() { 1 } else { 2 }, 0);
    recs.push(OpRec {
        begin: b0,
        end: simlibc::journal_len(root) - 1,
        ok: eng.is_some(),
        err: None,
        pinned: OpK::Restart,
        model_after: model.clone(),
        sim_time_ack_ns: simlibc::clock_now_ns(),
    });

    for (k, op) in plan.ops.iter().enumerate() {
        let opno = (k + 1) as u32;
        if eng.is_none() {
            break;
        }
        simlibc::mark(root, 0, opno);
        let begin = simlibc::journal_len(root) - 1;
        let mut pinned = op.clone();
        let mut err: Option<String> = None;
        match op {
            OpK::Gap { ns } => simlibc::clock_advance_ns(*ns),
            OpK::Restart => {
                let before = if o.check_restarts { Some(census(eng.as_ref().unwrap().backend(), plan.universe)) } else { None };
                drop(eng.take());
                restarts += 1;
                match catch_unwind(AssertUnwindSafe(|| Eng::recover(&plan.cfg, &dir))) {
                    Ok(Ok(e)) => {
                        if let Some(before) = before {
                            let after = census(e.backend(), plan.universe);
                            if after != before {
                                problems.push((
                                    "restart_differs_from_live".to_string(),
                                    format!("op {}: census after restart differs from live census before it: {}", opno, diff_census(&before, &after)),
                                ));
                            }
                            if let Err(m) = census_matches(&after, &model) {
                                problems.push(("restart_differs_from_model".to_string(), format!("op {}: {}", opno, m)));
                            }
                        }
                        eng = Some(e);
                    }
                    Ok(Err(e)) => {
                        err = Some(format!("{:#}", e));
                        problems.push(("restart_failed".to_string(), format!("op {}: clean restart failed: {}", opno, mask_digits(&format!("{:#}", e)))));
                    }
                    Err(_) => {
                        err = Some("panic".into());
                        problems.push(("restart_panicked".to_string(), format!("op {}: clean restart panicked", opno)));
                    }
                }
            }
            _ => {
                let e = eng.as_ref().unwrap();
                match catch_unwind(AssertUnwindSafe(|| e.apply(op))) {
                    Ok(Ok(())) => {
                        if let OpK::Insert { id, vec, meta } = op {
                            match e.backend().fetch_document(*id) {
                                Some(stored) => match pin_vector(plan.cfg.metric, vec, &stored) {
                                    Ok(b) => pinned = OpK::Insert { id: *id, vec: b, meta: meta.clone() },
                                    Err(m) => {
                                        problems.push(("stored_vector_wrong".to_string(), format!("op {}: {}", opno, m)));
                                        pinned = OpK::Insert { id: *id, vec: bits(&stored), meta: meta.clone() };
                                    }
                                },
                                None => problems.push(("acked_insert_not_readable".to_string(), format!("op {}: insert of id {} acknowledged but not readable", opno, id))),
                            }
                        }
                        model_apply(&mut model, &pinned);
                    }
                    Ok(Err(e2)) => err = Some(format!("{:#}", e2)),
                    Err(_) => {
                        err = Some("panic".into());
                        problems.push(("op_panicked".to_string(), format!("op {} ({}) panicked", opno, op.name())));
                    }
                }
            }
        }
        simlibc::mark(root, if err.is_none() { 1 } else { 2 }, opno);
        recs.push(OpRec {
            begin,
            end: simlibc::journal_len(root) - 1,
            ok: err.is_none(),
            err,
            pinned,
            model_after: model.clone(),
            sim_time_ack_ns: simlibc::clock_now_ns(),
        });
    }
    let journal = simlibc::journal_snapshot(root);
    let times = simlibc::journal_times(root);
    if !o.keep_engine {
        drop(eng.take());
    }
    simlibc::unregister_root(root);
    HistOutcome { journal, times, recs, problems, final_model: model, dir, eng, restarts, sim_ns: simlibc::clock_now_ns() - simlibc::EPOCH_NS }
}

pub fn diff_census(a: &Census, b: &Census) -> String {
    let mut out = Vec::new();
    for id in a.docs.keys().chain(b.docs.keys()) {
        let (x, y) = (a.docs.get(id), b.docs.get(id));
        if x != y {
            out.push(format!("id {}: {} -> {}", id, fmt_doc(x), fmt_doc(y)));
        }
    }
    out.sort();
    out.dedup();
    if a.len != b.len {
        out.push(format!("len {} -> {}", a.len, b.len));
    }
    if a.scan != b.scan {
        out.push(format!("scan {:?} -> {:?}", a.scan, b.scan));
    }
    out.join("; ")
}

pub fn fmt_doc(d: Option<&Doc>) -> String {
    match d {
        None => "absent".to_string(),
        Some((v, m)) => format!("{:?} {:?}", unbits(v), m),
    }
}

pub fn base_image() -> FsImage {
    FsImage::default()
}
