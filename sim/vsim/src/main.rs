//! vsim: deterministic simulation worker for KyroDB. One process = one worker; the python driver
//! (`/verif/bin/check`) spawns workers with disjoint run ranges and merges their summaries.
//!
//!   vsim <CHECK> --seed S --start A --count N [--tier quick|thorough] [--budget-ms M] --out FILE
//!   vsim <CHECK> --replay FILE --out FILE

extern crate parking_lot as plsim;

mod c01;
mod c02;
mod c03;
mod c04;
mod c05;
mod c06;
mod c08;
mod c09;
mod c10;
mod c11;
mod c12;
mod c14;
mod c15;
mod rpc;
mod tiered;
mod c13;
mod c19;
mod c20c;
mod common;
mod crash;
mod hist;
mod report;
mod rng;
#[allow(dead_code)]
mod simlibc;

#[allow(dead_code, unused_imports, clippy::all)]
mod server {
    include!(concat!(env!("OUT_DIR"), "/server_included.rs"));
}

use report::Summary;
use std::collections::HashMap;

fn main() {
    std::env::remove_var("RUST_BACKTRACE");
    let args: Vec<String> = std::env::args().collect();
    if args.len() < 2 {
        eprintln!("usage: vsim <CHECK> --seed S --start A --count N [--tier T] [--budget-ms M] --out FILE | --replay FILE");
        std::process::exit(2);
    }
    let check = args[1].clone();
    if check == "mode-info" {
        // which pieces of the server's main() this build runs: its own lines (cut out at build time) or the hand copy
        println!("{}", if server::vharness::main_pieces_extracted() { "extracted" } else { "stub" });
        return;
    }
    let mut kv: HashMap<String, String> = HashMap::new();
    let mut i = 2;
    while i < args.len() {
        if args[i].starts_with("--") && i + 1 < args.len() {
            kv.insert(args[i][2..].to_string(), args[i + 1].clone());
            i += 2;
        } else {
            i += 1;
        }
    }
    let seed: u64 = kv.get("seed").and_then(|s| s.parse().ok()).unwrap_or(20260925);
    let start: u64 = kv.get("start").and_then(|s| s.parse().ok()).unwrap_or(0);
    let count: u64 = kv.get("count").and_then(|s| s.parse().ok()).unwrap_or(1);
    let tier = kv.get("tier").cloned().unwrap_or_else(|| "quick".to_string());
    let budget_ms: u64 = kv.get("budget-ms").and_then(|s| s.parse().ok()).unwrap_or(0);
    let out = kv.get("out").cloned();

    // the engine logs through `tracing`; no subscriber is installed, so logging costs nothing and reads no clock
    let t0 = simlibc::real_now_ns();
    let mut sum = Summary::new(&check, seed);
    let mut status = 0;
    if let Some(path) = kv.get("replay") {
        let text = {
            let _b = simlibc::Bypass::new();
            std::fs::read_to_string(path).expect("read replay file")
        };
        let v: serde_json::Value = serde_json::from_str(&text).expect("parse replay file");
        let plan = v.get("replay").cloned().unwrap_or(v.clone());
        let r = match check.as_str() {
            "C01" => c01::replay(&plan, &mut sum),
            "C02" => c02::replay(&plan, &mut sum),
            "C13" => c13::replay(&plan, &mut sum),
            "C03" => c03::replay(&plan, &mut sum),
            "C08" => c08::replay(&plan, &mut sum),
            "C05" => c05::replay(&plan, &mut sum),
            "C09" => c09::replay(&plan, &mut sum),
            "C10" => c10::replay(&plan, &mut sum),
            "C11" => c11::replay(&plan, &mut sum),
            "C12" => c12::replay(&plan, &mut sum),
            "C14" => c14::replay(&plan, &mut sum),
            "C15" => c15::replay(&plan, &mut sum),
            "C19" => c19::replay(&plan, &mut sum),
            "C04" => c04::replay("C04", &plan, &mut sum),
            "C06" => c06::replay("C06", &plan, &mut sum),
            "C07" => c06::replay("C07", &plan, &mut sum),
            "C20" => {
                if plan.get("check").and_then(|c| c.as_str()) == Some("C20c") {
                    c20c::replay(&plan, &mut sum)
                } else {
                    c04::replay("C20", &plan, &mut sum)
                }
            }
            _ => Err(format!("unknown check {}", check)),
        };
        if let Err(e) = r {
            eprintln!("replay error: {}", e);
            status = 2;
        }
    } else {
        match check.as_str() {
            "C01" => c01::run_batch(seed, start, count, &tier, budget_ms, &mut sum),
            "C02" => c02::run_batch(seed, start, count, &tier, budget_ms, &mut sum),
            "C13" => c13::run_batch(seed, start, count, &tier, budget_ms, &mut sum),
            "C03" => c03::run_batch(seed, start, count, &tier, budget_ms, &mut sum),
            "C08" => c08::run_batch(seed, start, count, &tier, budget_ms, &mut sum),
            "C05" => c05::run_batch(seed, start, count, &tier, budget_ms, &mut sum),
            "C09" => c09::run_batch(seed, start, count, &tier, budget_ms, &mut sum),
            "C10" => c10::run_batch(seed, start, count, &tier, budget_ms, &mut sum),
            "C11" => c11::run_batch(seed, start, count, &tier, budget_ms, &mut sum),
            "C12" => c12::run_batch(seed, start, count, &tier, budget_ms, &mut sum),
            "C14" => c14::run_batch(seed, start, count, &tier, budget_ms, &mut sum),
            "C15" => c15::run_batch(seed, start, count, &tier, budget_ms, &mut sum),
            "C19" => c19::run_batch(seed, start, count, &tier, budget_ms, &mut sum),
            "C04" => c04::run_batch("C04", seed, start, count, &tier, budget_ms, &mut sum),
            "C06" => c06::run_batch("C06", seed, start, count, &tier, budget_ms, &mut sum),
            "C07" => c06::run_batch("C07", seed, start, count, &tier, budget_ms, &mut sum),
            "C20" => {
                // three quarters of the budget for the sequential histories, one quarter for the concurrent-insert rows
                let seq_budget = if budget_ms > 0 { budget_ms * 3 / 4 } else { 0 };
                c04::run_batch("C20", seed, start, count, &tier, seq_budget, &mut sum);
                let conc_budget = if budget_ms > 0 { budget_ms - seq_budget } else { 0 };
                c20c::run_batch(seed, start, if budget_ms > 0 { count } else { (count / 4).max(1) }, conc_budget, &mut sum);
            }
            _ => {
                eprintln!("unknown check {}", check);
                status = 2;
            }
        }
    }
    sum.wall_s = (simlibc::real_now_ns() - t0) as f64 / 1e9;
    common::cleanup();
    // scratch directories carry the process id and a driver-chosen parent: keep them out of everything that is
    // compared between runs (messages, facts, class keys)
    {
        let base = common::scratch_base();
        let parent = std::env::var("VERIF_SCRATCH").unwrap_or_else(|_| "/dev/shm".to_string());
        let clean = |t: &str| t.replace(&base, "<scratch>").replace(&parent, "<scratch-parent>");
        for v in sum.violations.iter_mut() {
            v.message = clean(&v.message);
            let facts: Vec<(String, String)> = v.facts.iter().map(|(k, x)| (k.clone(), clean(x))).collect();
            v.facts = facts.into_iter().collect();
        }
        let classes: Vec<(String, u64)> = sum.violation_classes.iter().map(|(k, n)| (clean(k), *n)).collect();
        sum.violation_classes = classes.into_iter().collect();
        for n in sum.notes.iter_mut() {
            *n = clean(n);
        }
    }
    let text = serde_json::to_string(&sum).unwrap();
    {
        let _b = simlibc::Bypass::new();
        match out {
            Some(p) => std::fs::write(p, text).expect("write summary"),
            None => println!("{}", text),
        }
    }
    std::process::exit(status);
}
