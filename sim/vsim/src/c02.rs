//! C02: restart is lossless. Histories with clean restarts at PRNG positions; after each restart the recovered
//! census must equal the live census before the stop and the reference model, bit-exact; the run continues
//! writing on the recovered engine.

use crate::common::*;
use crate::hist::*;
use crate::report::{Summary, Violation};
use crate::rng::Rng;
use crate::simlibc::{self, Effect};
use serde::{Deserialize, Serialize};
use serde_json::json;
use std::collections::BTreeMap;

#[derive(Clone, Debug, Serialize, Deserialize)]
pub struct Replay {
    pub check: String,
    pub plan: Plan,
    pub clause: String,
}

pub fn gen_plan(seed: u64, run: u64, tier: &str) -> Plan {
    let mut rng = Rng::for_run(seed, "C02", run);
    let fs = [Fsync::Always, Fsync::Periodic(0), Fsync::Periodic(100), Fsync::Never];
    let mut cfg = Cfg::gen(&mut rng, &fs);
    cfg.dim = *rng.pick(&[1usize, 2, 3, 4, 7, 8, 9, 16, 17, 33]);
    let max_ops = if tier == "thorough" { 60 } else { 30 };
    let n_ops = rng.range(2, max_ops) as usize;
    let universe = rng.range(1, 9);
    let mut ops = gen_history(&mut rng, &cfg, &GenOpts { n_ops, id_universe: universe, restarts: true, gaps: true, flushes: true, sync_wal: false });
    // placement of extra restarts: right after snapshots / in a row
    let extra = rng.below(4);
    for _ in 0..extra {
        let pos = rng.below(ops.len() as u64 + 1) as usize;
        ops.insert(pos, OpK::Restart);
        if rng.chance(1, 4) {
            ops.insert(pos, OpK::Restart);
        }
    }
    ops.push(OpK::Restart);
    Plan { cfg, ops, universe, env_seed: rng.next() }
}

pub struct Problem {
    pub clause: String,
    pub message: String,
}

pub fn execute(plan: &Plan, sum: &mut Summary) -> Vec<Problem> {
    reset_env(plan.env_seed);
    let p2 = plan.clone();
    let res = on_fresh_thread(move || {
        let mut o = run_history(&p2, &HistOpts { keep_engine: true, check_restarts: true, tag: "c02", run_no: 0 });
        let mut problems = std::mem::take(&mut o.problems);
        if let Some(e) = &o.eng {
            let c = census(e.backend(), p2.universe);
            if let Err(m) = census_matches(&c, &o.final_model) {
                problems.push(("live_differs_from_model".to_string(), format!("end of history: {}", m)));
            }
        }
        drop(o.eng.take());
        remove_dir(&o.dir);
        (problems, o.journal, o.restarts, o.sim_ns, o.recs.iter().filter(|r| r.ok && r.pinned.is_write()).count())
    });
    match res {
        Ok((problems, journal, restarts, sim_ns, writes)) => {
            sum.sim_time_ns += sim_ns;
            sum.evaluations += restarts;
            sum.count("restarts", restarts);
            sum.count("acked_writes", writes as u64);
            let n_unlink_wal = journal.iter().filter(|e| matches!(e, Effect::Unlink { name } if name.starts_with("wal_"))).count();
            let n_wal_create = journal.iter().filter(|e| matches!(e, Effect::Create { name, .. } if name.starts_with("wal_"))).count();
            let n_snap = journal.iter().filter(|e| matches!(e, Effect::Rename { to, .. } if to.starts_with("snapshot_"))).count();
            sum.probe("wal_segment_compacted", n_unlink_wal as u64);
            sum.probe("wal_rotated_or_created", n_wal_create as u64);
            sum.probe("snapshot_published", n_snap as u64);
            if restarts >= 3 {
                sum.probe("three_or_more_restarts", 1);
            }
            // digest of the final directory shape + restart placement as the "distinct" measure
            let mut h = 0xcbf29ce484222325u64;
            for e in &journal {
                let k = match e {
                    Effect::Mark { kind, .. } => *kind as u64 + 100,
                    _ => e.kind_name().len() as u64,
                };
                h = (h ^ k).wrapping_mul(0x100000001b3);
            }
            if restarts > 0 && writes > 0 {
                sum.distinct_hash(h);
            }
            problems.into_iter().map(|(c, m)| Problem { clause: c, message: m }).collect()
        }
        Err(p) => vec![Problem { clause: "harness_thread_panicked".into(), message: p }],
    }
}

fn facts_of(p: &Problem) -> BTreeMap<String, String> {
    let mut f = BTreeMap::new();
    let kind = if p.message.contains("id set differs") {
        if p.message.contains("missing []") {
            "unexpected_document"
        } else {
            "document_missing"
        }
    } else if p.message.contains("vector bits") {
        "vector_differs"
    } else if p.message.contains("metadata differs") {
        "metadata_differs"
    } else if p.clause == "restart_failed" {
        "refused"
    } else {
        "other"
    };
    f.insert("difference".into(), kind.into());
    if p.clause == "restart_failed" {
        let m = p.message.split(": ").skip(2).collect::<Vec<_>>().join(": ");
        f.insert("error".into(), simlibc::mask_name(&m).chars().take(100).collect());
    }
    f
}

fn minimise(plan: &Plan, clause: &str, budget: usize) -> Plan {
    let mut best = plan.clone();
    let mut scratch = Summary::new("C02", 0);
    let mut tries = 0;
    let mut chunk = (best.ops.len() / 2).max(1);
    loop {
        let mut i = 0;
        let mut progress = false;
        while i < best.ops.len() && tries < budget {
            let mut cand = best.clone();
            let end = (i + chunk).min(cand.ops.len());
            cand.ops.drain(i..end);
            tries += 1;
            if execute(&cand, &mut scratch).iter().any(|p| p.clause == clause) {
                best = cand;
                progress = true;
            } else {
                i += chunk;
            }
        }
        if tries >= budget || (chunk == 1 && !progress) {
            break;
        }
        if chunk > 1 {
            chunk /= 2;
        }
    }
    best
}

pub fn run_batch(seed: u64, start: u64, count: u64, tier: &str, budget_ms: u64, sum: &mut Summary) {
    let t0 = simlibc::real_now_ns();
    for run in start..start + count {
        if budget_ms > 0 && (simlibc::real_now_ns() - t0) / 1_000_000 > budget_ms {
            break;
        }
        let plan = gen_plan(seed, run, tier);
        let problems = execute(&plan, sum);
        sum.runs += 1;
        if sum.runs <= 2 {
            sum.sample(json!({"run": run, "cfg": plan.cfg, "ops": plan.ops.len(), "restarts": plan.ops.iter().filter(|o| matches!(o, OpK::Restart)).count()}));
        }
        for p in problems {
            let facts = facts_of(&p);
            let mut key = format!("C02|{}", p.clause);
            for (k, v) in &facts {
                key.push_str(&format!("|{}={}", k, v));
            }
            if !sum.class_first(&key) || sum.violations.len() >= 12 {
                continue;
            }
            let m = if sum.violations.len() < 6 { minimise(&plan, &p.clause, 120) } else { plan.clone() };
            let mut scratch = Summary::new("C02", 0);
            let msg = execute(&m, &mut scratch).into_iter().find(|x| x.clause == p.clause).map(|x| x.message).unwrap_or(p.message.clone());
            sum.violations.push(Violation {
                property: "C02".into(),
                clause: p.clause.clone(),
                facts,
                message: msg,
                seed,
                run,
                replay: serde_json::to_value(Replay { check: "C02".into(), plan: m, clause: p.clause.clone() }).unwrap(),
                minimised: true,
                original: Some(json!({"plan": plan, "message": p.message})),
            });
        }
    }
}

pub fn replay(v: &serde_json::Value, sum: &mut Summary) -> Result<(), String> {
    let r: Replay = serde_json::from_value(v.clone()).map_err(|e| e.to_string())?;
    let problems = execute(&r.plan, sum);
    sum.runs = 1;
    for p in problems {
        sum.violations.push(Violation {
            property: "C02".into(),
            clause: p.clause.clone(),
            facts: facts_of(&p),
            message: p.message,
            seed: 0,
            run: 0,
            replay: v.clone(),
            minimised: true,
            original: None,
        });
    }
    Ok(())
}
