//! C06 (search results are sound and reflect acknowledged recent writes) and the sequential part of
//! C07 (the query-result cache never serves stale or foreign results): one driver over TieredEngine.
//! Histories of writes / overwrites / deletes / metadata updates / bulk loads / drains followed by searches through
//! every entry point (single, ef override, batch, cold backend, timed on a paused runtime with zero/large
//! timeouts and 0/1/large permits), judged against brute-force f64 distances on the reference model.

use crate::common::*;
use crate::hist::{on_fresh_thread, reset_env};
use crate::report::{Summary, Violation};
use crate::rng::Rng;
use crate::simlibc;
use crate::tiered::*;
use kyrodb_engine::SearchExecutionPath;
use serde::{Deserialize, Serialize};
use serde_json::json;
use std::collections::{BTreeMap, BTreeSet};

#[derive(Clone, Debug, PartialEq, Serialize, Deserialize)]
pub enum SearchApi {
    Single,
    WithEf(usize),
    Batch,
    ColdBackend,
    ColdBackendBatch,
    Timed,
    /// timed search with the slow-tier fault: the named tiers' blocking searches are held back past their timeout
    TimedStall { hot: bool, cold: bool },
}

#[derive(Clone, Debug, PartialEq, Serialize, Deserialize)]
pub enum Step {
    Api(ApiOp),
    Search { q: Vec<u32>, k: usize, scope: u64, api: SearchApi },
    /// drift: recent-write-tier entries planted through the public hot_tier() handle (C04's poke) for ids that have no
    /// canonical record, or with a vector that differs from the canonical one; the next drain repairs the former into
    /// the canonical store (which C04 records as a known finding; here only the query-result cache is judged) and
    /// keeps the canonical version of the latter
    Drift { plants: Vec<(u64, Vec<u32>, Meta)> },
}

#[derive(Clone, Debug, PartialEq, Serialize, Deserialize)]
pub struct Plan {
    pub cfg: TCfg,
    pub universe: u64,
    pub steps: Vec<Step>,
    pub env_seed: u64,
}

#[derive(Clone, Debug, Serialize, Deserialize)]
pub struct Replay {
    pub check: String,
    pub plan: Plan,
    pub clause: String,
}

fn gen_query(rng: &mut Rng, dim: usize, pool: &mut Vec<Vec<u32>>, salt: &mut u64) -> Vec<u32> {
    // repeats are frequent so that the query-result cache is exercised
    if !pool.is_empty() && rng.chance(3, 5) {
        return pool[rng.below(pool.len() as u64) as usize].clone();
    }
    *salt += 1;
    let v = gen_vector(rng, dim, 5000 + *salt);
    let q = bits(&v);
    if pool.len() < 4 {
        pool.push(q.clone());
    }
    q
}

pub fn gen_plan(seed: u64, run: u64, tier: &str) -> Plan {
    let mut rng = Rng::for_run(seed, "C06", run);
    let mut cfg = TCfg::gen(&mut rng);
    cfg.dim = *rng.pick(&[1usize, 3, 7, 8, 9, 15, 16, 17, 33, 4, 31, 32, 40, 64, 48, 80, 100, 112]);
    cfg.capacity = *rng.pick(&[8usize, 24, 64, 1000]);
    cfg.qc_cap = *rng.pick(&[1usize, 2, 5, 50]);
    cfg.qc_threshold_milli = *rng.pick(&[1000u32, 1000, 1000, 950]);
    cfg.hot_hard = *rng.pick(&[2usize, 5, 200]);
    // no 0 ms timeouts: expiry would race with tokio's blocking pool, which the simulator does not schedule
    cfg.hot_timeout_ms = Some(*rng.pick(&[50u64, 50, 10_000]));
    cfg.cold_timeout_ms = Some(*rng.pick(&[1000u64, 1000, 10_000]));
    cfg.max_conc = Some(*rng.pick(&[0usize, 1, 1000, 1000]));
    cfg.snap_interval = 1000;
    let universe = rng.range(2, if tier == "thorough" { 40 } else { 14 });
    let n = rng.range(4, if tier == "thorough" { 70 } else { 34 }) as usize;
    let mut w = 0u64;
    let mut pool: Vec<Vec<u32>> = Vec::new();
    let mut salt = 0u64;
    let mut steps = Vec::new();
    // tombstone-heavy prefix in a share of runs
    let heavy = rng.chance(1, 4);
    if heavy {
        for id in 0..universe {
            w += 1;
            steps.push(Step::Api(ApiOp::Insert { id, vec: bits(&gen_vector(&mut rng, cfg.dim, w)), meta: gen_meta(&mut rng, w) }));
        }
        for id in 0..universe {
            if rng.chance(9, 10) {
                steps.push(Step::Api(ApiOp::Delete { id }));
            }
        }
    }
    // crowded neighbourhood in a share of runs: many superseded versions of one document sit right next to a pooled
    // query (so the cold tier's over-fetch, sized from the index-wide ratio, can be used up by tombstones) while a
    // freshly acknowledged document is the nearest live one; part of the time that document is re-written with the
    // very same vector (a metadata-only upsert)
    let mut last_vec: BTreeMap<u64, Vec<u32>> = BTreeMap::new();
    if !heavy && rng.chance(1, 6) {
        let q = gen_query(&mut rng, cfg.dim, &mut pool, &mut salt);
        let base = unbits(&q);
        let near = |eps: f32| -> Vec<u32> { bits(&base.iter().enumerate().map(|(i, x)| x + if i % 2 == 0 { eps } else { -eps }).collect::<Vec<f32>>()) };
        for id in 2..universe {
            w += 1;
            steps.push(Step::Api(ApiOp::Insert { id, vec: bits(&gen_vector(&mut rng, cfg.dim, w)), meta: gen_meta(&mut rng, w) }));
        }
        if universe > 2 && rng.chance(1, 2) {
            steps.push(Step::Api(ApiOp::Flush { force: true }));
        }
        let victim_vec = near(*rng.pick(&[0.02f32, 0.05, 0.1]));
        w += 1;
        steps.push(Step::Api(ApiOp::Insert { id: 0, vec: victim_vec.clone(), meta: gen_meta(&mut rng, w) }));
        last_vec.insert(0, victim_vec.clone());
        for _ in 0..rng.range(3, 14) {
            w += 1;
            steps.push(Step::Api(ApiOp::Insert { id: 1, vec: near(*rng.pick(&[0.0f32, 1e-3, 0.01])), meta: gen_meta(&mut rng, w) }));
        }
        if rng.chance(1, 2) {
            steps.push(Step::Api(ApiOp::Delete { id: 1 }));
        } else {
            w += 1;
            steps.push(Step::Api(ApiOp::Insert { id: 1, vec: bits(&gen_vector(&mut rng, cfg.dim, w)), meta: gen_meta(&mut rng, w) }));
        }
        if rng.chance(1, 3) {
            steps.push(Step::Api(ApiOp::Flush { force: true }));
        }
        if rng.chance(2, 3) {
            w += 1;
            steps.push(Step::Api(ApiOp::Insert { id: 0, vec: victim_vec, meta: gen_meta(&mut rng, w) }));
        }
        let api = match rng.below(4) {
            0 => SearchApi::Batch,
            1 => SearchApi::WithEf(*rng.pick(&[1usize, 10, 200])),
            _ => SearchApi::Single,
        };
        steps.push(Step::Search { q, k: *rng.pick(&[1usize, 1, 2]), scope: 0, api });
    }
    for _ in 0..n {
        let r = rng.below(100);
        if r < 45 {
            let api = match rng.below(12) {
                0..=4 => SearchApi::Single,
                5 => SearchApi::WithEf(*rng.pick(&[1usize, 10, 200])),
                6..=7 => SearchApi::Batch,
                8 => SearchApi::ColdBackend,
                9 => SearchApi::ColdBackendBatch,
                10 => SearchApi::Timed,
                _ => match rng.below(4) {
                    0 => SearchApi::Timed,
                    1 => SearchApi::TimedStall { hot: true, cold: false },
                    2 => SearchApi::TimedStall { hot: false, cold: true },
                    _ => SearchApi::TimedStall { hot: true, cold: true },
                },
            };
            let q = gen_query(&mut rng, cfg.dim, &mut pool, &mut salt);
            let kq = *rng.pick(&[1usize, 2, 2, 3, 4, 5, 10, 100, 1000]);
            let sc = *rng.pick(&[0u64, 0, 1, 2]);
            // a third of the slow-tier searches come as a burst of three (the breaker threshold), so that the
            // breaker-open and, after a gap of a simulated minute, the half-open paths are part of the history
            if matches!(api, SearchApi::TimedStall { .. }) && rng.chance(1, 3) {
                for _ in 0..2 {
                    let qb = gen_query(&mut rng, cfg.dim, &mut pool, &mut salt);
                    steps.push(Step::Search { q: qb, k: kq, scope: sc, api: api.clone() });
                }
            }
            steps.push(Step::Search { q, k: kq, scope: sc, api });
        } else {
            let id = rng.below(universe);
            let op = match rng.below(100) {
                0..=49 => {
                    w += 1;
                    // a share of writes lands close to a pooled query (near the cache's pruning bound)
                    let v: Vec<f32> = if last_vec.contains_key(&id) && rng.chance(1, 6) {
                        // the same vector again: only the metadata changes
                        unbits(&last_vec[&id])
                    } else if !pool.is_empty() && rng.chance(1, 3) {
                        let base = unbits(&pool[rng.below(pool.len() as u64) as usize]);
                        let eps = *rng.pick(&[0.0f32, 1e-3, 0.05, 0.3]);
                        base.iter().enumerate().map(|(i, x)| x + if i % 2 == 0 { eps } else { -eps }).collect()
                    } else {
                        gen_vector(&mut rng, cfg.dim, w)
                    };
                    last_vec.insert(id, bits(&v));
                    ApiOp::Insert { id, vec: bits(&v), meta: gen_meta(&mut rng, w) }
                }
                50..=64 => ApiOp::Delete { id },
                65..=69 => ApiOp::BatchDelete { ids: vec![id, rng.below(universe)] },
                70..=77 => {
                    w += 1;
                    ApiOp::UpdateMeta { id, meta: gen_meta(&mut rng, w), merge: rng.chance(1, 2) }
                }
                78..=85 => {
                    w += 1;
                    ApiOp::BulkLoad { docs: vec![(id, bits(&gen_vector(&mut rng, cfg.dim, w)), gen_meta(&mut rng, w))] }
                }
                86..=93 => ApiOp::Flush { force: rng.chance(2, 3) },
                94..=96 => ApiOp::Gap { ns: *rng.pick(&[1_000_000u64, 61_000_000_000]) },
                _ => ApiOp::Query { id },
            };
            // drift repairs: 1-3 planted mirror entries (near a pooled query, random, or a vector the index refuses),
            // mostly drained right away so that repairs that succeed and repairs that fail share one drain
            if matches!(op, ApiOp::Query { .. } | ApiOp::Gap { .. }) && rng.chance(1, 2) {
                let mut plants = Vec::new();
                for _ in 0..rng.range(1, 3) {
                    w += 1;
                    let pid = rng.below(universe + 2);
                    let v: Vec<f32> = match rng.below(4) {
                        0 => vec![0.0; cfg.dim],
                        1 | 2 if !pool.is_empty() => {
                            let base = unbits(&pool[rng.below(pool.len() as u64) as usize]);
                            let eps = *rng.pick(&[1e-3f32, 0.02, 0.1]);
                            base.iter().enumerate().map(|(i, x)| x + if i % 2 == 0 { eps } else { -eps }).collect()
                        }
                        _ => gen_vector(&mut rng, cfg.dim, w),
                    };
                    plants.push((pid, bits(&v), gen_meta(&mut rng, w)));
                }
                steps.push(Step::Drift { plants });
                if rng.chance(3, 4) {
                    steps.push(Step::Api(ApiOp::Flush { force: true }));
                }
                continue;
            }
            steps.push(Step::Api(op));
        }
    }
    Plan { cfg, universe, steps, env_seed: rng.next() }
}

pub struct Problem {
    pub property: &'static str,
    pub clause: String,
    pub message: String,
    pub facts: BTreeMap<String, String>,
}

fn norm_query(metric: u8, q: &[f32]) -> Vec<Vec<f64>> {
    // engine-normalised query candidates (both forms near the band edge)
    let raw: Vec<f64> = q.iter().map(|x| *x as f64).collect();
    if metric == 1 {
        return vec![raw];
    }
    let ns: f64 = raw.iter().map(|x| x * x).sum();
    let n = ns.sqrt();
    let normed: Vec<f64> = raw.iter().map(|x| x / n).collect();
    if (0.9805..=1.0195).contains(&ns) {
        vec![raw]
    } else if (0.9795..=1.0205).contains(&ns) {
        vec![raw, normed]
    } else {
        vec![normed]
    }
}

/// Interval of acceptable reported distances between query `q` and stored vector `v`.
pub fn ref_distance(metric: u8, q: &[f32], v: &[f32]) -> (f64, f64) {
    let vv: Vec<f64> = v.iter().map(|x| *x as f64).collect();
    let mut lo = f64::INFINITY;
    let mut hi = f64::NEG_INFINITY;
    for qq in norm_query(metric, q) {
        let mut cands: Vec<f64> = Vec::new();
        if metric == 1 {
            cands.push(qq.iter().zip(vv.iter()).map(|(a, b)| (a - b) * (a - b)).sum::<f64>().sqrt());
        } else {
            let dot: f64 = qq.iter().zip(vv.iter()).map(|(a, b)| a * b).sum();
            let nq: f64 = qq.iter().map(|x| x * x).sum::<f64>().sqrt();
            let nv: f64 = vv.iter().map(|x| x * x).sum::<f64>().sqrt();
            cands.push((1.0 - dot).max(0.0)); // cold tier
            cands.push(1.0 - dot);
            let c = dot / (nq * nv);
            cands.push(1.0 - c.clamp(-1.0, 1.0)); // hot tier
            cands.push(1.0 - c);
            cands.push((1.0 - c).max(0.0));
        }
        for c in cands {
            lo = lo.min(c);
            hi = hi.max(c);
        }
    }
    let tol = |d: f64| 3e-5 + 3e-4 * d.abs();
    (lo - tol(lo), hi + tol(hi))
}

#[derive(Clone)]
struct Stored {
    scope: u64,
    q: Vec<u32>,
    k: usize,
    results: Vec<(u64, u32)>,
    step: usize,
}

struct WriteRec {
    step: usize,
    id: u64,
    kind: &'static str, // insert | delete | meta | bulk
    vec: Option<Vec<f32>>,
}

struct Exec {
    problems: Vec<Problem>,
    searches: u64,
    cache_hits: u64,
    probes: BTreeMap<String, u64>,
    shape: u64,
    sim_ns: u64,
}

fn path_name(p: SearchExecutionPath) -> &'static str {
    match p {
        SearchExecutionPath::CacheHit => "cache_hit",
        SearchExecutionPath::HotTierOnly => "hot_only",
        SearchExecutionPath::ColdTierOnly => "cold_only",
        SearchExecutionPath::HotAndCold => "hot_and_cold",
        SearchExecutionPath::Degraded => "degraded",
    }
}

fn execute_inner(plan: &Plan) -> Exec {
    let mut ex = Exec { problems: vec![], searches: 0, cache_hits: 0, probes: BTreeMap::new(), shape: 0xcbf29ce484222325, sim_ns: 0 };
    let dir = if plan.cfg.persist { Some(fresh_dir("c06", 0)) } else { None };
    let root = dir.as_ref().map(|d| simlibc::register_root(d, None, false));
    let b = match build(&plan.cfg, dir.as_deref()) {
        Ok(b) => b,
        Err(e) => {
            ex.problems.push(Problem { property: "C06", clause: "build_failed".into(), message: format!("{:#}", e), facts: BTreeMap::new() });
            if let Some(r) = root {
                simlibc::unregister_root(r);
            }
            return ex;
        }
    };
    let metric = plan.cfg.metric;
    let mut model = Model::new();
    let mut recent: BTreeSet<u64> = BTreeSet::new(); // latest write went through insert and no drain since
    let mut stored: Vec<Stored> = Vec::new();
    let mut writes: Vec<WriteRec> = Vec::new();
    let mut probe = |ex: &mut Exec, k: &str| *ex.probes.entry(k.to_string()).or_insert(0) += 1;
    // planted mirror entries without canonical record that a drain may still repair into the canonical store
    let mut outstanding: BTreeMap<u64, Meta> = BTreeMap::new();
    let mut planted_ids: BTreeSet<u64> = BTreeSet::new();
    for (k, step) in plan.steps.iter().enumerate() {
        let flushes_before = b.engine.hot_tier().stats().total_flushes;
        match step {
            Step::Drift { plants } => {
                for (id, vec, meta) in plants {
                    let emb = unbits(vec);
                    let version = b.engine.cold_tier().fetch_document_with_coherence(*id).map(|(_, t)| t.version + 1).unwrap_or(1);
                    let tok = kyrodb_engine::VectorCoherenceToken::for_embedding(version, &emb);
                    b.engine.hot_tier().insert_with_coherence(*id, emb, to_hash(meta), tok);
                    if model.contains_key(id) {
                        probe(&mut ex, "drift_planted_divergent_mirror");
                    } else {
                        outstanding.insert(*id, meta.clone());
                        probe(&mut ex, "drift_planted_mirror_only_record");
                    }
                    recent.remove(id);
                    planted_ids.insert(*id);
                }
            }
            Step::Api(op) => {
                let res = exec(&b, op);
                match (op, &res) {
                    (ApiOp::Insert { id, vec, meta }, ApiRes::Unit(Ok(()))) => {
                        if let Some(stored_v) = b.engine.cold_tier().fetch_document(*id) {
                            let pinned = pin_vector(metric, vec, &stored_v).unwrap_or_else(|_| bits(&stored_v));
                            writes.push(WriteRec { step: k, id: *id, kind: "insert", vec: Some(unbits(&pinned)) });
                            model.insert(*id, (pinned, meta.clone()));
                            recent.insert(*id);
                        }
                    }
                    (ApiOp::Delete { id }, ApiRes::Bool(Ok(_))) => {
                        if model.remove(id).is_some() {
                            writes.push(WriteRec { step: k, id: *id, kind: "delete", vec: None });
                        }
                        recent.remove(id);
                    }
                    (ApiOp::BatchDelete { ids }, ApiRes::Count(Ok(_))) => {
                        for id in ids {
                            if model.remove(id).is_some() {
                                writes.push(WriteRec { step: k, id: *id, kind: "delete", vec: None });
                            }
                            recent.remove(id);
                        }
                    }
                    (ApiOp::UpdateMeta { id, meta, merge }, ApiRes::Bool(Ok(true))) => {
                        model_apply(&mut model, &OpK::UpdateMeta { id: *id, meta: meta.clone(), merge: *merge });
                        writes.push(WriteRec { step: k, id: *id, kind: "meta", vec: None });
                    }
                    (ApiOp::BulkLoad { docs }, ApiRes::Count(Ok(_))) => {
                        for (id, vec, meta) in docs {
                            if let Some(stored_v) = b.engine.cold_tier().fetch_document(*id) {
                                if b.engine.cold_tier().fetch_metadata(*id).map(|m| to_btree(&m)).as_ref() == Some(meta) {
                                    let pinned = pin_vector(metric, vec, &stored_v).unwrap_or_else(|_| bits(&stored_v));
                                    writes.push(WriteRec { step: k, id: *id, kind: "bulk", vec: Some(unbits(&pinned)) });
                                    model.insert(*id, (pinned, meta.clone()));
                                    recent.remove(id);
                                }
                            }
                        }
                    }
                    _ => {}
                }
                if b.engine.hot_tier().stats().total_flushes != flushes_before {
                    recent.clear();
                    probe(&mut ex, "drain_between_searches");
                }
            }
            Step::Search { q, k: kk, scope, api } => {
                let qf = unbits(q);
                // residency in the recent-write tier is read BEFORE the search (a search may discard mirror entries)
                let resident_before: BTreeSet<u64> = recent.iter().copied().filter(|id| b.engine.hot_tier().exists(*id)).collect();
                // a planted mirror entry that is still resident takes one of the recent-write tier's 2k candidate slots
                // and is then discarded: the completeness of recent writes is not judged while one is there (the
                // statement promises nothing about a tampered mirror; soundness and the cache clauses stay in force)
                let planted_resident = planted_ids.iter().any(|id| !recent.contains(id) && b.engine.hot_tier().exists(*id));
                // responses: (results, path, label)
                let mut responses: Vec<(Vec<(u64, f32)>, Option<SearchExecutionPath>, Vec<f32>)> = Vec::new();
                let mut failed = None;
                let mut timed_degr: Option<Degradation> = None;
                let to_pairs = |r: Vec<kyrodb_engine::SearchResult>| -> Vec<(u64, f32)> { r.into_iter().map(|x| (x.doc_id, x.distance)).collect() };
                match api {
                    SearchApi::Single => match b.engine.knn_search_with_ef_detailed_scoped(&qf, *kk, None, *scope) {
                        Ok((r, p)) => responses.push((to_pairs(r), Some(p), qf.clone())),
                        Err(e) => failed = Some(format!("{:#}", e)),
                    },
                    SearchApi::WithEf(ef) => match b.engine.knn_search_with_ef_detailed_scoped(&qf, *kk, Some(*ef), *scope) {
                        Ok((r, p)) => responses.push((to_pairs(r), Some(p), qf.clone())),
                        Err(e) => failed = Some(format!("{:#}", e)),
                    },
                    SearchApi::Batch => {
                        // the query twice plus a perturbed one
                        let q2: Vec<f32> = qf.iter().map(|x| x * 0.5 + 0.01).collect();
                        let qs = vec![qf.clone(), q2.clone(), qf.clone()];
                        match b.engine.knn_search_batch_with_ef_detailed_scoped(&qs, *kk, None, *scope) {
                            Ok(rs) => {
                                for ((r, p), qq) in rs.into_iter().zip(qs.into_iter()) {
                                    responses.push((to_pairs(r), Some(p), qq));
                                }
                            }
                            Err(e) => failed = Some(format!("{:#}", e)),
                        }
                    }
                    SearchApi::ColdBackend => match b.engine.cold_tier().knn_search(&qf, *kk) {
                        Ok(r) => responses.push((to_pairs(r), None, qf.clone())),
                        Err(e) => failed = Some(format!("{:#}", e)),
                    },
                    SearchApi::ColdBackendBatch => match b.engine.cold_tier().knn_search_batch(&[qf.clone(), qf.clone()], *kk, None) {
                        Ok(rs) => {
                            for r in rs {
                                responses.push((to_pairs(r), None, qf.clone()));
                            }
                        }
                        Err(e) => failed = Some(format!("{:#}", e)),
                    },
                    SearchApi::Timed | SearchApi::TimedStall { .. } => {
                        let stall = match api {
                            SearchApi::TimedStall { hot, cold } => Stall { hot: *hot, cold: *cold },
                            _ => Stall::default(),
                        };
                        let _fz = simlibc::FreezeClock::new();
                        let (r, d) = timed_search(&b, &qf, *kk, None, *scope, stall);
                        if d.threads_stalled > 0 {
                            probe(&mut ex, "slow_tier_thread_stalled");
                        }
                        if d.any() {
                            probe(&mut ex, &format!("timed_degraded_{}", d.label()));
                        }
                        match r {
                            Ok((r, p)) => responses.push((to_pairs(r), Some(p), qf.clone())),
                            Err(e) => failed = Some(e),
                        }
                        timed_degr = Some(d);
                    }
                }
                if let Some(e) = &failed {
                    probe(&mut ex, if e.contains("saturated") { "load_shed" } else if e.contains("norm is zero") || e.contains("dimension") { "query_rejected" } else { "search_error" });
                }
                let api_name = format!("{:?}", api).split(|c: char| !c.is_alphanumeric()).next().unwrap_or("?").to_string();
                for (res, path, used_q) in responses {
                    ex.searches += 1;
                    let pname = path.map(path_name).unwrap_or("backend");
                    probe(&mut ex, &format!("path_{}", pname));
                    ex.shape = (ex.shape ^ (res.len() as u64) ^ ((pname.len() as u64) << 8)).wrapping_mul(0x100000001b3);
                    // a timed response is degraded when the engine's own counters say so (timeout, open breaker,
                    // worker or queue saturation, partial result): the execution path alone does not tell
                    let degraded = matches!(path, Some(SearchExecutionPath::Degraded)) || timed_degr.as_ref().map(|d| d.any()).unwrap_or(false);
                    let mut facts = BTreeMap::new();
                    facts.insert("api".to_string(), api_name.clone());
                    facts.insert("path".to_string(), pname.to_string());
                    facts.insert("metric".to_string(), metric.to_string());
                    if let Some(d) = &timed_degr {
                        facts.insert("degradation".to_string(), d.label());
                    }
                    let mut bad = |ex: &mut Exec, prop: &'static str, clause: &str, msg: String, extra: &[(&str, String)]| {
                        let mut f = facts.clone();
                        for (a, b2) in extra {
                            f.insert(a.to_string(), b2.clone());
                        }
                        ex.problems.push(Problem { property: prop, clause: clause.to_string(), message: format!("step {} ({} k={} scope={} path={}): {}", k + 1, api_name, kk, scope, pname, msg), facts: f });
                    };
                    // ---- provenance of cache hits: which stored result was served (similarity hits serve another
                    // query's list by design; they are judged relative to the entry that was served)
                    let is_hit = matches!(path, Some(SearchExecutionPath::CacheHit));
                    let rbits: Vec<(u64, u32)> = res.iter().map(|x| (x.0, x.1.to_bits())).collect();
                    let thr = plan.cfg.qc_threshold_milli as f64 / 1000.0 - 1e-4;
                    let cos = |a: &[f32], b: &[f32]| -> f64 {
                        let d: f64 = a.iter().zip(b.iter()).map(|(x, y)| *x as f64 * *y as f64).sum();
                        let na: f64 = a.iter().map(|x| (*x as f64).powi(2)).sum::<f64>().sqrt();
                        let nb: f64 = b.iter().map(|x| (*x as f64).powi(2)).sum::<f64>().sqrt();
                        if na == 0.0 || nb == 0.0 {
                            0.0
                        } else {
                            d / (na * nb)
                        }
                    };
                    let cands: Vec<Stored> = if is_hit {
                        stored
                            .iter()
                            .filter(|s| s.scope == *scope && s.k >= *kk && cos(&unbits(&s.q), &used_q) >= thr)
                            .filter(|s| s.results.iter().take(*kk).cloned().collect::<Vec<_>>() == rbits)
                            .cloned()
                            .collect()
                    } else {
                        vec![]
                    };
                    let served: Option<Stored> = cands.iter().max_by_key(|s| s.step).cloned();
                    let judge_q: Vec<f32> = match &served {
                        Some(s) => unbits(&s.q),
                        None => used_q.clone(),
                    };
                    // ---- C06 soundness
                    if res.len() > *kk {
                        bad(&mut ex, "C06", "more_than_k_results", format!("{} results", res.len()), &[]);
                    }
                    let ids: Vec<u64> = res.iter().map(|x| x.0).collect();
                    let uniq: BTreeSet<u64> = ids.iter().copied().collect();
                    if uniq.len() != ids.len() {
                        bad(&mut ex, "C06", "duplicate_document", format!("ids {:?}", ids), &[]);
                    }
                    for w2 in res.windows(2) {
                        if w2[1].1 < w2[0].1 {
                            bad(&mut ex, "C06", "not_sorted_by_distance", format!("{:?}", res), &[]);
                            break;
                        }
                    }
                    for (id, d) in &res {
                        match model.get(id) {
                            None => bad(&mut ex, "C06", "nonexistent_document_returned", format!("id {} is not in the collection (deleted or never written)", id), &[]),
                            Some((v, _)) => {
                                if is_hit && served.is_none() {
                                    continue; // no provenance: C07 reports it; the distance has no defined reference
                                }
                                let (lo, hi) = ref_distance(metric, &judge_q, &unbits(v));
                                if !((*d as f64) >= lo && (*d as f64) <= hi) {
                                    // would it match a previous version of this document?
                                    let old = writes.iter().rev().filter(|w| w.id == *id).filter_map(|w| w.vec.as_ref()).skip(1).any(|ov| {
                                        let (l2, h2) = ref_distance(metric, &judge_q, ov);
                                        (*d as f64) >= l2 && (*d as f64) <= h2
                                    });
                                    bad(&mut ex, "C06", "wrong_distance", format!("id {} reported distance {} but the true distance to its current vector is in [{:.6}, {:.6}]{}", id, d, lo, hi, if old { " (matches an overwritten version)" } else { "" }), &[("matches_old_version", old.to_string())]);
                                }
                            }
                        }
                    }
                    // ---- C06 completeness for acknowledged, not yet drained writes
                    if path.is_some() && !degraded && !planted_resident {
                        let kth = if res.len() >= *kk { res.last().map(|x| x.1 as f64) } else { None };
                        for id in &recent {
                            if uniq.contains(id) || !resident_before.contains(id) {
                                continue;
                            }
                            let Some((v, _)) = model.get(id) else { continue };
                            let (lo, hi) = ref_distance(metric, &used_q, &unbits(v));
                            if !hi.is_finite() {
                                continue;
                            }
                            let missing = match kth {
                                Some(kd) => hi < kd - (3e-5 + 3e-4 * kd.abs()),
                                None => true,
                            };
                            let _ = lo;
                            if missing && !matches!(path, Some(SearchExecutionPath::CacheHit)) {
                                bad(&mut ex, "C06", "recent_write_missing", format!("id {} (acknowledged, still in the recent-write tier, distance <= {:.6}) is missing although the k-th returned distance is {:?}; results {:?}", id, hi, kth, res), &[]);
                            }
                        }
                    }
                    // ---- C07: cache hits
                    if matches!(path, Some(SearchExecutionPath::CacheHit)) {
                        ex.cache_hits += 1;
                        let ubits = bits(&used_q);
                        if cands.is_empty() {
                            let other_scope = stored.iter().any(|s| s.scope != *scope && s.results.iter().take(*kk).cloned().collect::<Vec<_>>() == rbits);
                            let smaller_k = stored.iter().any(|s| s.scope == *scope && s.k < *kk && s.q == ubits);
                            let why = if other_scope { "served_from_another_scope" } else if smaller_k { "entry_stored_for_smaller_k" } else { "no_matching_stored_result" };
                            bad(&mut ex, "C07", "cache_hit_without_provenance", format!("cache hit {:?} matches no result that was stored for this scope with k >= {} ({})", res, kk, why), &[("why", why.to_string())]);
                        } else {
                            // freshness: at least one matching entry must still be servable (the engine may hold
                            // any of the results it computed; an entry that was legitimately dropped is not evidence)
                            let mut first_reason: Option<(usize, String)> = None;
                            let mut any_fresh = false;
                            for s in cands.iter() {
                                let worst = s.results.iter().map(|x| f32::from_bits(x.1) as f64).fold(f64::NEG_INFINITY, f64::max);
                                let sq = unbits(&s.q);
                                let mut stale: Option<String> = None;
                                for w in writes.iter().filter(|w| w.step > s.step) {
                                    let in_r = uniq.contains(&w.id);
                                    let mut why = None;
                                    match w.kind {
                                        "delete" if in_r => why = Some("document_deleted_since"),
                                        "insert" | "bulk" | "repair" if in_r => why = Some("document_overwritten_since"),
                                        "meta" if in_r => why = Some("metadata_updated_since"),
                                        "bulk" => why = Some("bulk_load_since"),
                                        "insert" | "repair" => {
                                            if let Some(v) = &w.vec {
                                                let (_, hi) = ref_distance(metric, &sq, v);
                                                let full = s.results.len() >= s.k;
                                                if model.contains_key(&w.id) && (hi < worst - (3e-5 + 3e-4 * worst.abs()) || !full) {
                                                    why = Some("closer_document_written_since");
                                                }
                                            }
                                        }
                                        _ => {}
                                    }
                                    if let Some(why) = why {
                                        stale = Some(format!("{}|entry stored at step {}, then step {} ({} of id {})", why, s.step + 1, w.step + 1, w.kind, w.id));
                                        break;
                                    }
                                }
                                match stale {
                                    None => {
                                        any_fresh = true;
                                        break;
                                    }
                                    Some(r) => {
                                        if first_reason.as_ref().map(|(st, _)| s.step > *st).unwrap_or(true) {
                                            first_reason = Some((s.step, r));
                                        }
                                    }
                                }
                            }
                            if !any_fresh {
                                if let Some((_, r)) = first_reason {
                                    let why = r.split('|').next().unwrap_or("?").to_string();
                                    bad(&mut ex, "C07", "stale_cache_hit", format!("cache hit {:?}: every stored result it could come from has been overtaken by a write since ({})", res, r), &[("why", why)]);
                                }
                            }
                        }
                    } else if path.is_some() && matches!(api, SearchApi::Single | SearchApi::Batch | SearchApi::Timed | SearchApi::TimedStall { .. }) && !degraded {
                        // what the engine may have stored
                        stored.push(Stored { scope: *scope, q: bits(&used_q), k: *kk, results: res.iter().map(|x| (x.0, x.1.to_bits())).collect(), step: k });
                    }
                }
            }
        }
        // drift repairs: a planted mirror-only record that a drain wrote into the canonical store is a document now
        if !outstanding.is_empty() {
            let ids: Vec<u64> = outstanding.keys().copied().collect();
            for id in ids {
                if model.contains_key(&id) {
                    // an acknowledged write of the history has taken the id over
                    outstanding.remove(&id);
                } else if let Some(stored_v) = b.engine.cold_tier().fetch_document(id) {
                    let meta = b.engine.cold_tier().fetch_metadata(id).map(|m| to_btree(&m)).unwrap_or_default();
                    writes.push(WriteRec { step: k, id, kind: "repair", vec: Some(stored_v.clone()) });
                    model.insert(id, (bits(&stored_v), meta));
                    outstanding.remove(&id);
                    probe(&mut ex, "drift_repaired_into_canonical_store");
                } else if !b.engine.hot_tier().exists(id) {
                    outstanding.remove(&id);
                    probe(&mut ex, "drift_entry_discarded");
                }
            }
        }
        if ex.problems.len() >= 4 {
            break;
        }
    }
    drop(b);
    if let Some(r) = root {
        simlibc::unregister_root(r);
    }
    if let Some(d) = dir {
        remove_dir(&d);
    }
    ex.sim_ns = simlibc::clock_now_ns() - simlibc::EPOCH_NS;
    ex
}

pub fn execute(plan: &Plan, sum: &mut Summary) -> Vec<Problem> {
    reset_env(plan.env_seed);
    let p = plan.clone();
    match on_fresh_thread(move || execute_inner(&p)) {
        Ok(ex) => {
            sum.sim_time_ns += ex.sim_ns;
            sum.evaluations += ex.searches;
            sum.count("query_cache_hits_judged", ex.cache_hits);
            for (k, v) in &ex.probes {
                sum.probe(k, *v);
            }
            if ex.searches > 1 {
                sum.distinct_hash(ex.shape);
            }
            ex.problems
        }
        Err(p) => vec![Problem { property: "C06", clause: "harness_thread_panicked".into(), message: p, facts: BTreeMap::new() }],
    }
}

fn key_of(p: &Problem) -> String {
    let mut s = format!("{}|{}", p.property, p.clause);
    for (k, v) in &p.facts {
        s.push_str(&format!("|{}={}", k, v));
    }
    s
}

pub fn run_batch(property: &'static str, seed: u64, start: u64, count: u64, tier: &str, budget_ms: u64, sum: &mut Summary) {
    let t0 = simlibc::real_now_ns();
    for run in start..start + count {
        if budget_ms > 0 && (simlibc::real_now_ns() - t0) / 1_000_000 > budget_ms {
            break;
        }
        if (property == "C07" && run % 3 == 2) || (property == "C06" && run % 8 == 7) {
            // race row
            let rp = race::gen_plan(seed, run);
            let rex = race::execute(&rp);
            sum.runs += 1;
            if rex.deadlocked {
                sum.count("race_aborted_by_deadlock_or_cap", 1);
                continue;
            }
            sum.evaluations += 1;
            sum.count("race_rows", 1);
            if rex.quiescent_hit {
                sum.probe("race_quiescent_repeat_was_cache_hit", 1);
                sum.distinct_hash(rex.trace_hash);
            }
            for p in rex.problems.into_iter().filter(|p| p.property == property || p.clause == "harness_thread_panicked") {
                let key = key_of(&p);
                if !sum.class_first(&key) || sum.violations.len() >= 12 {
                    continue;
                }
                let mut rp2 = rp.clone();
                rp2.sched = crate::c08::SchedSpec { kind: "replay".into(), a: 0, len: rp.sched.len, seed: rp.sched.seed, yield_on_release: rp.sched.yield_on_release, choices: rex.choices.clone() };
                sum.violations.push(Violation {
                    property: property.into(),
                    clause: p.clause.clone(),
                    facts: p.facts.clone(),
                    message: p.message.clone(),
                    seed,
                    run,
                    replay: serde_json::to_value(race::RReplay { check: property.into(), race_plan: rp2, clause: p.clause.clone() }).unwrap(),
                    minimised: false,
                    original: None,
                });
            }
            continue;
        }
        let plan = gen_plan(seed, run, tier);
        let problems = execute(&plan, sum);
        sum.runs += 1;
        if sum.runs <= 2 {
            sum.sample(json!({"run": run, "cfg": plan.cfg, "steps": plan.steps.iter().take(6).collect::<Vec<_>>() }));
        }
        for p in problems.into_iter().filter(|p| p.property == property || p.clause == "harness_thread_panicked") {
            let key = key_of(&p);
            if !sum.class_first(&key) || sum.violations.len() >= 12 {
                continue;
            }
            let mut best = plan.clone();
            let mut scratch = Summary::new(property, 0);
            let mut tries = 0;
            let mut chunk = (best.steps.len() / 2).max(1);
            if sum.violations.len() < 6 {
                loop {
                    let mut i = 0;
                    let mut progress = false;
                    while i < best.steps.len() && tries < 150 {
                        let mut cand = best.clone();
                        let end = (i + chunk).min(cand.steps.len());
                        cand.steps.drain(i..end);
                        tries += 1;
                        if execute(&cand, &mut scratch).iter().any(|x| key_of(x) == key) {
                            best = cand;
                            progress = true;
                        } else {
                            i += chunk;
                        }
                    }
                    if tries >= 150 || (chunk == 1 && !progress) {
                        break;
                    }
                    if chunk > 1 {
                        chunk /= 2;
                    }
                }
            }
            let msg = execute(&best, &mut scratch).into_iter().find(|x| key_of(x) == key).map(|x| x.message).unwrap_or(p.message.clone());
            sum.violations.push(Violation {
                property: property.into(),
                clause: p.clause.clone(),
                facts: p.facts.clone(),
                message: msg,
                seed,
                run,
                replay: serde_json::to_value(Replay { check: property.into(), plan: best, clause: p.clause.clone() }).unwrap(),
                minimised: true,
                original: Some(json!({"plan": plan, "message": p.message})),
            });
        }
    }
}

pub fn replay(property: &'static str, v: &serde_json::Value, sum: &mut Summary) -> Result<(), String> {
    if v.get("race_plan").is_some() {
        let r: race::RReplay = serde_json::from_value(v.clone()).map_err(|e| e.to_string())?;
        let rex = race::execute(&r.race_plan);
        sum.runs = 1;
        for p in rex.problems.into_iter().filter(|p| p.property == property) {
            sum.violations.push(Violation { property: property.into(), clause: p.clause.clone(), facts: p.facts.clone(), message: p.message, seed: 0, run: 0, replay: v.clone(), minimised: false, original: None });
        }
        return Ok(());
    }
    let r: Replay = serde_json::from_value(v.clone()).map_err(|e| e.to_string())?;
    let problems = execute(&r.plan, sum);
    sum.runs = 1;
    for p in problems.into_iter().filter(|p| p.property == property) {
        sum.violations.push(Violation { property: property.into(), clause: p.clause.clone(), facts: p.facts.clone(), message: p.message, seed: 0, run: 0, replay: v.clone(), minimised: true, original: None });
    }
    Ok(())
}

// ================================================================================================
// C07 race rows: one searching thread || one writing thread under the seeded scheduler (E2), followed by a
// quiescent repeat of the search. A result computed before the write must not be servable after it.

pub mod race {
    use super::*;
    use crate::c08::SchedSpec;
    use plsim::sim::{self, RunConfig};
    use std::sync::Arc;

    #[derive(Clone, Debug, PartialEq, Serialize, Deserialize)]
    pub struct RPlan {
        pub cfg: TCfg,
        pub pre: Vec<ApiOp>,
        pub q: Vec<u32>,
        pub k: usize,
        pub searches: usize,
        pub writer: Vec<ApiOp>,
        pub sched: SchedSpec,
        pub env_seed: u64,
    }

    pub fn gen_plan(seed: u64, run: u64) -> RPlan {
        let prog = run / 10;
        let mut rng = Rng::for_run(seed, "C07r", prog);
        let mut cfg = TCfg::gen(&mut rng);
        cfg.dim = *rng.pick(&[2usize, 4, 33]);
        cfg.qc_cap = *rng.pick(&[1usize, 2, 50]);
        cfg.qc_threshold_milli = 1000;
        cfg.capacity = 1000;
        cfg.hot_hard = *rng.pick(&[2usize, 200]);
        cfg.snap_interval = 1000;
        let mut w = 0u64;
        let n_pre = rng.range(1, 5);
        let mut pre = Vec::new();
        for id in 0..n_pre {
            w += 1;
            pre.push(ApiOp::Insert { id, vec: bits(&gen_vector(&mut rng, cfg.dim, w)), meta: gen_meta(&mut rng, w) });
        }
        if rng.chance(1, 3) {
            pre.push(ApiOp::Flush { force: true });
        }
        let qv = gen_vector(&mut rng, cfg.dim, 777);
        let mut k = *rng.pick(&[1usize, 2, 3, 10]);
        // a quarter of the programs start with a crowded neighbourhood: 3-14 superseded versions of one document right
        // next to the query (tombstones that use up the cold tier's over-fetch), everything drained; the writer then
        // puts a document next to the query, which the cold tier alone may miss while the recent-write tier has it
        let crowded = rng.chance(1, 4);
        if crowded {
            let near = |eps: f32| -> Vec<u32> { bits(&qv.iter().enumerate().map(|(i, x)| x + if i % 2 == 0 { eps } else { -eps }).collect::<Vec<f32>>()) };
            for _ in 0..rng.range(3, 14) {
                w += 1;
                pre.push(ApiOp::Insert { id: n_pre + 5, vec: near(*rng.pick(&[0.0f32, 1e-3, 0.01])), meta: gen_meta(&mut rng, w) });
            }
            pre.push(ApiOp::Delete { id: n_pre + 5 });
            pre.push(ApiOp::Flush { force: true });
            k = *rng.pick(&[1usize, 1, 2]);
        }
        // another quarter runs on a tiny index that the prefix fills up with superseded versions, so that the writer's
        // insert goes through tombstone compaction (which renumbers the index's internal slots) while the search runs
        let tiny = !crowded && rng.chance(1, 3);
        if tiny {
            cfg.capacity = (n_pre as usize + 1 + rng.below(3) as usize).max(3);
            let used = pre.iter().filter(|o| matches!(o, ApiOp::Insert { .. })).count();
            for j in used..cfg.capacity {
                w += 1;
                pre.push(ApiOp::Insert { id: (j as u64) % n_pre, vec: bits(&gen_vector(&mut rng, cfg.dim, w)), meta: gen_meta(&mut rng, w) });
            }
        }
        let mut writer = Vec::new();
        for _ in 0..rng.range(1, 2) {
            let id = rng.below(n_pre + 1);
            w += 1;
            let op = match rng.below(if crowded { 5 } else if tiny { 7 } else { 10 }) {
                0..=4 => {
                    // close to the query so that it belongs inside the cached boundary
                    let eps = if crowded { *rng.pick(&[0.02f32, 0.05, 0.1]) } else { *rng.pick(&[0.0f32, 0.01, 0.2]) };
                    let v: Vec<f32> = qv.iter().enumerate().map(|(i, x)| x + if i % 2 == 0 { eps } else { -eps }).collect();
                    ApiOp::Insert { id, vec: bits(&v), meta: gen_meta(&mut rng, w) }
                }
                5..=6 => ApiOp::Insert { id, vec: bits(&gen_vector(&mut rng, cfg.dim, w)), meta: gen_meta(&mut rng, w) },
                7 => ApiOp::Delete { id },
                8 => ApiOp::UpdateMeta { id, meta: gen_meta(&mut rng, w), merge: false },
                _ => ApiOp::BulkLoad { docs: vec![(id, bits(&gen_vector(&mut rng, cfg.dim, w)), gen_meta(&mut rng, w))] },
            };
            writer.push(op);
        }
        let env_seed = rng.next();
        let mut srng = Rng::for_run(seed, "C07rs", run);
        RPlan { cfg, pre, q: bits(&qv), k, searches: rng.range(1, 2) as usize, writer, sched: SchedSpec::gen(&mut srng, 120), env_seed }
    }

    pub struct RExec {
        pub problems: Vec<Problem>,
        pub deadlocked: bool,
        pub trace_hash: u64,
        pub quiescent_hit: bool,
        pub choices: Vec<(u64, u32)>,
    }

    pub fn execute(plan: &RPlan) -> RExec {
        reset_env(plan.env_seed);
        let p = plan.clone();
        let r = on_fresh_thread(move || {
            let mut ex = RExec { problems: vec![], deadlocked: false, trace_hash: 0, quiescent_hit: false, choices: vec![] };
            let b = match build(&p.cfg, None) {
                Ok(b) => Arc::new(b),
                Err(_) => return ex,
            };
            for op in &p.pre {
                let _ = exec(&b, op);
            }
            let qf = unbits(&p.q);
            let mut bodies: Vec<Box<dyn FnOnce() + Send + 'static>> = Vec::new();
            let seen: Arc<std::sync::Mutex<Vec<Vec<(u64, f32)>>>> = Arc::new(std::sync::Mutex::new(Vec::new()));
            {
                let b2 = Arc::clone(&b);
                let (q2, k, n) = (qf.clone(), p.k, p.searches);
                let seen2 = Arc::clone(&seen);
                bodies.push(Box::new(move || {
                    for _ in 0..n {
                        if let Ok((r, _)) = b2.engine.knn_search_with_ef_detailed_scoped(&q2, k, None, 0) {
                            if let Ok(mut g) = seen2.lock() {
                                g.push(r.into_iter().map(|x| (x.doc_id, x.distance)).collect());
                            }
                        }
                    }
                }));
            }
            {
                let b2 = Arc::clone(&b);
                let ops = p.writer.clone();
                bodies.push(Box::new(move || {
                    for op in &ops {
                        let _ = exec(&b2, op);
                    }
                }));
            }
            let result = sim::run(RunConfig { seed: p.sched.seed, strategy: p.sched.strategy(), max_decisions: 30_000, yield_on_release: p.sched.yield_on_release, record_sites: false }, bodies);
            ex.trace_hash = result.trace_hash;
            ex.choices = result.choices.clone();
            if result.deadlock.is_some() || result.step_cap_hit {
                ex.deadlocked = true;
                std::mem::forget(b);
                return ex;
            }
            let metric = p.cfg.metric;
            // ---- C06 under concurrency: every (document, distance) pair a racing search returned must be the distance
            // to SOME version that document had during the run (never another document's distance under its id)
            {
                // the forms the engine may have stored for an input: the input itself (Euclidean; cosine / inner product
                // inside the 0.98-1.02 "already normalised" band) and / or its normalisation (outside the band)
                let stored_forms = |v: &[u32]| -> Vec<Vec<f32>> {
                    let f = unbits(v);
                    if metric == 1 {
                        return vec![f];
                    }
                    let ns = f.iter().map(|x| (*x as f64) * (*x as f64)).sum::<f64>();
                    let n = ns.sqrt();
                    let mut out = Vec::new();
                    if (0.9795..=1.0205).contains(&ns) {
                        out.push(f.clone());
                    }
                    if !(0.9805..=1.0195).contains(&ns) && n > 0.0 && n.is_finite() {
                        out.push(f.iter().map(|x| (*x as f64 / n) as f32).collect());
                    }
                    out
                };
                let mut versions: BTreeMap<u64, Vec<Vec<f32>>> = BTreeMap::new();
                for op in p.pre.iter().chain(p.writer.iter()) {
                    match op {
                        ApiOp::Insert { id, vec, .. } => versions.entry(*id).or_default().extend(stored_forms(vec)),
                        ApiOp::BulkLoad { docs } => {
                            for (id, vec, _) in docs {
                                versions.entry(*id).or_default().extend(stored_forms(vec));
                            }
                        }
                        _ => {}
                    }
                }
                let responses = seen.lock().map(|g| g.clone()).unwrap_or_default();
                'resp: for res in &responses {
                    for (id, d) in res {
                        let ok = versions.get(id).map(|vs| vs.iter().any(|v| { let (lo, hi) = ref_distance(metric, &qf, v); (*d as f64) >= lo && (*d as f64) <= hi })).unwrap_or(false);
                        if !ok {
                            let mut f = BTreeMap::new();
                            f.insert("mode".to_string(), "searcher_writer_race".to_string());
                            f.insert("metric".to_string(), metric.to_string());
                            f.insert("known_document".to_string(), versions.contains_key(id).to_string());
                            ex.problems.push(Problem { property: "C06", clause: "wrong_distance_under_race".into(), message: format!("a search racing with a writer returned id {} at distance {}, which is the distance to no version that document ever had (results {:?})", id, d, res), facts: f });
                            break 'resp;
                        }
                    }
                }
            }
            // quiescent repeat
            let written: BTreeSet<u64> = p
                .writer
                .iter()
                .flat_map(|op| match op {
                    ApiOp::Insert { id, .. } | ApiOp::Delete { id } | ApiOp::UpdateMeta { id, .. } => vec![*id],
                    ApiOp::BulkLoad { docs } => docs.iter().map(|d| d.0).collect(),
                    _ => vec![],
                })
                .collect();
            if let Ok((res, path)) = b.engine.knn_search_with_ef_detailed_scoped(&qf, p.k, None, 0) {
                if matches!(path, SearchExecutionPath::CacheHit) {
                    ex.quiescent_hit = true;
                    let ids: BTreeSet<u64> = res.iter().map(|x| x.doc_id).collect();
                    let kth = if res.len() >= p.k { res.last().map(|x| x.distance as f64) } else { None };
                    let mut facts = BTreeMap::new();
                    facts.insert("mode".to_string(), "searcher_writer_race".to_string());
                    for x in &res {
                        match b.engine.cold_tier().fetch_document(x.doc_id) {
                            None => ex.problems.push(Problem { property: "C07", clause: "stale_cache_hit_after_race".into(), message: format!("quiescent cache hit returns deleted id {}", x.doc_id), facts: { let mut f = facts.clone(); f.insert("why".into(), "deleted_document".into()); f } }),
                            Some(v) => {
                                let (lo, hi) = ref_distance(metric, &qf, &v);
                                if written.contains(&x.doc_id) && !((x.distance as f64) >= lo && (x.distance as f64) <= hi) {
                                    ex.problems.push(Problem { property: "C07", clause: "stale_cache_hit_after_race".into(), message: format!("quiescent cache hit reports distance {} for id {} whose current vector is at [{:.6},{:.6}] (pre-write result stored after the write's invalidation)", x.distance, x.doc_id, lo, hi), facts: { let mut f = facts.clone(); f.insert("why".into(), "pre_overwrite_distance".into()); f } });
                                }
                            }
                        }
                    }
                    for id in &written {
                        if ids.contains(id) {
                            continue;
                        }
                        if let Some(v) = b.engine.cold_tier().fetch_document(*id) {
                            let (_, hi) = ref_distance(metric, &qf, &v);
                            let inside = match kth {
                                Some(kd) => hi < kd - (3e-5 + 3e-4 * kd.abs()),
                                None => true,
                            };
                            if inside {
                                ex.problems.push(Problem { property: "C07", clause: "stale_cache_hit_after_race".into(), message: format!("quiescent cache hit {:?} omits id {} written during the race although it lies strictly inside the boundary (distance <= {:.6}, k-th {:?})", res.iter().map(|x| (x.doc_id, x.distance)).collect::<Vec<_>>(), id, hi, kth), facts: { let mut f = facts.clone(); f.insert("why".into(), "written_document_omitted".into()); f } });
                            }
                        }
                    }
                }
            }
            ex
        });
        match r {
            Ok(e) => e,
            Err(p) => RExec { problems: vec![Problem { property: "C07", clause: "harness_thread_panicked".into(), message: p, facts: BTreeMap::new() }], deadlocked: false, trace_hash: 0, quiescent_hit: false, choices: vec![] },
        }
    }

    #[derive(Clone, Debug, Serialize, Deserialize)]
    pub struct RReplay {
        pub check: String,
        pub race_plan: RPlan,
        pub clause: String,
    }
}
