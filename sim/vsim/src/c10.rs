//! C10: tenants are isolated end to end.
//! The real server (every handler, interceptor, generated router/codec, /usage route) runs in-process (E3). A seeded
//! history of RPCs by 2-3 tenants with colliding local ids, identical vectors/queries, spoofed reserved keys and
//! NOT/OR filters is executed in one "interleaved" world; then each tenant's own projection of the history is
//! executed alone in a fresh server. Oracles:
//!  * per-tenant sequential model that knows nothing about the other tenants (point operations must equal it),
//!  * response content (search / query items must be the tenant's own documents, exact public metadata, no reserved key),
//!  * ground truth after every step (canonical documents and their server-owned keys equal the union of the models),
//!  * non-interference: every answer of a tenant in the interleaved world equals its answer in the alone world,
//!  * unauthenticated / unknown / disabled keys: UNAUTHENTICATED and no effect; /usage scoping.

use crate::c11::{self, ref_matches, F};
use crate::common::*;
use crate::hist::{on_fresh_thread, reset_env};
use crate::report::{Summary, Violation};
use crate::rng::Rng;
use crate::rpc::{self, api_key, Body, Cred, Fx, Item, Resp, Rpc, SearchSpec, QR, SR};
use crate::server::vharness::{Harness, ServerCfg, TenantSpec};
use crate::simlibc;
use serde::{Deserialize, Serialize};
use serde_json::json;
use std::collections::{BTreeMap, BTreeSet};

pub const TENANTS: [&str; 4] = ["acme", "bolt", "cira", "dorm"]; // "dorm" is always configured disabled
pub const RESERVED: [&str; 3] = ["__tenant_id__", "__tenant_idx__", "__namespace__"];

#[derive(Clone, Debug, PartialEq, Serialize, Deserialize)]
pub struct Cfg10 {
    pub dim: usize,
    pub metric: u8,
    pub n_tenants: usize,
    pub cache_cap: usize,
    pub qc_cap: usize,
    pub hot_soft: usize,
    pub hot_hard: usize,
    pub persist: bool,
    pub max_vectors: usize,
    /// index capacity shared by all tenants; small values make the index fill up (tombstone compaction, refusals)
    #[serde(default = "default_capacity")]
    pub capacity: usize,
    /// this tenant has a second enabled API key (key rotation); calls with it are written Cred::Tenant(4 + t)
    #[serde(default)]
    pub two_keys: Option<usize>,
    /// the last tenant is added to the key file only at the first restart
    #[serde(default)]
    pub late_tenant: bool,
    /// the late tenant is the one whose name sorts first (so that registration order and name order differ)
    #[serde(default)]
    pub late_first: bool,
}

impl Cfg10 {
    /// index (into TENANTS) of the tenant that is added at the first restart
    pub fn late_idx(&self) -> usize {
        if self.late_first {
            0
        } else {
            self.n_tenants - 1
        }
    }
}
fn default_capacity() -> usize {
    400
}

#[derive(Clone, Debug, PartialEq, Serialize, Deserialize)]
pub enum Step {
    Rpc(Cred, Rpc),
    Usage(Cred, bool),
    Restart,
}

#[derive(Clone, Debug, PartialEq, Serialize, Deserialize)]
pub struct Plan {
    pub cfg: Cfg10,
    pub steps: Vec<Step>,
    pub env_seed: u64,
    /// storage damage to the tenant-index map file found by the n-th restart (0 = none, 1 = cut in half, 2 = emptied,
    /// 3 = first byte overwritten): a server that cannot read the map must not start with a guessed one
    #[serde(default)]
    pub map_damage: Vec<u8>,
}

#[derive(Clone, Debug, Serialize, Deserialize)]
pub struct Replay {
    pub check: String,
    pub plan: Plan,
    pub clause: String,
}

// ------------------------------------------------------------------------------------------------ generation

pub fn vec_alphabet(dim: usize) -> Vec<Vec<f32>> {
    let mut out = Vec::new();
    for i in 0..dim.min(4) {
        let mut v = vec![0.0f32; dim];
        v[i] = 1.0;
        out.push(v);
    }
    let mut v = vec![0.0f32; dim];
    v[0] = 0.6;
    v[1] = 0.8;
    out.push(v);
    let mut v = vec![0.0f32; dim];
    v[0] = 3.0;
    v[dim - 1] = -4.0;
    out.push(v); // un-normalised: exercises normalisation under cosine / inner product
    out
}

fn gen_ns(rng: &mut Rng) -> String {
    rng.pick(&["", "", "blue", "red"]).to_string()
}

fn gen_meta10(rng: &mut Rng, n_tenants: usize, w: u64) -> Meta {
    let mut m = Meta::new();
    m.insert("w".into(), w.to_string());
    if rng.chance(3, 4) {
        m.insert("k".into(), rng.pick(&["5", "a", "10", "05"]).to_string());
    }
    if rng.chance(1, 3) {
        let which = rng.below(3);
        match which {
            0 => {
                m.insert("__tenant_id__".into(), TENANTS[rng.below(n_tenants as u64) as usize].to_string());
            }
            1 => {
                m.insert("__tenant_idx__".into(), rng.below(4).to_string());
            }
            _ => {
                m.insert("__namespace__".into(), rng.pick(&["blue", "red", ""]).to_string());
            }
        }
    }
    m
}

fn gen_id(rng: &mut Rng) -> u64 {
    match rng.below(40) {
        0 => 0,
        1 => u32::MAX as u64,
        2 => u32::MAX as u64 + 1,
        3 => (1u64 << 32) | 1, // looks like "tenant 1, local 1" as a global id
        _ => rng.range(1, 4),
    }
}

fn gen_item(rng: &mut Rng, c: &Cfg10, w: &mut u64) -> Item {
    *w += 1;
    let alpha = vec_alphabet(c.dim);
    let idx = rng.below(alpha.len() as u64) as usize;
    Item { id: gen_id(rng), vec: bits(&alpha[idx]), meta: gen_meta10(rng, c.n_tenants, *w), ns: gen_ns(rng) }
}

pub fn gen_filter10(rng: &mut Rng, n_tenants: usize) -> F {
    let ex = |k: &str, v: &str| F::Exact { key: k.into(), value: v.into() };
    match rng.below(12) {
        0 => F::Not(Some(Box::new(ex("k", "zzz")))),
        1 => F::Or((0..4).map(|i| ex("__tenant_idx__", &i.to_string())).collect()),
        2 => ex("__tenant_id__", TENANTS[rng.below(n_tenants as u64) as usize]),
        3 => F::Not(Some(Box::new(ex("__tenant_idx__", &rng.below(3).to_string())))),
        4 => F::Or(vec![ex("k", "5"), F::Not(Some(Box::new(ex("k", "5"))))]),
        5 => {
            let v: &str = *rng.pick(&["blue", "red", ""]);
            ex("__namespace__", v)
        }
        6 => F::Range { key: "w".into(), bound: Some((0, "0".into())) },
        7 => F::And(vec![]),
        8 => F::NoFilter,
        9 => F::Not(Some(Box::new(F::Or(vec![])))),
        _ => c11::gen_filter(rng, 2),
    }
}

fn gen_search(rng: &mut Rng, c: &Cfg10) -> SearchSpec {
    let alpha = vec_alphabet(c.dim);
    let idx = rng.below(alpha.len() as u64) as usize;
    let filter = if rng.chance(1, 2) { Some(Fx::F(gen_filter10(rng, c.n_tenants))) } else { None };
    let mut legacy = Meta::new();
    if rng.chance(1, 8) {
        legacy.insert("k".into(), "5".into());
    }
    SearchSpec { q: bits(&alpha[idx]), k: *rng.pick(&[1u32, 2, 3, 5, 10]), min_score: 0, ns: gen_ns(rng), emb: rng.chance(1, 3), ef: if rng.chance(1, 5) { 64 } else { 0 }, filter, legacy }
}

pub fn gen_rpc(rng: &mut Rng, c: &Cfg10, w: &mut u64, earlier: &mut Vec<SearchSpec>) -> Rpc {
    // identical queries (also across tenants) provoke query-cache reuse
    if !earlier.is_empty() && rng.chance(1, 6) {
        let s = earlier[rng.below(earlier.len() as u64) as usize].clone();
        return Rpc::Search(s);
    }
    let r = gen_rpc_inner(rng, c, w);
    match &r {
        Rpc::Search(s) => earlier.push(s.clone()),
        Rpc::BulkSearch(ss) => earlier.extend(ss.iter().cloned()),
        _ => {}
    }
    r
}

fn gen_rpc_inner(rng: &mut Rng, c: &Cfg10, w: &mut u64) -> Rpc {
    match rng.below(100) {
        0..=21 => Rpc::Insert(gen_item(rng, c, w)),
        22..=27 => Rpc::BulkInsert((0..rng.range(1, 4)).map(|_| gen_item(rng, c, w)).collect()),
        28..=33 => {
            // bulk load: distinct ids inside one batch (which duplicate wins is not part of this property)
            let mut seen = BTreeSet::new();
            let mut items = Vec::new();
            for _ in 0..rng.range(1, 4) {
                let it = gen_item(rng, c, w);
                if seen.insert(it.id) {
                    items.push(it);
                }
            }
            Rpc::BulkLoad(items)
        }
        34..=41 => Rpc::Delete { id: gen_id(rng), ns: gen_ns(rng) },
        42..=49 => {
            *w += 1;
            Rpc::UpdateMeta { id: gen_id(rng), meta: gen_meta10(rng, c.n_tenants, *w), merge: rng.chance(1, 2), ns: gen_ns(rng) }
        }
        50..=59 => Rpc::Query { id: gen_id(rng), emb: rng.chance(1, 2), ns: gen_ns(rng) },
        60..=65 => Rpc::BulkQuery { ids: (0..rng.range(1, 5)).map(|_| if rng.chance(1, 30) { gen_id(rng) } else { rng.range(1, 5) }).collect(), emb: rng.chance(1, 2), ns: gen_ns(rng) },
        66..=80 => Rpc::Search(gen_search(rng, c)),
        81..=85 => Rpc::BulkSearch((0..rng.range(1, 3)).map(|_| gen_search(rng, c)).collect()),
        86..=90 => Rpc::BatchDeleteIds { ids: (0..rng.range(1, 4)).map(|_| if rng.chance(1, 30) { gen_id(rng) } else { rng.range(1, 5) }).collect(), ns: gen_ns(rng) },
        91..=95 => Rpc::BatchDeleteFilter { f: Fx::F(gen_filter10(rng, c.n_tenants)), ns: gen_ns(rng) },
        _ => Rpc::Flush { force: rng.chance(1, 2) },
    }
}

pub fn gen_plan(seed: u64, run: u64, tier: &str) -> Plan {
    let mut rng = Rng::for_run(seed, "C10", run);
    let persist = rng.chance(1, 4);
    let hot_soft = rng.range(2, 6) as usize;
    let cfg = Cfg10 {
        dim: 4,
        metric: rng.below(3) as u8,
        n_tenants: rng.range(2, 3) as usize,
        cache_cap: *rng.pick(&[1usize, 2, 8]),
        qc_cap: *rng.pick(&[1usize, 4, 32]),
        hot_soft,
        hot_hard: hot_soft + rng.range(1, 4) as usize,
        persist,
        max_vectors: 1000,
        capacity: *rng.pick(&[400usize, 400, 10, 16]),
        two_keys: None,
        late_tenant: false,
        late_first: false,
    };
    let mut cfg = cfg;
    if rng.chance(1, 3) {
        cfg.two_keys = Some(rng.below(cfg.n_tenants as u64) as usize);
    }
    if cfg.persist && rng.chance(1, 2) {
        cfg.late_tenant = true;
        cfg.late_first = rng.chance(1, 2);
    }
    let cfg = cfg;
    let n = if tier == "thorough" { rng.range(10, 60) } else { rng.range(6, 32) } as usize;
    let mut steps = Vec::new();
    let mut w = 0u64;
    let mut earlier: Vec<SearchSpec> = Vec::new();
    for _ in 0..n {
        let roll = rng.below(100);
        if roll < 3 && cfg.persist {
            steps.push(Step::Restart);
            continue;
        }
        if roll < 9 {
            let cred = match rng.below(6) {
                0 => Cred::NoKey,
                1 => Cred::Unknown(api_key("acme", 999)),
                2 => Cred::Tenant(3), // the disabled tenant
                _ => Cred::Tenant(rng.below(cfg.n_tenants as u64) as usize),
            };
            steps.push(Step::Usage(cred, rng.chance(1, 3)));
            continue;
        }
        let cred = match rng.below(40) {
            0 => Cred::NoKey,
            1 => Cred::Unknown(api_key(TENANTS[rng.below(cfg.n_tenants as u64) as usize], 777)),
            2 => Cred::Unknown("not-a-key".into()),
            3 => Cred::Tenant(3),
            4 | 5 => Cred::Bearer(rng.below(cfg.n_tenants as u64) as usize),
            _ => Cred::Tenant(rng.below(cfg.n_tenants as u64) as usize),
        };
        // a quarter of the calls of a tenant with two keys use the second one
        let cred = match (&cred, cfg.two_keys) {
            (Cred::Tenant(t), Some(k)) if *t == k && rng.chance(1, 4) => Cred::Tenant(4 + *t),
            _ => cred,
        };
        steps.push(Step::Rpc(cred, gen_rpc(&mut rng, &cfg, &mut w, &mut earlier)));
    }
    if cfg.late_tenant && !steps.iter().take(steps.len() / 2 + 1).any(|s| matches!(s, Step::Restart)) {
        // the late tenant needs a restart to be added at all: place one in the first half
        let at = rng.below(steps.len() as u64 / 2 + 1) as usize;
        steps.insert(at, Step::Restart);
    }
    if cfg.late_tenant && rng.chance(1, 2) {
        let at = steps.len() / 2 + rng.below(steps.len() as u64 / 2 + 1) as usize;
        steps.insert(at.min(steps.len()), Step::Restart);
    }
    let env_seed = rng.next();
    let restarts = steps.iter().filter(|s| matches!(s, Step::Restart)).count();
    // not at the first restart (a late tenant is registered there): the damage meets a map whose registration
    // order may differ from name order
    let map_damage: Vec<u8> = (0..restarts).map(|r| if r > 0 && rng.chance(1, 2) { 1 + rng.below(3) as u8 } else { 0 }).collect();
    Plan { cfg, steps, env_seed, map_damage }
}

// ------------------------------------------------------------------------------------------------ execution

pub fn server_cfg(c: &Cfg10, data_dir: Option<String>, aux_dir: String, late_enabled: bool) -> (ServerCfg, Vec<String>) {
    let mut tenants = Vec::new();
    let mut keys = Vec::new();
    for (i, t) in TENANTS.iter().enumerate() {
        let late = c.late_tenant && i == c.late_idx();
        let configured = (i < c.n_tenants && (!late || late_enabled)) || i == 3;
        let key = api_key(t, i as u64);
        keys.push(key.clone());
        if configured {
            tenants.push(TenantSpec { id: t.to_string(), key, max_vectors: c.max_vectors, max_qps: 0, is_admin: false, enabled: i != 3 });
        }
    }
    // second keys (index 4 + tenant): configured only for the tenant that rotated its key
    for (i, t) in TENANTS.iter().enumerate() {
        let key = api_key(t, 100 + i as u64);
        keys.push(key.clone());
        let late = c.late_tenant && i == c.late_idx();
        if c.two_keys == Some(i) && i < c.n_tenants && (!late || late_enabled) {
            tenants.push(TenantSpec { id: t.to_string(), key, max_vectors: c.max_vectors, max_qps: 0, is_admin: false, enabled: true });
        }
    }
    (
        ServerCfg {
            dim: c.dim,
            metric: c.metric,
            tenants,
            auth: true,
            rate_limit: false,
            data_dir,
            aux_dir,
            cache_cap: c.cache_cap,
            qc_cap: c.qc_cap,
            qc_threshold: 0.99,
            hot_soft: c.hot_soft,
            hot_hard: c.hot_hard,
            capacity: c.capacity,
            snapshot_interval: 7,
            max_wal: 1 << 20,
            global_qps: None,
        },
        keys,
    )
}

#[derive(Clone, Debug, PartialEq, Serialize)]
pub enum Obs {
    Resp(Resp),
    Usage(u16, serde_json::Value),
    Restarted(Result<(), String>),
    Skipped,
}

/// Canonical state of the whole server: global id -> full metadata.
pub type Truth = Vec<(u64, Meta)>;

pub struct World {
    pub obs: Vec<Obs>,
    /// ground truth after each executed step (interleaved world only)
    pub truth: Vec<Option<Truth>>,
    pub tenant_index: Vec<Option<u32>>,
    pub quota: Vec<Vec<Option<usize>>>,
    pub map_damage_tried: u64,
    pub map_damage_accepted: u64,
}

/// which tenant a credential names (second keys are written 4 + tenant)
fn cred_tenant(c: &Cred) -> Option<usize> {
    match c {
        Cred::Tenant(t) | Cred::Bearer(t) if *t < 8 => Some(*t % 4),
        _ => None,
    }
}

/// the tenant a credential authenticates as under this configuration, if it is a valid enabled key at that moment
fn valid_tenant(c: &Cfg10, cred: &Cred, late_enabled: bool) -> Option<usize> {
    let raw = match cred {
        Cred::Tenant(t) | Cred::Bearer(t) => *t,
        _ => return None,
    };
    let t = raw % 4;
    if raw >= 8 || t >= c.n_tenants {
        return None;
    }
    if raw >= 4 && c.two_keys != Some(t) {
        return None;
    }
    if c.late_tenant && t == c.late_idx() && !late_enabled {
        return None;
    }
    Some(t)
}

/// has the first restart (which adds the late tenant to the key file) happened before step `i`?
fn late_enabled_before(plan: &Plan, i: usize) -> bool {
    plan.steps.iter().take(i).any(|s| matches!(s, Step::Restart))
}

/// Runs on the calling thread (must be a fresh thread after reset_env).
pub fn run_world(plan: &Plan, only: Option<usize>, tag: u64, want_truth: bool) -> World {
    let dir = fresh_dir("c10", tag);
    let data = format!("{}/data", dir);
    let aux = format!("{}/aux", dir);
    let _ = std::fs::create_dir_all(&data);
    let _ = std::fs::create_dir_all(&aux);
    let mut late_enabled = false;
    let mut restart_no = 0usize;
    let (mut scfg, keys) = server_cfg(&plan.cfg, if plan.cfg.persist { Some(data.clone()) } else { None }, aux.clone(), late_enabled);
    let rt = rpc::paused_runtime();
    let mut w = World { obs: Vec::new(), truth: Vec::new(), tenant_index: vec![], quota: vec![], map_damage_tried: 0, map_damage_accepted: 0 };
    let mut h = match Harness::start(&scfg) {
        Ok(h) => Some(h),
        Err(e) => {
            w.obs.push(Obs::Restarted(Err(format!("start failed: {}", e))));
            None
        }
    };
    let index_of = |h: &Harness, late_enabled: bool| -> Vec<Option<u32>> {
        TENANTS
            .iter()
            .enumerate()
            .map(|(i, t)| {
                let late = plan.cfg.late_tenant && i == plan.cfg.late_idx();
                if i < plan.cfg.n_tenants && (!late || late_enabled) {
                    h.tenant_index(t)
                } else {
                    None
                }
            })
            .collect()
    };
    if let Some(h) = &h {
        w.tenant_index = index_of(h, late_enabled);
    }
    for st in &plan.steps {
        let Some(hh) = h.as_ref() else {
            w.obs.push(Obs::Skipped);
            w.truth.push(None);
            continue;
        };
        let o = match st {
            Step::Rpc(cred, r) => {
                if only.is_some() && cred_tenant(cred) != only {
                    Obs::Skipped
                } else {
                    Obs::Resp(rpc::call(&rt, hh, &keys, cred, r))
                }
            }
            Step::Usage(cred, all) => {
                if only.is_some() && cred_tenant(cred) != only {
                    Obs::Skipped
                } else {
                    let key: Option<String> = match cred {
                        Cred::Tenant(t) | Cred::Bearer(t) => keys.get(*t).cloned(),
                        Cred::NoKey => None,
                        Cred::Unknown(k) => Some(k.clone()),
                    };
                    let (status, body) = rt.block_on(async { hh.usage_http(key.as_deref(), *all).await });
                    let mut v: serde_json::Value = serde_json::from_str(&body).unwrap_or(serde_json::Value::String(body));
                    if let Some(o) = v.as_object_mut() {
                        o.remove("generated_at");
                    }
                    Obs::Usage(status, v)
                }
            }
            Step::Restart => {
                h = None; // shut the old server down first
                if plan.cfg.late_tenant && !late_enabled {
                    late_enabled = true;
                    scfg = server_cfg(&plan.cfg, if plan.cfg.persist { Some(data.clone()) } else { None }, aux.clone(), true).0;
                }
                let kind = plan.map_damage.get(restart_no).copied().unwrap_or(0);
                restart_no += 1;
                if kind != 0 {
                    // the restart finds a damaged tenant-index map: a start that fails is the expected answer (the file
                    // is then put back and the server started again); a start that succeeds is judged by everything
                    // that follows
                    let map_path = format!("{}/tenant_map.json", aux);
                    if let Ok(orig) = std::fs::read(&map_path) {
                        let damaged: Vec<u8> = match kind {
                            1 => orig[..orig.len() / 2].to_vec(),
                            2 => Vec::new(),
                            _ => {
                                let mut d = orig.clone();
                                if let Some(b) = d.first_mut() {
                                    *b = b'#';
                                }
                                d
                            }
                        };
                        let _ = std::fs::write(&map_path, &damaged);
                        w.map_damage_tried += 1;
                        match Harness::start(&scfg) {
                            Ok(n) => {
                                w.map_damage_accepted += 1;
                                w.tenant_index = index_of(&n, late_enabled);
                                h = Some(n);
                            }
                            Err(_) => {
                                let _ = std::fs::write(&map_path, &orig);
                            }
                        }
                    }
                }
                if h.is_some() {
                    Obs::Restarted(Ok(()))
                } else {
                    match Harness::start(&scfg) {
                        Ok(n) => {
                            w.tenant_index = index_of(&n, late_enabled);
                            h = Some(n);
                            Obs::Restarted(Ok(()))
                        }
                        Err(e) => Obs::Restarted(Err(e.to_string())),
                    }
                }
            }
        };
        w.obs.push(o);
        if want_truth {
            if let Some(hh) = h.as_ref() {
                w.truth.push(Some(hh.all_docs().into_iter().map(|(id, m)| (id, to_btree(&m))).collect()));
                w.quota.push(TENANTS.iter().map(|t| hh.quota_count(t)).collect());
            } else {
                w.truth.push(None);
                w.quota.push(vec![]);
            }
        } else {
            w.truth.push(None);
        }
    }
    drop(h);
    drop(rt);
    remove_dir(&dir);
    w
}

// ------------------------------------------------------------------------------------------------ model

#[derive(Clone, Debug, PartialEq)]
pub struct TDoc {
    pub vec: Vec<u32>,
    pub meta: Meta,
    pub ns: String,
}
pub type TModel = BTreeMap<u64, TDoc>;

pub fn public(m: &Meta) -> Meta {
    m.iter().filter(|(k, _)| !RESERVED.contains(&k.as_str())).map(|(k, v)| (k.clone(), v.clone())).collect()
}

pub fn full_meta(tenant: usize, idx: u32, d: &TDoc) -> Meta {
    let mut m = d.meta.clone();
    m.insert("__tenant_id__".into(), TENANTS[tenant].to_string());
    m.insert("__tenant_idx__".into(), idx.to_string());
    if !d.ns.is_empty() {
        m.insert("__namespace__".into(), d.ns.clone());
    }
    m
}

fn id_valid(id: u64) -> bool {
    id >= 1 && id <= u32::MAX as u64
}
fn ns_ok(sel: &str, d: &TDoc) -> bool {
    sel.is_empty() || d.ns == sel
}

pub struct Problem {
    pub clause: String,
    pub msg: String,
    pub facts: BTreeMap<String, String>,
    pub step: usize,
}

fn prob(clause: &str, step: usize, msg: String, facts: &[(&str, &str)]) -> Problem {
    Problem { clause: clause.into(), msg, facts: facts.iter().map(|(a, b)| (a.to_string(), b.to_string())).collect(), step }
}

fn vec_matches(metric: u8, input: &[u32], served: &[u32]) -> bool {
    pin_vector(metric, input, &unbits(served)).is_ok()
}

fn spec_filter_matches(s: &SearchSpec, full: &Meta) -> bool {
    if let Some(Fx::F(f)) = &s.filter {
        if !ref_matches(f, full) {
            return false;
        }
    }
    s.legacy.iter().all(|(k, v)| full.get(k) == Some(v))
}

/// Judge one QueryResponse-shaped item against the tenant's model.
fn judge_qr(metric: u8, m: &TModel, q: &QR, id: u64, emb: bool, ns: &str) -> Option<(&'static str, String)> {
    let exp = m.get(&id).filter(|d| ns_ok(ns, d));
    if q.id != id {
        return Some(("doc_id", format!("answer carries doc_id {} for request id {}", q.id, id)));
    }
    for k in RESERVED {
        if q.meta.contains_key(k) {
            return Some(("reserved_key_visible", format!("metadata of doc {} exposes {}={:?}", id, k, q.meta.get(k))));
        }
    }
    match exp {
        None => {
            if q.found || !q.meta.is_empty() || !q.emb.is_empty() {
                return Some(("found", format!("doc {} (namespace selector {:?}) is not one of the tenant's documents but the answer is found={} metadata={:?} embedding_len={}", id, ns, q.found, q.meta, q.emb.len())));
            }
        }
        Some(d) => {
            if !q.found {
                return Some(("found", format!("the tenant's own doc {} (namespace {:?}, selector {:?}) is reported not found", id, d.ns, ns)));
            }
            if q.meta != d.meta {
                return Some(("metadata", format!("doc {}: metadata {:?}, the tenant wrote {:?}", id, q.meta, d.meta)));
            }
            if emb {
                if !vec_matches(metric, &d.vec, &q.emb) {
                    return Some(("embedding", format!("doc {}: embedding {:?} is not the tenant's vector {:?}", id, unbits(&q.emb), unbits(&d.vec))));
                }
            } else if !q.emb.is_empty() {
                return Some(("embedding", format!("doc {}: embedding returned although not requested", id)));
            }
        }
    }
    None
}

fn judge_sr(metric: u8, tenant: usize, idx: u32, m: &TModel, s: &SearchSpec, r: &SR) -> Option<(&'static str, String)> {
    let own: BTreeSet<u64> = m.iter().filter(|(_, d)| ns_ok(&s.ns, d) && spec_filter_matches(s, &full_meta(tenant, idx, d))).map(|(id, _)| *id).collect();
    if r.results.len() > s.k as usize {
        return Some(("more_than_k", format!("{} results for k={}", r.results.len(), s.k)));
    }
    let mut seen = BTreeSet::new();
    for it in &r.results {
        for k in RESERVED {
            if it.meta.contains_key(k) {
                return Some(("reserved_key_visible", format!("result {} exposes {}={:?}", it.id, k, it.meta.get(k))));
            }
        }
        if !seen.insert(it.id) {
            return Some(("duplicate_result", format!("doc {} returned twice", it.id)));
        }
        let Some(d) = m.get(&it.id) else {
            return Some(("foreign_or_absent_id", format!("result doc {} is not a live document of tenant {} (its documents: {:?})", it.id, TENANTS[tenant], m.keys().collect::<Vec<_>>())));
        };
        if !own.contains(&it.id) {
            return Some(("selector_mismatch", format!("result doc {} (namespace {:?}, metadata {:?}) does not satisfy namespace selector {:?} / filter {:?}", it.id, d.ns, d.meta, s.ns, s.filter)));
        }
        if it.meta != d.meta {
            return Some(("metadata", format!("result doc {}: metadata {:?}, the tenant wrote {:?}", it.id, it.meta, d.meta)));
        }
        if s.emb {
            if !vec_matches(metric, &d.vec, &it.emb) {
                return Some(("embedding", format!("result doc {}: embedding {:?} is not the tenant's vector {:?}", it.id, unbits(&it.emb), unbits(&d.vec))));
            }
        } else if !it.emb.is_empty() {
            return Some(("embedding", format!("result doc {}: embedding returned although not requested", it.id)));
        }
    }
    if (r.total_found as usize) < r.results.len() || r.total_found as usize > own.len() {
        return Some(("total_found", format!("total_found={} with {} results; the tenant has {} matching documents", r.total_found, r.results.len(), own.len())));
    }
    None
}

fn apply_item(m: &mut TModel, it: &Item) {
    m.insert(it.id, TDoc { vec: it.vec.clone(), meta: public(&it.meta), ns: it.ns.clone() });
}

/// Judge the interleaved world against per-tenant models + ground truth. Stops at the first problem.
pub fn judge(plan: &Plan, w: &World, snaps: &mut BTreeMap<usize, TModel>) -> Option<Problem> {
    let mut refusals = 0u64;
    let r = judge_inner2(plan, w, snaps, &mut refusals);
    if refusals > 0 {
        snaps.insert(usize::MAX, TModel::new()); // marker: the shared index refused writes for lack of room
    }
    r
}

fn judge_inner2(plan: &Plan, w: &World, snaps: &mut BTreeMap<usize, TModel>, capacity_refusals: &mut u64) -> Option<Problem> {
    let c = &plan.cfg;
    let mut models: Vec<TModel> = vec![TModel::new(); c.n_tenants];
    let idx_of = |t: usize| w.tenant_index.get(t).cloned().flatten();
    for (i, st) in plan.steps.iter().enumerate() {
        let Some(o) = w.obs.get(i) else { break };
        match (st, o) {
            (Step::Restart, Obs::Restarted(Err(e))) => return Some(prob("restart_failed", i, format!("server did not restart: {}", e), &[])),
            (Step::Restart, _) => {}
            (Step::Usage(cred, all), Obs::Usage(status, body)) => {
                let t = valid_tenant(c, cred, late_enabled_before(plan, i));
                match t {
                    None => {
                        if *status != 401 {
                            return Some(prob("usage_scope", i, format!("/usage without a valid enabled key answered HTTP {} {}", status, body), &[("what", "served_without_valid_key")]));
                        }
                    }
                    Some(t) => {
                        if *all {
                            if *status != 403 {
                                return Some(prob("usage_scope", i, format!("/usage?scope=all by non-admin tenant {} answered HTTP {} {}", TENANTS[t], status, body), &[("what", "scope_all_served_to_non_admin")]));
                            }
                        } else {
                            if *status != 200 {
                                return Some(prob("usage_scope", i, format!("/usage by tenant {} answered HTTP {}", TENANTS[t], status), &[("what", "own_usage_refused")]));
                            }
                            let text = body.to_string();
                            for (o, name) in TENANTS.iter().enumerate() {
                                if o != t && text.contains(name) {
                                    return Some(prob("usage_scope", i, format!("/usage by tenant {} mentions tenant {}: {}", TENANTS[t], name, text), &[("what", "foreign_tenant_in_report")]));
                                }
                            }
                        }
                    }
                }
            }
            (Step::Rpc(cred, r), Obs::Resp(resp)) => {
                let t = valid_tenant(c, cred, late_enabled_before(plan, i));
                let Some(t) = t else {
                    // UNAUTHENTICATED (or PERMISSION_DENIED for a disabled tenant), never a response message
                    if !(resp.code == 16 || resp.code == 7) || resp.body != Body::None {
                        return Some(prob("unauthenticated_call_served", i, format!("{} with credentials {:?} answered code={} message={:?} body={:?}", r.kind(), cred, resp.code, resp.message, resp.body), &[("rpc", r.kind())]));
                    }
                    if let Some(p) = truth_check(plan, w, &models, i) {
                        return Some(p);
                    }
                    continue;
                };
                let Some(idx) = idx_of(t) else { return Some(prob("harness", i, "no tenant index".into(), &[])) };
                if matches!(r, Rpc::Search(_) | Rpc::BulkSearch(_)) {
                    snaps.insert(i, models[t].clone());
                }
                let m = &mut models[t];
                let mism = |field: &str, msg: String| Some(prob("answer_differs_from_tenant_own_history", i, format!("tenant {} {}: {}", TENANTS[t], r.kind(), msg), &[("rpc", r.kind()), ("field", field)]));
                match r {
                    Rpc::Insert(it) => {
                        if !id_valid(it.id) {
                            if resp.code == 0 {
                                return mism("status", format!("id {} must be refused, got code {} {:?}", it.id, resp.code, resp.message));
                            }
                        } else if c.capacity < 400 && (resp.code == 13 || resp.code == 8) {
                            // the shared index is full: a refusal for lack of room is legitimate and must have no effect
                            // (the ground-truth check below verifies that)
                            *capacity_refusals += 1;
                        } else {
                            match &resp.body {
                                Body::Insert { success: true, inserted: 1, failed: 0, .. } if resp.code == 0 => apply_item(m, it),
                                _ => return mism("status", format!("valid insert of id {} answered code {} {:?} {:?}", it.id, resp.code, resp.message, resp.body)),
                            }
                        }
                    }
                    Rpc::BulkInsert(items) | Rpc::BulkLoad(items) if c.capacity < 400 => {
                        // items may be refused for lack of room: which ones took effect is read off the canonical state
                        // (the per-write key "w" identifies the item), the counts only have to be consistent
                        let valid = items.iter().filter(|it| id_valid(it.id)).count() as u64;
                        let (ok_n, fail_n) = match &resp.body {
                            Body::Insert { inserted, failed, .. } if resp.code == 0 => (*inserted, *failed),
                            Body::BulkLoad { loaded, failed, .. } if resp.code == 0 => (*loaded, *failed),
                            _ => return mism("status", format!("{} items answered code {} {:?} {:?}", items.len(), resp.code, resp.message, resp.body)),
                        };
                        if ok_n > valid || ok_n + fail_n != items.len() as u64 {
                            return mism("counts", format!("{} items ({} valid): answer reports {} accepted, {} failed", items.len(), valid, ok_n, fail_n));
                        }
                        if ok_n < valid {
                            *capacity_refusals += 1;
                        }
                        if let Some(Some(truth)) = w.truth.get(i) {
                            let tr: BTreeMap<u64, &Meta> = truth.iter().map(|(g, mm)| (*g, mm)).collect();
                            for it in items.iter().filter(|it| id_valid(it.id)) {
                                let cand = TDoc { vec: it.vec.clone(), meta: public(&it.meta), ns: it.ns.clone() };
                                if tr.get(&(((idx as u64) << 32) | it.id)).map(|mm| **mm == full_meta(t, idx, &cand)).unwrap_or(false) {
                                    m.insert(it.id, cand);
                                }
                            }
                        }
                    }
                    Rpc::BulkInsert(items) => {
                        let valid = items.iter().filter(|it| id_valid(it.id)).count() as u64;
                        match &resp.body {
                            Body::Insert { inserted, failed, .. } if resp.code == 0 && *inserted == valid && *failed == items.len() as u64 - valid => {
                                for it in items.iter().filter(|it| id_valid(it.id)) {
                                    apply_item(m, it);
                                }
                            }
                            _ => return mism("counts", format!("{} items ({} valid) answered code {} {:?} {:?}", items.len(), valid, resp.code, resp.message, resp.body)),
                        }
                    }
                    Rpc::BulkLoad(items) => {
                        let valid = items.iter().filter(|it| id_valid(it.id)).count() as u64;
                        match &resp.body {
                            Body::BulkLoad { loaded, failed, .. } if resp.code == 0 && *loaded == valid && *failed == items.len() as u64 - valid => {
                                for it in items.iter().filter(|it| id_valid(it.id)) {
                                    apply_item(m, it);
                                }
                            }
                            _ => return mism("counts", format!("{} items ({} valid) answered code {} {:?} {:?}", items.len(), valid, resp.code, resp.message, resp.body)),
                        }
                    }
                    Rpc::Delete { id, ns } => {
                        if !id_valid(*id) {
                            if resp.code == 0 {
                                return mism("status", format!("id {} must be refused, got code {}", id, resp.code));
                            }
                        } else {
                            let exp = m.get(id).map(|d| ns_ok(ns, d)).unwrap_or(false);
                            match &resp.body {
                                Body::Delete { existed, .. } if resp.code == 0 && *existed == exp => {
                                    if exp {
                                        m.remove(id);
                                    }
                                }
                                _ => return mism("existed", format!("delete of id {} (selector {:?}): by the tenant's own history existed={}, answer code {} {:?}", id, ns, exp, resp.code, resp.body)),
                            }
                        }
                    }
                    Rpc::UpdateMeta { id, meta, merge, ns } => {
                        if *id == 0 || *id > u32::MAX as u64 {
                            if resp.code == 0 {
                                return mism("status", format!("id {} must be refused, got code {}", id, resp.code));
                            }
                        } else {
                            let exp = m.get(id).map(|d| ns_ok(ns, d)).unwrap_or(false);
                            match &resp.body {
                                Body::Update { existed, .. } if resp.code == 0 && *existed == exp => {
                                    if exp {
                                        let d = m.get_mut(id).unwrap();
                                        let newm = public(meta);
                                        if *merge {
                                            for (k, v) in newm {
                                                d.meta.insert(k, v);
                                            }
                                        } else {
                                            d.meta = newm;
                                        }
                                    }
                                }
                                _ => return mism("existed", format!("update of id {} (selector {:?}): by the tenant's own history existed={}, answer code {} {:?}", id, ns, exp, resp.code, resp.body)),
                            }
                        }
                    }
                    Rpc::Query { id, emb, ns } => {
                        if *id == 0 || *id > u32::MAX as u64 {
                            if resp.code == 0 {
                                return mism("status", format!("id {} must be refused, got code {}", id, resp.code));
                            }
                        } else {
                            match &resp.body {
                                Body::Query(q) if resp.code == 0 => {
                                    if let Some((field, msg)) = judge_qr(c.metric, m, q, *id, *emb, ns) {
                                        return mism(field, msg);
                                    }
                                }
                                _ => return mism("status", format!("query of id {} answered code {} {:?}", id, resp.code, resp.body)),
                            }
                        }
                    }
                    Rpc::BulkQuery { ids, emb, ns } => {
                        if ids.iter().any(|id| *id > u32::MAX as u64) {
                            if resp.code == 0 {
                                return mism("status", format!("out-of-range id must be refused, got code {}", resp.code));
                            }
                        } else {
                            match &resp.body {
                                Body::BulkQuery { results, total_found, total_requested, .. } if resp.code == 0 && results.len() == ids.len() => {
                                    let mut found = 0u32;
                                    for (q, id) in results.iter().zip(ids.iter()) {
                                        if let Some((field, msg)) = judge_qr(c.metric, m, q, *id, *emb, ns) {
                                            return mism(field, msg);
                                        }
                                        if q.found {
                                            found += 1;
                                        }
                                    }
                                    if *total_found != found || *total_requested as usize != ids.len() {
                                        return mism("total_found", format!("total_found={} total_requested={} for {} ids of which {} found", total_found, total_requested, ids.len(), found));
                                    }
                                }
                                _ => return mism("status", format!("bulk query of {:?} answered code {} {:?}", ids, resp.code, resp.body)),
                            }
                        }
                    }
                    Rpc::Search(s) => match &resp.body {
                        Body::Search(v) if resp.code == 0 && v.len() == 1 => {
                            if let Some((what, msg)) = judge_sr(c.metric, t, idx, m, s, &v[0]) {
                                return Some(prob("answer_contains_foreign_or_reserved_data", i, format!("tenant {} Search: {}", TENANTS[t], msg), &[("rpc", "Search"), ("what", what)]));
                            }
                        }
                        _ => return mism("status", format!("valid search answered code {} {:?} {:?}", resp.code, resp.message, resp.body)),
                    },
                    Rpc::BulkSearch(ss) => match &resp.body {
                        Body::Search(v) if resp.code == 0 && v.len() == ss.len() => {
                            for (s, r1) in ss.iter().zip(v.iter()) {
                                if let Some((what, msg)) = judge_sr(c.metric, t, idx, m, s, r1) {
                                    return Some(prob("answer_contains_foreign_or_reserved_data", i, format!("tenant {} BulkSearch: {}", TENANTS[t], msg), &[("rpc", "BulkSearch"), ("what", what)]));
                                }
                            }
                        }
                        _ => return mism("status", format!("bulk search of {} valid queries answered code {} {:?} with {:?}", ss.len(), resp.code, resp.message, resp.body)),
                    },
                    Rpc::BatchDeleteIds { ids, ns } => {
                        if ids.iter().any(|id| *id > u32::MAX as u64) {
                            if resp.code == 0 {
                                return mism("status", format!("out-of-range id must be refused, got code {}", resp.code));
                            }
                        } else {
                            let victims: BTreeSet<u64> = ids.iter().filter(|id| m.get(id).map(|d| ns_ok(ns, d)).unwrap_or(false)).cloned().collect();
                            match &resp.body {
                                Body::BatchDelete { deleted, .. } if resp.code == 0 && *deleted == victims.len() as u64 => {
                                    for v in victims {
                                        m.remove(&v);
                                    }
                                }
                                _ => return mism("deleted_count", format!("batch delete of ids {:?} (selector {:?}): the tenant owns {:?} of them, answer code {} {:?}", ids, ns, victims, resp.code, resp.body)),
                            }
                        }
                    }
                    Rpc::BatchDeleteFilter { f, ns } => {
                        let Fx::F(f) = f else { continue };
                        let victims: BTreeSet<u64> = m.iter().filter(|(_, d)| ns_ok(ns, d) && ref_matches(f, &full_meta(t, idx, d))).map(|(id, _)| *id).collect();
                        match &resp.body {
                            Body::BatchDelete { deleted, .. } if resp.code == 0 && *deleted == victims.len() as u64 => {
                                for v in victims {
                                    m.remove(&v);
                                }
                            }
                            _ => return mism("deleted_count", format!("batch delete by filter {:?} (selector {:?}): {} of the tenant's documents match ({:?}), answer code {} {:?}", f, ns, victims.len(), victims, resp.code, resp.body)),
                        }
                    }
                    Rpc::BatchDeleteNone { .. } => {
                        if resp.code == 0 {
                            return mism("status", format!("batch delete without criteria answered code {}", resp.code));
                        }
                    }
                    Rpc::Flush { .. } => {
                        if resp.code != 0 {
                            return mism("status", format!("flush answered code {} {:?}", resp.code, resp.message));
                        }
                    }
                    Rpc::RawBytes { .. } => {}
                }
                if let Some(p) = truth_check(plan, w, &models, i) {
                    return Some(p);
                }
            }
            _ => {}
        }
    }
    None
}

/// Canonical documents after step `i` must be exactly the union of the tenants' models, with server-owned keys
/// carrying the owner's identity and the namespace the owner chose at insert time.
fn truth_check(plan: &Plan, w: &World, models: &[TModel], i: usize) -> Option<Problem> {
    let truth = w.truth.get(i)?.as_ref()?;
    let mut expected: BTreeMap<u64, Meta> = BTreeMap::new();
    for (t, m) in models.iter().enumerate() {
        let Some(idx) = w.tenant_index.get(t).cloned().flatten() else { continue };
        for (id, d) in m {
            expected.insert(((idx as u64) << 32) | id, full_meta(t, idx, d));
        }
    }
    let got: BTreeMap<u64, Meta> = truth.iter().cloned().collect();
    let rpc_kind = match &plan.steps[i] {
        Step::Rpc(_, r) => r.kind(),
        _ => "-",
    };
    for (gid, gm) in &got {
        match expected.get(gid) {
            None => {
                return Some(prob("canonical_state_differs_from_tenant_histories", i, format!("after step {} ({}) canonical doc {:#x} (metadata {:?}) exists but no tenant's own history accounts for it", i, rpc_kind, gid, gm), &[("what", "unaccounted_document"), ("rpc", rpc_kind)]));
            }
            Some(em) => {
                if em != gm {
                    let what = if RESERVED.iter().any(|k| em.get(*k) != gm.get(*k)) { "server_owned_key_value" } else { "public_metadata" };
                    return Some(prob("canonical_state_differs_from_tenant_histories", i, format!("after step {} ({}) canonical doc {:#x} has metadata {:?}; by its owner's history it must be {:?}", i, rpc_kind, gid, gm, em), &[("what", what), ("rpc", rpc_kind)]));
                }
            }
        }
    }
    for (eid, em) in &expected {
        if !got.contains_key(eid) {
            return Some(prob("canonical_state_differs_from_tenant_histories", i, format!("after step {} ({}) doc {:#x} ({:?}) of its owner's history is gone", i, rpc_kind, eid, em), &[("what", "document_lost"), ("rpc", rpc_kind)]));
        }
    }
    // quota side: counted == live per tenant (exactness is C14's; here only that one tenant's ops never move another's count)
    None
}


fn ref_dist(metric: u8, q: &[f32], x: &[f32]) -> f64 {
    let dot: f64 = q.iter().zip(x.iter()).map(|(a, b)| *a as f64 * *b as f64).sum();
    let nq: f64 = q.iter().map(|a| (*a as f64).powi(2)).sum::<f64>().sqrt();
    let nx: f64 = x.iter().map(|a| (*a as f64).powi(2)).sum::<f64>().sqrt();
    match metric {
        1 => q.iter().zip(x.iter()).map(|(a, b)| (*a as f64 - *b as f64).powi(2)).sum(),
        _ => 1.0 - dot / (nq * nx).max(1e-30),
    }
}

/// Could a search engine that sees ONLY this tenant's documents have produced this answer? Candidates are the
/// `search_k` nearest own documents (ties at the cut resolved arbitrarily), then the namespace / filter selection,
/// then the first k. Only the counts are judged (which of several equally distant documents is served is free).
pub fn acceptable_own_only(metric: u8, tenant: usize, idx: u32, m: &TModel, s: &SearchSpec, r: &SR) -> bool {
    let req = kyrodb_engine::api_validation::normalize_search_request(rpc::search_msg(s));
    let Ok(plan) = kyrodb_engine::api_validation::validate_search_request(&req) else { return true };
    let q = unbits(&s.q);
    let mut docs: Vec<(f64, bool)> = m
        .values()
        .map(|d| (ref_dist(metric, &q, &unbits(&d.vec)), ns_ok(&s.ns, d) && spec_filter_matches(s, &full_meta(tenant, idx, d))))
        .collect();
    docs.sort_by(|a, b| a.0.partial_cmp(&b.0).unwrap_or(std::cmp::Ordering::Equal));
    let tol = 1e-4;
    let (lo, hi) = if docs.len() <= plan.search_k {
        let n = docs.iter().filter(|d| d.1).count();
        (n, n)
    } else {
        let cut = docs[plan.search_k - 1].0;
        let def_in: Vec<&(f64, bool)> = docs.iter().filter(|d| d.0 < cut - tol).collect();
        let tied: Vec<&(f64, bool)> = docs.iter().filter(|d| (d.0 - cut).abs() <= tol).collect();
        let slots = plan.search_k.saturating_sub(def_in.len());
        let m_def = def_in.iter().filter(|d| d.1).count();
        let m_opt = tied.iter().filter(|d| d.1).count();
        let j_min = slots.saturating_sub(tied.len() - m_opt);
        let j_max = slots.min(m_opt);
        (m_def + j_min, m_def + j_max)
    };
    let tf = r.total_found as usize;
    tf >= lo && tf <= hi && r.results.len() == tf.min(s.k as usize)
}

fn search_ids(b: &Body) -> Vec<(Vec<u64>, u32)> {
    match b {
        // ids as a sorted set: the order among equal scores is arbitrary
        Body::Search(v) => v
            .iter()
            .map(|r| {
                let mut ids: Vec<u64> = r.results.iter().map(|x| x.id).collect();
                ids.sort_unstable();
                (ids, r.total_found)
            })
            .collect(),
        _ => vec![],
    }
}

/// (sorted scores, total_found) per response: equal signatures with different ids are a tie-break among
/// equally distant documents of the tenant itself, which carries no information about anybody else.
fn search_scores(b: &Body) -> Vec<(Vec<u32>, u32)> {
    match b {
        Body::Search(v) => v
            .iter()
            .map(|r| {
                let mut sc: Vec<u32> = r.results.iter().map(|x| x.score).collect();
                sc.sort_unstable();
                (sc, r.total_found)
            })
            .collect(),
        _ => vec![],
    }
}

/// Non-interference: tenant t's answers in the interleaved world vs alone.
pub fn compare_alone(plan: &Plan, inter: &World, alone: &World, t: usize, snaps: &BTreeMap<usize, TModel>, probes: &mut BTreeMap<String, u64>) -> Vec<Problem> {
    let mut out: Vec<Problem> = Vec::new();
    for (i, st) in plan.steps.iter().enumerate() {
        let (Some(a), Some(b)) = (inter.obs.get(i), alone.obs.get(i)) else { break };
        if matches!(b, Obs::Skipped) || a == b {
            continue;
        }
        match (st, a, b) {
            (Step::Rpc(_, r), Obs::Resp(ra), Obs::Resp(rb)) => {
                let kind = r.kind();
                if matches!(r, Rpc::Search(_) | Rpc::BulkSearch(_)) && ra.code == rb.code {
                    let (sa, sb) = (search_ids(&ra.body), search_ids(&rb.body));
                    if sa == sb || search_scores(&ra.body) == search_scores(&rb.body) {
                        // same ids and counts (scores / embeddings / metadata are judged by the content clause), or a
                        // different pick among the tenant's own equally distant documents
                        continue;
                    }
                    // Equally distant own documents at the candidate cut make the answer legitimately variable (which of
                    // them the index returns depends on its random level assignment). Judge against the own-only
                    // reference: flag only an interleaved answer that no own-only engine could give, while the alone
                    // answer is one it could give (which also shows the reference fits this state).
                    let own_idx0 = inter.tenant_index.get(t).cloned().flatten().unwrap_or(u32::MAX);
                    let specs: Vec<&SearchSpec> = match r {
                        Rpc::Search(s) => vec![s],
                        Rpc::BulkSearch(ss) => ss.iter().collect(),
                        _ => vec![],
                    };
                    let (Body::Search(va), Body::Search(vb)) = (&ra.body, &rb.body) else { continue };
                    let Some(m) = snaps.get(&i) else { continue };
                    let mut flagged = false;
                    if va.len() != vb.len() || va.len() != specs.len() {
                        flagged = true;
                    } else {
                        for ((s, x), y) in specs.iter().zip(va.iter()).zip(vb.iter()) {
                            let ok_inter = acceptable_own_only(plan.cfg.metric, t, own_idx0, m, s, x);
                            let ok_alone = acceptable_own_only(plan.cfg.metric, t, own_idx0, m, s, y);
                            if !ok_alone {
                                *probes.entry("alone_answer_outside_own_only_reference".into()).or_insert(0) += 1;
                            }
                            if !ok_inter && ok_alone {
                                flagged = true;
                            }
                        }
                    }
                    if !flagged {
                        *probes.entry("search_differs_within_tie_freedom".into()).or_insert(0) += 1;
                        continue;
                    }
                    // the candidates of a search are selected over the shared index before the tenant filter: whether
                    // documents of other tenants are live at this point is the diagnosis recorded in the fingerprint
                    let own_idx = inter.tenant_index.get(t).cloned().flatten().unwrap_or(u32::MAX);
                    let foreign_in = |j: usize| inter.truth.get(j).and_then(|x| x.as_ref()).map(|tr| tr.iter().any(|(gid, _)| (gid >> 32) as u32 != own_idx)).unwrap_or(false);
                    let foreign_live = foreign_in(i);
                    // deleted documents stay in the shared graph as tombstones until compaction and still take candidate slots
                    let foreign_earlier = (0..i).any(foreign_in);
                    push_new(&mut out, prob(
                        "answer_depends_on_other_tenants",
                        i,
                        format!("tenant {} {} step {}: with the other tenants' traffic interleaved the answer is (ids, total_found) {:?}; the same history alone gives {:?}", TENANTS[t], kind, i, sa, sb),
                        &[("rpc", kind), ("field", "result_ids_or_total_found"), ("other_tenants_documents", if foreign_live { "live" } else if foreign_earlier { "deleted_earlier" } else { "never_present" })],
                    ));
                    continue;
                }
                if let (Body::Flush { flushed: fa, .. }, Body::Flush { flushed: fb, .. }) = (&ra.body, &rb.body) {
                    if ra.code == rb.code {
                        push_new(&mut out, prob(
                            "answer_depends_on_other_tenants",
                            i,
                            format!("tenant {} FlushHotTier step {}: documents_flushed={} with the other tenants' traffic interleaved, {} alone", TENANTS[t], i, fa, fb),
                            &[("rpc", kind), ("field", "documents_flushed")],
                        ));
                        continue;
                    }
                }
                // any other difference: the two worlds may have diverged for good, stop here
                push_new(&mut out, prob(
                    "answer_depends_on_other_tenants",
                    i,
                    format!("tenant {} {} step {}: interleaved answer {:?}; alone {:?}", TENANTS[t], kind, i, ra, rb),
                    &[("rpc", kind), ("field", "response")],
                ));
                return out;
            }
            (Step::Usage(..), Obs::Usage(sa, ba), Obs::Usage(sb, bb)) => {
                push_new(&mut out, prob("answer_depends_on_other_tenants", i, format!("tenant {} /usage step {}: interleaved HTTP {} {}; alone HTTP {} {}", TENANTS[t], i, sa, ba, sb, bb), &[("rpc", "/usage"), ("field", "usage_report")]));
                return out;
            }
            (Step::Restart, _, _) => {}
            _ => {}
        }
    }
    out
}

fn push_new(out: &mut Vec<Problem>, p: Problem) {
    if !out.iter().any(|q| q.clause == p.clause && q.facts == p.facts) {
        out.push(p);
    }
}

pub struct Exec {
    pub problems: Vec<Problem>,
    pub steps: u64,
    pub per_rpc: BTreeMap<String, u64>,
    pub probes: BTreeMap<String, u64>,
    pub digest: u64,
}

pub fn execute(plan: &Plan) -> Exec {
    reset_env(plan.env_seed);
    let p = plan.clone();
    let r = on_fresh_thread(move || {
        let mut ex = Exec { problems: vec![], steps: 0, per_rpc: BTreeMap::new(), probes: BTreeMap::new(), digest: 0 };
        let inter = run_world(&p, None, 0, true);
        ex.steps = inter.obs.len() as u64;
        if inter.map_damage_tried > 0 {
            *ex.probes.entry("restart_with_damaged_tenant_map".into()).or_insert(0) += inter.map_damage_tried;
            *ex.probes.entry("damaged_tenant_map_refused".into()).or_insert(0) += inter.map_damage_tried - inter.map_damage_accepted;
        }
        for (st, o) in p.steps.iter().zip(inter.obs.iter()) {
            if let (Step::Rpc(cred, r), Obs::Resp(resp)) = (st, o) {
                *ex.per_rpc.entry(r.kind().to_string()).or_insert(0) += 1;
                let mut pr = |k: &str| *ex.probes.entry(k.to_string()).or_insert(0) += 1;
                if valid_tenant(&p.cfg, cred, true).is_none() {
                    pr("call_without_valid_enabled_key");
                }
                match (&resp.body, r) {
                    (Body::Search(v), _) => {
                        if v.iter().any(|s| s.cache_hit) {
                            pr("search_served_from_query_cache");
                        }
                        if v.iter().any(|s| !s.results.is_empty()) {
                            pr("search_with_results");
                        }
                    }
                    (Body::Query(q), _) if q.found => pr("query_found"),
                    (Body::Delete { existed: true, .. }, _) => pr("delete_existed"),
                    (Body::Update { existed: true, .. }, Rpc::UpdateMeta { meta, .. }) => {
                        if meta.keys().any(|k| RESERVED.contains(&k.as_str())) {
                            pr("update_with_spoofed_reserved_key_applied");
                        }
                    }
                    (Body::BatchDelete { deleted, .. }, _) if *deleted > 0 => pr("batch_delete_removed_docs"),
                    _ => {}
                }
                if let Rpc::Insert(it) = r {
                    if it.meta.keys().any(|k| RESERVED.contains(&k.as_str())) {
                        pr("insert_with_spoofed_reserved_key");
                    }
                }
            }
        }
        // collision probe: same local id live for two tenants at the end
        if let Some(Some(t)) = inter.truth.iter().rev().find(|t| t.is_some()) {
            let mut locals: BTreeMap<u64, u32> = BTreeMap::new();
            for (gid, _) in t {
                *locals.entry(gid & 0xFFFF_FFFF).or_insert(0) += 1;
            }
            if locals.values().any(|n| *n > 1) {
                *ex.probes.entry("same_local_id_live_for_two_tenants".into()).or_insert(0) += 1;
            }
        }
        let mut d = 0u64;
        for o in &inter.obs {
            d = crate::rng::mix(d, crate::rng::mix(0, serde_json::to_string(o).map(|s| s.len() as u64 ^ s.bytes().fold(0u64, |a, b| a.wrapping_mul(131).wrapping_add(b as u64))).unwrap_or(0)));
        }
        ex.digest = d;
        let mut snaps: BTreeMap<usize, TModel> = BTreeMap::new();
        if let Some(pb) = judge(&p, &inter, &mut snaps) {
            ex.problems.push(pb);
            return ex;
        }
        if snaps.contains_key(&usize::MAX) {
            // the index (a resource shared by all tenants) ran out of room: the alone and interleaved worlds differ
            // legitimately from here on, so the alone-vs-interleaved comparison is not made for this history
            *ex.probes.entry("histories_with_index_full_refusals".into()).or_insert(0) += 1;
            return ex;
        }
        for t in 0..p.cfg.n_tenants {
            let alone = run_world(&p, Some(t), 1 + t as u64, false);
            for pb in compare_alone(&p, &inter, &alone, t, &snaps, &mut ex.probes) {
                // one report per clause fingerprint per run
                push_new(&mut ex.problems, pb);
            }
        }
        ex
    });
    match r {
        Ok(e) => e,
        Err(p) => Exec { problems: vec![Problem { clause: "harness_thread_panicked".into(), msg: p, facts: BTreeMap::new(), step: 0 }], steps: 0, per_rpc: BTreeMap::new(), probes: BTreeMap::new(), digest: 0 },
    }
}

fn class_key(p: &Problem) -> String {
    let mut key = format!("C10|{}", p.clause);
    for (k, v) in &p.facts {
        key.push_str(&format!("|{}={}", k, v));
    }
    key
}

fn minimise(plan: &Plan, target: &Problem, max_tries: usize) -> (Plan, String) {
    let mut best = plan.clone();
    // cut everything after the failing step first
    if target.step + 1 < best.steps.len() {
        let mut cand = best.clone();
        cand.steps.truncate(target.step + 1);
        let e = execute(&cand);
        if e.problems.iter().any(|q| q.clause == target.clause && q.facts == target.facts) {
            best = cand;
        }
    }
    let mut msg = target.msg.clone();
    let mut tries = 0;
    let mut i = 0;
    while i < best.steps.len() && tries < max_tries {
        let mut cand = best.clone();
        cand.steps.remove(i);
        tries += 1;
        let e = execute(&cand);
        if let Some(q) = e.problems.iter().find(|q| q.clause == target.clause && q.facts == target.facts) {
            best = cand;
            msg = q.msg.clone();
        } else {
            i += 1;
        }
    }
    (best, msg)
}

pub fn run_batch(seed: u64, start: u64, count: u64, tier: &str, budget_ms: u64, sum: &mut Summary) {
    let t0 = simlibc::real_now_ns();
    for run in start..start + count {
        if budget_ms > 0 && (simlibc::real_now_ns() - t0) / 1_000_000 > budget_ms {
            break;
        }
        let plan = gen_plan(seed, run, tier);
        let ex = execute(&plan);
        sum.runs += 1;
        sum.evaluations += ex.steps;
        for (k, n) in &ex.per_rpc {
            sum.count(&format!("rpc_{}", k), *n);
        }
        for (k, n) in &ex.probes {
            sum.probe(k, *n);
        }
        sum.count("worlds", 1 + plan.cfg.n_tenants as u64);
        if plan.cfg.persist {
            sum.probe("persistent_server_runs", 1);
        }
        if plan.cfg.capacity < 400 {
            sum.probe("small_index_capacity_runs", 1);
        }
        if plan.cfg.two_keys.is_some() {
            sum.probe("runs_with_a_rotated_second_key", 1);
        }
        if plan.cfg.late_tenant {
            sum.probe("runs_with_a_tenant_added_at_restart", 1);
        }
        if plan.steps.iter().any(|s| matches!(s, Step::Restart)) {
            sum.probe("runs_with_restart", 1);
        }
        sum.distinct_hash(ex.digest);
        if sum.runs <= 2 {
            sum.sample(json!({"run": run, "cfg": plan.cfg, "first_steps": plan.steps.iter().take(5).collect::<Vec<_>>(), "steps": plan.steps.len()}));
        }
        for pb in &ex.problems {
            let key = class_key(pb);
            if !sum.class_first(&key) || sum.violations.len() >= 10 {
                continue;
            }
            let within = budget_ms == 0 || (simlibc::real_now_ns() - t0) / 1_000_000 < budget_ms;
            let (best, msg) = if within && sum.violations.len() < 4 { minimise(&plan, pb, 60) } else { (plan.clone(), pb.msg.clone()) };
            sum.violations.push(Violation {
                property: "C10".into(),
                clause: pb.clause.clone(),
                facts: pb.facts.clone(),
                message: msg,
                seed,
                run,
                replay: serde_json::to_value(Replay { check: "C10".into(), plan: best, clause: pb.clause.clone() }).unwrap(),
                minimised: within,
                original: Some(json!({"steps": plan.steps.len(), "message": pb.msg})),
            });
        }
    }
}

pub fn replay(v: &serde_json::Value, sum: &mut Summary) -> Result<(), String> {
    let r: Replay = serde_json::from_value(v.clone()).map_err(|e| e.to_string())?;
    let ex = execute(&r.plan);
    sum.runs = 1;
    sum.evaluations = ex.steps;
    for pb in &ex.problems {
        sum.violations.push(Violation { property: "C10".into(), clause: pb.clause.clone(), facts: pb.facts.clone(), message: pb.msg.clone(), seed: 0, run: 0, replay: v.clone(), minimised: true, original: None });
    }
    Ok(())
}
