//! C13: strict recovery never silently returns damaged state.
//! Data directories produced by seeded histories, cleanly stopped; every single fault of a structural catalogue
//! (bit flips at structural offsets + PRNG offsets, truncations at every frame boundary +-1 + PRNG lengths,
//! deletion) is applied to every file and the real strict recovery is run on the damaged copy.

use crate::c01::{recover_on_image, Outcome};
use crate::common::*;
use crate::hist::*;
use crate::report::{Summary, Violation};
use crate::rng::Rng;
use crate::simlibc::{self, role_of, FsImage, Role};
use serde::{Deserialize, Serialize};
use serde_json::json;
use std::collections::BTreeMap;

#[derive(Clone, Debug, PartialEq, Serialize, Deserialize)]
pub enum Damage {
    Flip { file_rank: usize, role: String, offset: usize, bit: u8, field: String },
    Truncate { file_rank: usize, role: String, len: usize, field: String },
    Delete { file_rank: usize, role: String },
}

#[derive(Clone, Debug, Serialize, Deserialize)]
pub struct Replay {
    pub check: String,
    pub plan: Plan,
    pub damage: Damage,
    pub clause: String,
}

pub fn gen_plan(seed: u64, run: u64, tier: &str) -> Plan {
    let mut rng = Rng::for_run(seed, "C13", run);
    let fs = [Fsync::Always, Fsync::Periodic(0), Fsync::Never];
    let mut cfg = Cfg::gen(&mut rng, &fs);
    cfg.snap_interval = *rng.pick(&[0usize, 2, 3, 5, 1000]);
    cfg.max_wal = *rng.pick(&[1u64, 150, 400, 100 << 20]);
    let max_ops = if tier == "thorough" { 40 } else { 22 };
    let n_ops = rng.range(4, max_ops) as usize;
    let universe = rng.range(2, 7);
    let mut ops = gen_history(&mut rng, &cfg, &GenOpts { n_ops, id_universe: universe, restarts: true, gaps: false, flushes: false, sync_wal: false });
    // make several snapshots likely (older snapshot files stay in the directory)
    for _ in 0..rng.below(3) {
        let pos = rng.below(ops.len() as u64 + 1) as usize;
        ops.insert(pos, OpK::Snapshot);
    }
    Plan { cfg, ops, universe, env_seed: rng.next() }
}

/// Files of the image in a stable order: (name, role-name) sorted by name; rank = index in this order.
fn ranked_files(img: &FsImage) -> Vec<(String, String)> {
    img.names.keys().map(|n| (n.clone(), format!("{:?}", role_of(n)))).collect()
}

fn wal_structure(data: &[u8]) -> Vec<(usize, usize)> {
    // (frame start, frame total length) for every complete frame
    let mut out = Vec::new();
    let mut p = 4usize;
    while p + 4 <= data.len() {
        let n = u32::from_le_bytes([data[p], data[p + 1], data[p + 2], data[p + 3]]) as usize;
        if n == 0 || p + 4 + n + 4 > data.len() {
            break;
        }
        out.push((p, 4 + n + 4));
        p += 4 + n + 4;
    }
    out
}

fn catalogue(img: &FsImage, rng: &mut Rng, newest_wal: &Option<String>) -> Vec<Damage> {
    let mut out = Vec::new();
    for (rank, (name, role)) in ranked_files(img).into_iter().enumerate() {
        let data = img.inodes.get(&img.names[&name]).cloned().unwrap_or_default();
        let r = role_of(&name);
        out.push(Damage::Delete { file_rank: rank, role: role.clone() });
        let mut flips: Vec<(usize, u8, String)> = Vec::new();
        let mut truncs: Vec<(usize, String)> = Vec::new();
        match r {
            Role::Wal => {
                let is_newest = Some(&name) == newest_wal.as_ref();
                flips.push((0, 0, "magic".into()));
                flips.push((3, 7, "magic".into()));
                let frames = wal_structure(&data);
                for (k, (s, l)) in frames.iter().enumerate() {
                    let last = k + 1 == frames.len();
                    let tag = if last { "last_frame" } else { "inner_frame" };
                    flips.push((*s, 0, format!("{}_len_low", tag)));
                    flips.push((*s + 1, 3, format!("{}_len_mid", tag)));
                    flips.push((*s + 2, 1, format!("{}_len_high", tag)));
                    flips.push((*s + 4, 0, format!("{}_payload_first", tag)));
                    flips.push((*s + l - 5, 7, format!("{}_payload_last", tag)));
                    flips.push((*s + l - 4, 0, format!("{}_crc", tag)));
                    flips.push((*s + l - 1, 5, format!("{}_crc", tag)));
                    // op byte / doc id / seq live at fixed offsets inside the bincode payload
                    flips.push((*s + 4 + 4, 2, format!("{}_doc_id", tag)));
                    if !is_newest {
                        truncs.push((*s, "frame_boundary".into()));
                        truncs.push((*s + 1, "frame_boundary_plus1".into()));
                        if *s > 0 {
                            truncs.push((*s - 1, "frame_boundary_minus1".into()));
                        }
                        truncs.push((*s + l - 1, "inside_frame".into()));
                    }
                }
                if !is_newest {
                    truncs.push((0, "empty".into()));
                    truncs.push((3, "inside_magic".into()));
                    if data.len() > 5 {
                        truncs.push((rng.range(4, data.len() as u64 - 1) as usize, "random".into()));
                    }
                }
            }
            Role::Snap => {
                flips.push((0, 0, "magic".into()));
                flips.push((4, 0, "size_low".into()));
                flips.push((6, 1, "size_mid".into()));
                flips.push((8, 0, "size_4gib".into()));
                flips.push((11, 6, "size_high".into()));
                if data.len() > 16 + 40 {
                    flips.push((12, 0, "version".into()));
                    flips.push((12 + 4, 0, "timestamp".into()));
                    flips.push((12 + 12, 0, "doc_count".into()));
                    flips.push((12 + 20, 0, "dimension".into()));
                    flips.push((12 + 28, 0, "documents_len".into()));
                    flips.push((data.len() - 4 - 8, 0, "last_wal_seq".into()));
                    flips.push((data.len() - 4 - 12, 0, "distance".into()));
                    flips.push((data.len() - 5, 3, "payload_last".into()));
                }
                if data.len() >= 4 {
                    flips.push((data.len() - 4, 0, "crc".into()));
                    flips.push((data.len() - 1, 7, "crc".into()));
                }
                for l in [0usize, 3, 11, 12] {
                    if l < data.len() {
                        truncs.push((l, "header".into()));
                    }
                }
                if data.len() > 5 {
                    truncs.push((data.len() - 1, "crc".into()));
                    truncs.push((data.len() - 4, "before_crc".into()));
                    truncs.push((data.len() - 5, "payload_minus1".into()));
                }
            }
            Role::Man => {
                truncs.push((0, "empty".into()));
                if data.len() > 2 {
                    truncs.push((data.len() / 2, "half".into()));
                    truncs.push((data.len() - 1, "minus1".into()));
                }
                let text = String::from_utf8_lossy(&data).to_string();
                for (needle, field) in [("wal_", "segment_name"), ("snapshot_", "snapshot_name"), ("latest_snapshot_wal_seq\": ", "snapshot_seq"), ("\"version\": ", "version")] {
                    let mut from = 0;
                    while let Some(p) = text[from..].find(needle) {
                        let at = from + p + needle.len();
                        if at < data.len() {
                            flips.push((at, 0, field.into()));
                            if at + 3 < data.len() {
                                flips.push((at + 3, 1, field.into()));
                            }
                        }
                        from = at;
                    }
                }
                flips.push((0, 0, "json_open".into()));
            }
            _ => {}
        }
        for _ in 0..3 {
            if !data.is_empty() {
                flips.push((rng.below(data.len() as u64) as usize, rng.below(8) as u8, "random".into()));
            }
        }
        for (o, b, f) in flips {
            if o < data.len() {
                out.push(Damage::Flip { file_rank: rank, role: role.clone(), offset: o, bit: b, field: f });
            }
        }
        for (l, f) in truncs {
            if l < data.len() {
                out.push(Damage::Truncate { file_rank: rank, role: role.clone(), len: l, field: f });
            }
        }
    }
    out
}

fn apply(img: &FsImage, d: &Damage) -> Option<FsImage> {
    let files = ranked_files(img);
    let mut out = img.clone();
    match d {
        Damage::Flip { file_rank, offset, bit, .. } => {
            let (name, _) = files.get(*file_rank)?;
            let ino = out.names[name];
            let data = out.inodes.get_mut(&ino)?;
            if *offset >= data.len() {
                return None;
            }
            data[*offset] ^= 1 << bit;
        }
        Damage::Truncate { file_rank, len, .. } => {
            let (name, _) = files.get(*file_rank)?;
            let ino = out.names[name];
            let data = out.inodes.get_mut(&ino)?;
            if *len >= data.len() {
                return None;
            }
            data.truncate(*len);
        }
        Damage::Delete { file_rank, .. } => {
            let (name, _) = files.get(*file_rank)?;
            out.names.remove(name);
        }
    }
    Some(out)
}

fn write_tmp(bytes: &[u8], name: &str) -> String {
    let d = format!("{}/c13probe", scratch_base());
    let _b = simlibc::Bypass::new();
    let _ = std::fs::create_dir_all(&d);
    let p = format!("{}/{}", d, name);
    std::fs::write(&p, bytes).expect("write probe file");
    p
}

fn wal_entries(bytes: &[u8]) -> Result<(Vec<Vec<u8>>, usize), String> {
    let p = write_tmp(bytes, "probe.wal");
    let mut r = kyrodb_engine::WalReader::open(&p).map_err(|e| format!("{:#}", e))?;
    let es = r.read_all().map_err(|e| format!("{:#}", e))?;
    Ok((es.iter().map(|e| bincode::serialize(e).unwrap_or_default()).collect(), r.corrupted_entries()))
}

/// How did the engine's own readers treat the damaged file? (names the mechanism for the fingerprint)
fn mechanism(img: &FsImage, dimg: &FsImage, name: &str, listed: bool) -> String {
    let orig = img.names.get(name).and_then(|i| img.inodes.get(i)).cloned().unwrap_or_default();
    let dmg = dimg.names.get(name).and_then(|i| dimg.inodes.get(i)).cloned();
    match role_of(name) {
        Role::Wal => {
            if !listed {
                return "unreferenced_segment".into();
            }
            let Some(dmg) = dmg else { return "segment_missing_but_start_up_continued".into() };
            let o = wal_entries(&orig);
            let d = wal_entries(&dmg);
            match (o, d) {
                (Ok((oe, _)), Ok((de, corrupted))) => {
                    if corrupted > 0 {
                        "reader_counted_corruption_but_start_up_continued".into()
                    } else if de.len() < oe.len() {
                        "short_read_without_error".into()
                    } else if de != oe {
                        "altered_frame_accepted".into()
                    } else {
                        "reader_sees_identical_entries".into()
                    }
                }
                (_, Err(_)) => "reader_error_but_start_up_continued".into(),
                (Err(_), _) => "original_unreadable".into(),
            }
        }
        Role::Snap => {
            if !listed {
                return "unreferenced_snapshot".into();
            }
            let older = img.names.keys().filter(|n| n.starts_with("snapshot_") && n.ends_with(".snap") && n.as_str() != name).count() > 0;
            match dmg {
                None => if older { "referenced_snapshot_missing_other_snapshot_used".into() } else { "referenced_snapshot_missing_start_up_continued".into() },
                Some(d) => {
                    let p = write_tmp(&d, "probe.snap");
                    match kyrodb_engine::Snapshot::load(&p) {
                        Ok(_) => "damaged_snapshot_loaded".into(),
                        Err(_) => if older { "referenced_snapshot_unreadable_other_snapshot_used".into() } else { "referenced_snapshot_unreadable_start_up_continued".into() },
                    }
                }
            }
        }
        Role::Man => match dmg {
            None => "manifest_missing".into(),
            Some(d) => {
                let p = write_tmp(&d, "probe.manifest");
                let po = write_tmp(&orig, "probe.manifest.orig");
                match (kyrodb_engine::Manifest::load(&p), kyrodb_engine::Manifest::load(&po)) {
                    (Ok(m), Ok(o)) => {
                        // MANIFEST carries no checksum: any flip that still parses is accepted as is
                        let _ = (m, o);
                        "damaged_manifest_still_parses".into()
                    }
                    (Err(_), _) => "manifest_unreadable_but_start_up_continued".into(),
                    _ => "original_unreadable".into(),
                }
            }
        },
        _ => "other_file".into(),
    }
}


/// The referenced snapshot is unusable and recovery falls back to another snapshot file. Could the collection still
/// be reproduced exactly from that other snapshot plus the WAL segments listed in the MANIFEST (i.e. nothing between
/// the two snapshots has been compacted away)? Computed with the engine's own public readers over the damaged
/// directory image, independently of the recovery code under test.
fn log_still_covers_older_snapshot(dimg: &FsImage, damaged: &str, model: &Model) -> Option<bool> {
    let bytes_of = |n: &str| dimg.names.get(n).and_then(|i| dimg.inodes.get(i)).cloned();
    let mut best: Option<kyrodb_engine::Snapshot> = None;
    for n in dimg.names.keys().filter(|n| n.starts_with("snapshot_") && n.ends_with(".snap") && n.as_str() != damaged) {
        let Some(b) = bytes_of(n) else { continue };
        let p = write_tmp(&b, "probe.older.snap");
        if let Ok(sn) = kyrodb_engine::Snapshot::load(&p) {
            if best.as_ref().map(|x| sn.last_wal_seq > x.last_wal_seq).unwrap_or(true) {
                best = Some(sn);
            }
        }
    }
    let snap = best?;
    let mut state: Model = Model::new();
    let metas: std::collections::HashMap<u64, std::collections::HashMap<String, String>> = snap.metadata.iter().cloned().collect();
    for (id, v) in &snap.documents {
        state.insert(*id, (bits(v), to_btree(metas.get(id).unwrap_or(&Default::default()))));
    }
    let man_bytes = bytes_of("MANIFEST")?;
    let pm = write_tmp(&man_bytes, "probe.older.manifest");
    let man = kyrodb_engine::Manifest::load(&pm).ok()?;
    let mut entries: Vec<kyrodb_engine::WalEntry> = Vec::new();
    for seg in &man.wal_segments {
        let b = bytes_of(seg)?;
        let pw = write_tmp(&b, "probe.older.wal");
        let mut r = kyrodb_engine::WalReader::open(&pw).ok()?;
        entries.extend(r.read_all().ok()?);
    }
    entries.retain(|e| e.seq_no > snap.last_wal_seq);
    entries.sort_by_key(|e| e.seq_no);
    for e in entries {
        match e.op {
            kyrodb_engine::WalOp::Insert => {
                state.insert(e.doc_id, (bits(&e.embedding), to_btree(&e.metadata)));
            }
            kyrodb_engine::WalOp::Delete => {
                state.remove(&e.doc_id);
            }
            kyrodb_engine::WalOp::UpdateMetadata => {
                if let Some(d) = state.get_mut(&e.doc_id) {
                    d.1 = to_btree(&e.metadata);
                }
            }
        }
    }
    Some(&state == model)
}

fn damage_facts(d: &Damage, newest: bool, mech: &str) -> BTreeMap<String, String> {
    let mut f = BTreeMap::new();
    let (role, kind) = match d {
        Damage::Flip { role, .. } => (role.clone(), "bit_flip"),
        Damage::Truncate { role, .. } => (role.clone(), "truncate"),
        Damage::Delete { role, .. } => (role.clone(), "delete"),
    };
    if role == "Wal" {
        f.insert("newest_segment".into(), if newest { "yes" } else { "no" }.into());
    }
    f.insert("file".into(), role);
    f.insert("damage".into(), kind.into());
    f.insert("mechanism".into(), mech.to_string());
    f
}

/// Run recovery in a forked child when the damage may make the engine abort the process (absurd allocation).
fn recover_forked(cfg: &Cfg, img: &FsImage, universe: u64, model: &Model) -> (u8, String) {
    unsafe {
        let pid = libc::fork();
        if pid == 0 {
            // the engine may abort on an absurd allocation: keep its report out of the worker's stderr
            let devnull = libc::open(b"/dev/null\0".as_ptr() as *const libc::c_char, libc::O_WRONLY);
            if devnull >= 0 {
                libc::dup2(devnull, 2);
            }
            let rr = recover_on_image(cfg, img, universe, "c13f", 1);
            let code = match rr.outcome {
                Outcome::Recovered(c) => {
                    if census_matches(&c, model).is_ok() {
                        0
                    } else {
                        1
                    }
                }
                Outcome::Refused(_) => 2,
                Outcome::Panicked => 3,
            };
            libc::_exit(code);
        }
        let mut status: libc::c_int = 0;
        libc::waitpid(pid, &mut status, 0);
        if libc::WIFEXITED(status) {
            (libc::WEXITSTATUS(status) as u8, "exit".into())
        } else {
            (4, "aborted".into())
        }
    }
}

/// The server's start-up decision (main()'s recover-or-fresh lines, strict, no fresh start after a failed recovery) on
/// a damaged directory: 0 = started with exactly the model, 1 = started with something else, 2 = refused, 3 = panicked.
pub(crate) fn server_start_on_image(cfg: &Cfg, img: &FsImage, universe: u64, model: &Model) -> (u8, String) {
    let dir = fresh_dir("c13s", 0);
    img.dump(&dir);
    let root = simlibc::register_root(&dir, Some(img), true);
    let r = std::panic::catch_unwind(std::panic::AssertUnwindSafe(|| {
        crate::server::vharness::start_engine_like_main(cfg.dim, cfg.metric, cfg.capacity, cfg.fsync.to_engine(), cfg.snap_interval, cfg.max_wal, cfg.hot_soft.max(1), cfg.hot_hard.max(1), cfg.cache_cap.max(1), &dir)
    }));
    let out = match r {
        Ok(Ok(e)) => {
            let c = census(e.cold_tier(), universe);
            drop(e);
            match census_matches(&c, model) {
                Ok(()) => (0u8, String::new()),
                Err(m) => (1u8, m),
            }
        }
        Ok(Err(e)) => (2u8, format!("{:#}", e)),
        Err(_) => (3u8, String::new()),
    };
    let _ = simlibc::unregister_root(root);
    remove_dir(&dir);
    out
}

pub struct Hit {
    pub damage: Damage,
    pub facts: BTreeMap<String, String>,
    pub message: String,
}

pub fn explore(plan: &Plan, sum: &mut Summary, only: Option<&Damage>) -> Vec<Hit> {
    reset_env(plan.env_seed);
    let p2 = plan.clone();
    let out = match on_fresh_thread(move || {
        let o = run_history(&p2, &HistOpts { keep_engine: false, check_restarts: false, tag: "c13h", run_no: 0 });
        remove_dir(&o.dir);
        o
    }) {
        Ok(o) => o,
        Err(p) => {
            sum.notes.push(format!("history thread panicked: {}", p));
            return vec![];
        }
    };
    sum.sim_time_ns += out.sim_ns;
    if !out.problems.is_empty() {
        // an un-damaged history that misbehaves is C02's business; do not judge damage on top of it
        sum.count("histories_skipped_with_problems", 1);
        return vec![];
    }
    let img = crate::crash::image_at(&FsImage::default(), &out.journal, out.journal.len(), &crate::crash::Variant::Kill);
    let model = out.final_model.clone();
    // sanity: the undamaged directory recovers to the model
    let manifest_text = img.names.get("MANIFEST").and_then(|i| img.inodes.get(i)).map(|d| String::from_utf8_lossy(d).to_string()).unwrap_or_default();
    let newest_wal = img.names.keys().filter(|n| n.starts_with("wal_")).max().cloned();
    let n_snaps = img.names.keys().filter(|n| n.starts_with("snapshot_")).count();
    let n_wals = img.names.keys().filter(|n| n.starts_with("wal_")).count();
    sum.probe("directories_with_several_snapshots", (n_snaps >= 2) as u64);
    sum.probe("directories_with_several_segments", (n_wals >= 2) as u64);
    let mut rng = Rng::new(plan.env_seed ^ 0xC13);
    let cat: Vec<Damage> = match only {
        Some(d) => vec![d.clone()],
        None => catalogue(&img, &mut rng, &newest_wal),
    };
    let files = ranked_files(&img);
    let mut hits = Vec::new();
    for d in cat {
        let Some(dimg) = apply(&img, &d) else { continue };
        let rank = match &d {
            Damage::Flip { file_rank, .. } | Damage::Truncate { file_rank, .. } | Damage::Delete { file_rank, .. } => *file_rank,
        };
        let name = files[rank].0.clone();
        let listed = name == "MANIFEST" || manifest_text.contains(&name);
        let newest = Some(&name) == newest_wal.as_ref();
        let risky = matches!(&d, Damage::Flip { field, .. } if field.starts_with("size_") || field == "documents_len" || field == "random" || field == "doc_count");
        reset_env(plan.env_seed ^ 0xD13);
        sum.evaluations += 1;
        let (code, how, refused_msg) = if risky && role_of(&name) == Role::Snap {
            let (c, h) = recover_forked(&plan.cfg, &dimg, plan.universe, &model);
            (c, h, String::new())
        } else {
            let (cfg, uni, m2) = (plan.cfg.clone(), plan.universe, model.clone());
            match on_fresh_thread(move || {
                let rr = recover_on_image(&cfg, &dimg, uni, "c13r", 0);
                match rr.outcome {
                    Outcome::Recovered(c) => match census_matches(&c, &m2) {
                        Ok(()) => (0u8, String::new()),
                        Err(m) => (1u8, m),
                    },
                    Outcome::Refused(e) => (2u8, e),
                    Outcome::Panicked => (3u8, String::new()),
                }
            }) {
                Ok((c, m)) => (c, "thread".to_string(), m),
                Err(_) => (3, "thread".to_string(), String::new()),
            }
        };
        let field = match &d {
            Damage::Flip { field, .. } | Damage::Truncate { field, .. } => field.clone(),
            _ => String::new(),
        };
        let fkey = format!("{:?}|{}", role_of(&name), field);
        let mut h = 0xcbf29ce484222325u64;
        for b in fkey.bytes() {
            h = (h ^ b as u64).wrapping_mul(0x100000001b3);
        }
        sum.distinct_hash(h ^ crate::crash::image_digest(&img));
        // server rows: a removed file is also judged through the server's own start-up decision (it starts an empty
        // database when it finds no MANIFEST, and goes through TieredEngine::recover otherwise)
        if matches!(&d, Damage::Delete { .. }) {
            if let Some(simg) = apply(&img, &d) {
                reset_env(plan.env_seed ^ 0xD14);
                let (cfg, uni, m2) = (plan.cfg.clone(), plan.universe, model.clone());
                let (scode, smsg) = on_fresh_thread(move || server_start_on_image(&cfg, &simg, uni, &m2)).unwrap_or((3, String::new()));
                sum.evaluations += 1;
                sum.probe("server_startup_on_directory_with_removed_file", 1);
                match scode {
                    0 => sum.count("server_outcome_recovered_exact", 1),
                    2 => sum.count("server_outcome_refused", 1),
                    3 => sum.count("server_outcome_refused_by_panic", 1),
                    _ => {
                        sum.count("server_outcome_silent_damage", 1);
                        let dimg2 = apply(&img, &d).unwrap();
                        let mech = if role_of(&name) == Role::Man { "empty_database_started_because_manifest_is_absent".to_string() } else { mechanism(&img, &dimg2, &name, listed) };
                        let mut facts = damage_facts(&d, newest, &mech);
                        facts.insert("entry".into(), "server_startup".into());
                        if mech.ends_with("other_snapshot_used") {
                            let covered = log_still_covers_older_snapshot(&dimg2, &name, &model);
                            facts.insert("log_still_covers_older_snapshot".into(), match covered {
                                Some(true) => "yes",
                                Some(false) => "no",
                                None => "undetermined",
                            }.into());
                        }
                        hits.push(Hit { damage: d.clone(), facts, message: format!("the server's start-up decision accepted a damaged directory ({:?} on {}; {}) and serves a different collection: {}", d, simlibc::mask_name(&name), mech, smsg) });
                    }
                }
            }
        }
        match code {
            0 => sum.count("outcome_recovered_exact", 1),
            2 => sum.count("outcome_refused", 1),
            3 => sum.count("outcome_refused_by_panic", 1),
            4 => sum.count("outcome_refused_by_abort", 1),
            _ => {
                sum.count("outcome_silent_damage", 1);
                let diff = if how == "exit" { "differs (forked)".to_string() } else { refused_msg.clone() };
                let kind = if diff.contains("missing []") {
                    "document_resurrected_or_unexpected"
                } else if diff.contains("id set differs") {
                    "document_missing"
                } else if diff.contains("vector bits") {
                    "vector_altered"
                } else if diff.contains("metadata differs") {
                    "metadata_altered"
                } else {
                    "other"
                };
                let dimg2 = apply(&img, &d).unwrap();
                let mech = mechanism(&img, &dimg2, &name, listed);
                let mut facts = damage_facts(&d, newest, &mech);
                if let (Damage::Flip { offset, .. }, Role::Wal) = (&d, role_of(&name)) {
                    // which part of the log layout was hit: a frame's 4-byte length prefix or something a checksum covers
                    let orig = img.names.get(&name).and_then(|i| img.inodes.get(i)).cloned().unwrap_or_default();
                    let region = if *offset < 4 {
                        "magic"
                    } else if wal_structure(&orig).iter().any(|(s0, _)| *offset >= *s0 && *offset < *s0 + 4) {
                        "frame_length"
                    } else {
                        "frame_body_or_checksum"
                    };
                    facts.insert("flipped_region".into(), region.into());
                }
                if let (Damage::Truncate { len, .. }, Role::Wal) = (&d, role_of(&name)) {
                    // where the segment was cut: inside the 4-byte magic, exactly between two frames, or inside a frame
                    let orig = img.names.get(&name).and_then(|i| img.inodes.get(i)).cloned().unwrap_or_default();
                    let frames = wal_structure(&orig);
                    let at = if *len < 4 {
                        "inside_header"
                    } else if *len == 4 || frames.iter().any(|(s0, l0)| *s0 + *l0 == *len) {
                        "between_frames"
                    } else {
                        "inside_frame"
                    };
                    facts.insert("truncated_at".into(), at.into());
                }
                if let (Damage::Flip { offset, .. }, Role::Man) = (&d, role_of(&name)) {
                    // which MANIFEST field the flipped byte belongs to (by position in the JSON text)
                    let orig = img.names.get(&name).and_then(|i| img.inodes.get(i)).cloned().unwrap_or_default();
                    let text = String::from_utf8_lossy(&orig).to_string();
                    // a key owns the text from its opening quote up to the next key (so a flip inside a key NAME counts
                    // for that key: the field then goes missing and serde falls back to its default)
                    let field = ["\"version\"", "\"latest_snapshot\"", "\"latest_snapshot_wal_seq\"", "\"wal_segments\"", "\"last_updated\""]
                        .iter()
                        .filter_map(|k| text.find(k).map(|p| (p, *k)))
                        .filter(|(p, _)| *p <= *offset)
                        .max()
                        .map(|x| x.1.trim_matches('"').to_string())
                        .unwrap_or_else(|| "structure".into());
                    if field == "latest_snapshot" {
                        // what the damaged MANIFEST now says about the snapshot: nothing, a file that exists, a file that does not
                        let now = dimg2.names.get(&name).and_then(|i| dimg2.inodes.get(i)).cloned().unwrap_or_default();
                        let ptr = match serde_json::from_slice::<serde_json::Value>(&now).ok().and_then(|v| v.get("latest_snapshot").cloned()) {
                            Some(serde_json::Value::String(n)) => {
                                if dimg2.names.contains_key(&n) {
                                    "names_another_existing_file"
                                } else {
                                    "names_a_missing_file"
                                }
                            }
                            _ => "none",
                        };
                        facts.insert("snapshot_pointer_after_flip".into(), ptr.into());
                    }
                    if field == "wal_segments" {
                        // did the list itself change, or did the key go missing (the list would then have to be refused)?
                        let now = dimg2.names.get(&name).and_then(|i| dimg2.inodes.get(i)).cloned().unwrap_or_default();
                        let st = match serde_json::from_slice::<serde_json::Value>(&now).ok().map(|v| v.get("wal_segments").is_some()) {
                            Some(true) => "entries_changed",
                            _ => "key_missing",
                        };
                        facts.insert("segment_list_after_flip".into(), st.into());
                    }
                    facts.insert("manifest_field".into(), field);
                }
                if mech.ends_with("other_snapshot_used") {
                    // is the information genuinely gone (compacted log), or did recovery lose it although the log still has it?
                    let covered = log_still_covers_older_snapshot(&dimg2, &name, &model);
                    facts.insert("log_still_covers_older_snapshot".into(), match covered {
                        Some(true) => "yes",
                        Some(false) => "no",
                        None => "undetermined",
                    }.into());
                }
                let _ = kind;
                hits.push(Hit { damage: d.clone(), facts, message: format!("strict start-up succeeded on a damaged directory ({:?} on {}; {}) with a different collection ({}): {}", d, simlibc::mask_name(&name), mech, kind, diff) });
            }
        }
    }
    hits
}

fn key_of(h: &Hit) -> String {
    let mut s = "C13|silent_damage".to_string();
    for (k, v) in &h.facts {
        s.push_str(&format!("|{}={}", k, v));
    }
    s
}

pub fn run_batch(seed: u64, start: u64, count: u64, tier: &str, budget_ms: u64, sum: &mut Summary) {
    let t0 = simlibc::real_now_ns();
    for run in start..start + count {
        if budget_ms > 0 && (simlibc::real_now_ns() - t0) / 1_000_000 > budget_ms {
            break;
        }
        let plan = gen_plan(seed, run, tier);
        let hits = explore(&plan, sum, None);
        sum.runs += 1;
        if sum.runs <= 2 {
            sum.sample(json!({"run": run, "cfg": plan.cfg, "ops": plan.ops.len()}));
        }
        for h in hits {
            let key = key_of(&h);
            if !sum.class_first(&key) || sum.violations.len() >= 16 {
                continue;
            }
            // minimise the history: drop operations while the same class persists (any damage of the catalogue)
            let mut best = plan.clone();
            let mut best_hit = Hit { damage: h.damage.clone(), facts: h.facts.clone(), message: h.message.clone() };
            let mut scratch = Summary::new("C13", 0);
            let mut tries = 0;
            let mut i = 0;
            while i < best.ops.len() && tries < 25 && sum.violations.len() < 8 {
                let mut cand = best.clone();
                cand.ops.remove(i);
                tries += 1;
                if let Some(hh) = explore(&cand, &mut scratch, None).into_iter().find(|x| key_of(x) == key) {
                    best = cand;
                    best_hit = hh;
                } else {
                    i += 1;
                }
            }
            sum.violations.push(Violation {
                property: "C13".into(),
                clause: "silent_damage".into(),
                facts: best_hit.facts.clone(),
                message: best_hit.message.clone(),
                seed,
                run,
                replay: serde_json::to_value(Replay { check: "C13".into(), plan: best, damage: best_hit.damage.clone(), clause: "silent_damage".into() }).unwrap(),
                minimised: true,
                original: Some(json!({"plan": plan, "damage": h.damage})),
            });
        }
    }
}

pub fn replay(v: &serde_json::Value, sum: &mut Summary) -> Result<(), String> {
    let r: Replay = serde_json::from_value(v.clone()).map_err(|e| e.to_string())?;
    let hits = explore(&r.plan, sum, Some(&r.damage));
    sum.runs = 1;
    for h in hits {
        sum.violations.push(Violation { property: "C13".into(), clause: "silent_damage".into(), facts: h.facts, message: h.message, seed: 0, run: 0, replay: v.clone(), minimised: true, original: None });
    }
    Ok(())
}
