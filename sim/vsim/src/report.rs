//! Worker output: one JSON summary per worker process; the python driver merges them.

use serde::{Deserialize, Serialize};
use serde_json::Value;
use std::collections::{BTreeMap, BTreeSet};

#[derive(Clone, Debug, Serialize, Deserialize)]
pub struct Violation {
    pub property: String,
    pub clause: String,
    pub facts: BTreeMap<String, String>,
    pub message: String,
    pub seed: u64,
    pub run: u64,
    /// complete, self-contained replay plan (minimised when possible)
    pub replay: Value,
    pub minimised: bool,
    #[serde(default)]
    pub original: Option<Value>,
}

impl Violation {
    pub fn class_key(&self) -> String {
        let mut s = format!("{}|{}", self.property, self.clause);
        for (k, v) in &self.facts {
            s.push_str(&format!("|{}={}", k, v));
        }
        s
    }
}

#[derive(Clone, Debug, Default, Serialize, Deserialize)]
pub struct Summary {
    pub check: String,
    pub seed: u64,
    pub runs: u64,
    pub evaluations: u64,
    pub distinct: u64,
    pub counters: BTreeMap<String, u64>,
    pub faults_fired: BTreeMap<String, u64>,
    pub probes: BTreeMap<String, u64>,
    pub sim_time_ns: u64,
    pub wall_s: f64,
    pub violations: Vec<Violation>,
    pub violation_classes: BTreeMap<String, u64>,
    pub samples: Vec<Value>,
    pub notes: Vec<String>,
    #[serde(skip)]
    pub seen: BTreeSet<u64>,
}

impl Summary {
    pub fn new(check: &str, seed: u64) -> Summary {
        Summary { check: check.to_string(), seed, ..Default::default() }
    }
    pub fn count(&mut self, k: &str, n: u64) {
        *self.counters.entry(k.to_string()).or_insert(0) += n;
    }
    pub fn probe(&mut self, k: &str, n: u64) {
        *self.probes.entry(k.to_string()).or_insert(0) += n;
    }
    pub fn fault(&mut self, k: &str, n: u64) {
        *self.faults_fired.entry(k.to_string()).or_insert(0) += n;
    }
    pub fn distinct_hash(&mut self, h: u64) -> bool {
        if self.seen.len() < 4_000_000 {
            if self.seen.insert(h) {
                self.distinct += 1;
                return true;
            }
            false
        } else {
            false
        }
    }
    /// Record a violation; returns true if this class has not been seen by this worker yet (=> minimise + keep).
    pub fn class_first(&mut self, key: &str) -> bool {
        let c = self.violation_classes.entry(key.to_string()).or_insert(0);
        *c += 1;
        *c == 1
    }
    pub fn sample(&mut self, v: Value) {
        if self.samples.len() < 3 {
            self.samples.push(v);
        }
    }
}
