//! TieredEngine construction (all cache strategies) and a serialisable API-operation layer shared by the
//! tiered checks (C04, C05, C06, C07, C08, C20).

use crate::common::*;
use kyrodb_engine::cache_strategy::{AbTestSplitter, CacheStrategy, LearnedCacheStrategy, LruCacheStrategy};
use kyrodb_engine::learned_cache::{AccessEvent, AccessType, LearnedCachePredictor};
use kyrodb_engine::proto::{metadata_filter::FilterType, ExactMatch, MetadataFilter};
use kyrodb_engine::semantic_adapter::SemanticAdapter;
use kyrodb_engine::{AccessPatternLogger, QueryHashCache, TieredEngine, TieredEngineConfig};
use serde::{Deserialize, Serialize};
use std::sync::Arc;
use std::time::Duration;

#[derive(Clone, Debug, PartialEq, Serialize, Deserialize)]
pub struct TCfg {
    pub metric: u8,
    pub dim: usize,
    pub strat: u8, // 0 LRU, 1 learned, 2 learned+semantic, 3 A/B splitter
    pub trained: bool,
    pub cache_cap: usize,
    pub qc_cap: usize,
    pub qc_threshold_milli: u32, // 1000 = exact repeats only
    pub hot_soft: usize,
    pub hot_hard: usize,
    pub hot_age_s: u64,
    pub capacity: usize,
    pub persist: bool,
    pub fsync: Fsync,
    pub snap_interval: usize,
    pub max_wal: u64,
    pub logger: bool,
    #[serde(default)]
    pub hot_timeout_ms: Option<u64>,
    #[serde(default)]
    pub cold_timeout_ms: Option<u64>,
    #[serde(default)]
    pub max_conc: Option<usize>,
    #[serde(default)]
    pub ef_search: Option<usize>,
}

impl TCfg {
    pub fn metric(&self) -> kyrodb_engine::config::DistanceMetric {
        match self.metric {
            0 => kyrodb_engine::config::DistanceMetric::Cosine,
            1 => kyrodb_engine::config::DistanceMetric::Euclidean,
            _ => kyrodb_engine::config::DistanceMetric::InnerProduct,
        }
    }
    pub fn gen(rng: &mut crate::rng::Rng) -> TCfg {
        TCfg {
            metric: rng.below(3) as u8,
            dim: *rng.pick(&[2usize, 3, 4, 5, 8, 9]),
            strat: rng.below(4) as u8,
            trained: rng.chance(1, 2),
            cache_cap: *rng.pick(&[1usize, 2, 5, 50]),
            qc_cap: *rng.pick(&[1usize, 2, 5, 50]),
            qc_threshold_milli: 1000,
            hot_soft: *rng.pick(&[1usize, 2, 4, 100]),
            hot_hard: *rng.pick(&[1usize, 2, 5, 200]),
            hot_age_s: *rng.pick(&[1u64, 60, 3600]),
            capacity: *rng.pick(&[8usize, 32, 1000]),
            persist: rng.chance(1, 2),
            fsync: *rng.pick(&[Fsync::Always, Fsync::Never, Fsync::Periodic(100)]),
            snap_interval: *rng.pick(&[0usize, 2, 5, 1000]),
            max_wal: *rng.pick(&[1u64, 300, 100 << 20]),
            logger: rng.chance(1, 2),
            hot_timeout_ms: None,
            cold_timeout_ms: None,
            max_conc: None,
            ef_search: None,
        }
    }
}

pub struct Built {
    pub engine: Arc<TieredEngine>,
    pub strat: Arc<dyn CacheStrategy>,
    pub learned: Option<Arc<LearnedCacheStrategy>>,
    pub arms: Option<(Arc<dyn CacheStrategy>, Arc<dyn CacheStrategy>)>,
    pub qc: Arc<QueryHashCache>,
    pub logger: Option<Arc<plsim::RwLock<AccessPatternLogger>>>,
    pub cfg: TCfg,
}

pub fn trained_predictor(cap: usize, hot_ids: &[u64]) -> Option<LearnedCachePredictor> {
    let mut p = LearnedCachePredictor::new(cap.max(1)).ok()?;
    let mut ev = Vec::new();
    let base = std::time::SystemTime::now();
    for r in 0..40u64 {
        for id in hot_ids {
            ev.push(AccessEvent { doc_id: *id, timestamp: base + Duration::from_millis(r * 10), access_type: AccessType::Read });
        }
    }
    let _ = p.train_from_accesses(&ev);
    Some(p)
}

fn engine_config(c: &TCfg, dir: Option<&str>) -> TieredEngineConfig {
    TieredEngineConfig {
        hot_tier_max_size: c.hot_soft,
        hot_tier_hard_limit: c.hot_hard,
        hot_tier_max_age: Duration::from_secs(c.hot_age_s),
        hnsw_max_elements: c.capacity,
        embedding_dimension: c.dim,
        hnsw_distance: c.metric(),
        data_dir: dir.map(|s| s.to_string()),
        fsync_policy: c.fsync.to_engine(),
        snapshot_interval: c.snap_interval,
        max_wal_size_bytes: c.max_wal,
        hot_tier_timeout_ms: c.hot_timeout_ms.unwrap_or(50),
        cold_tier_timeout_ms: c.cold_timeout_ms.unwrap_or(1000),
        max_concurrent_queries: c.max_conc.unwrap_or(1000),
        hnsw_ef_search: c.ef_search.unwrap_or(50),
        ..Default::default()
    }
}

pub fn build(c: &TCfg, dir: Option<&str>) -> anyhow::Result<Built> {
    let mut learned: Option<Arc<LearnedCacheStrategy>> = None;
    let mut arms = None;
    let mk_learned = |semantic: bool| -> anyhow::Result<Arc<LearnedCacheStrategy>> {
        let p = LearnedCachePredictor::new(c.cache_cap.max(1))?;
        Ok(Arc::new(if semantic { LearnedCacheStrategy::new_with_semantic(c.cache_cap, p, SemanticAdapter::new()) } else { LearnedCacheStrategy::new(c.cache_cap, p) }))
    };
    let strat: Arc<dyn CacheStrategy> = match c.strat {
        0 => Arc::new(LruCacheStrategy::new(c.cache_cap)),
        1 | 2 => {
            let l = mk_learned(c.strat == 2)?;
            learned = Some(Arc::clone(&l));
            l
        }
        _ => {
            let a: Arc<dyn CacheStrategy> = Arc::new(LruCacheStrategy::new(c.cache_cap));
            let l = mk_learned(false)?;
            learned = Some(Arc::clone(&l));
            let b: Arc<dyn CacheStrategy> = l;
            arms = Some((Arc::clone(&a), Arc::clone(&b)));
            Arc::new(AbTestSplitter::new(a, b))
        }
    };
    if c.trained {
        if let (Some(l), Some(p)) = (&learned, trained_predictor(c.cache_cap, &[0, 1, 2])) {
            l.update_predictor(p);
        }
    }
    let qc = Arc::new(QueryHashCache::new(c.qc_cap.max(1), c.qc_threshold_milli as f32 / 1000.0));
    let mut engine = TieredEngine::new_with_shared_strategy(Arc::clone(&strat), Arc::clone(&qc), vec![], vec![], engine_config(c, if c.persist { dir } else { None }))?;
    let mut logger = None;
    if c.logger {
        let l = Arc::new(plsim::RwLock::new(AccessPatternLogger::new(64)));
        engine.set_access_logger(Arc::clone(&l));
        logger = Some(l);
    }
    Ok(Built { engine: Arc::new(engine), strat, learned, arms, qc, logger, cfg: c.clone() })
}

#[derive(Clone, Debug, PartialEq, Serialize, Deserialize)]
pub enum ApiOp {
    Insert { id: u64, vec: Vec<u32>, meta: Meta },
    Delete { id: u64 },
    BatchDelete { ids: Vec<u64> },
    BatchDeleteByFilter { key: String, value: String },
    UpdateMeta { id: u64, meta: Meta, merge: bool },
    BulkLoad { docs: Vec<(u64, Vec<u32>, Meta)> },
    Query { id: u64 },
    BulkQuery { ids: Vec<u64>, emb: bool },
    GetDocMeta { id: u64 },
    GetEmb { id: u64 },
    GetMeta { id: u64 },
    Exists { id: u64 },
    Knn { q: Vec<u32>, k: usize },
    KnnBatch { qs: Vec<Vec<u32>>, k: usize },
    Flush { force: bool },
    Stats,
    CacheSize,
    HscStats,
    Snapshot,
    IdsForFilter { key: String, value: String },
    UpdatePredictor,
    LogAccess { ids: Vec<u64> },
    StrategyStats,
    Gap { ns: u64 },
}

impl ApiOp {
    pub fn name(&self) -> &'static str {
        match self {
            ApiOp::Insert { .. } => "insert",
            ApiOp::Delete { .. } => "delete",
            ApiOp::BatchDelete { .. } => "batch_delete",
            ApiOp::BatchDeleteByFilter { .. } => "batch_delete_by_metadata_filter",
            ApiOp::UpdateMeta { .. } => "update_metadata",
            ApiOp::BulkLoad { .. } => "bulk_load_cold_tier",
            ApiOp::Query { .. } => "query",
            ApiOp::BulkQuery { .. } => "bulk_query",
            ApiOp::GetDocMeta { .. } => "get_document_with_metadata",
            ApiOp::GetEmb { .. } => "get_embedding_cache_aware",
            ApiOp::GetMeta { .. } => "get_metadata",
            ApiOp::Exists { .. } => "exists",
            ApiOp::Knn { .. } => "knn_search",
            ApiOp::KnnBatch { .. } => "knn_search_batch",
            ApiOp::Flush { .. } => "flush_hot_tier",
            ApiOp::Stats => "stats",
            ApiOp::CacheSize => "cache_size",
            ApiOp::HscStats => "hsc_lifecycle_stats",
            ApiOp::Snapshot => "create_snapshot",
            ApiOp::IdsForFilter { .. } => "ids_for_metadata_filter",
            ApiOp::UpdatePredictor => "update_predictor",
            ApiOp::LogAccess { .. } => "log_served_search_accesses",
            ApiOp::StrategyStats => "strategy_stats",
            ApiOp::Gap { .. } => "gap",
        }
    }
}

#[derive(Clone, Debug, PartialEq, Serialize, Deserialize)]
pub enum ApiRes {
    Unit(Result<(), String>),
    Bool(Result<bool, String>),
    Count(Result<u64, String>),
    Vector(Option<Vec<u32>>),
    Doc(Option<(Vec<u32>, Meta)>),
    Docs(Vec<Option<(Vec<u32>, Meta)>>),
    MetaOnly(Option<Meta>),
    Exists(bool),
    Hits(Result<Vec<(u64, u32)>, String>),
    HitsBatch(Result<Vec<Vec<(u64, u32)>>, String>),
    Ids(Vec<u64>),
    Other,
}

/// key of the catalogue's malformed filter: a NOT without operand (matches nothing; the index cannot compile it, so
/// the selection falls back to a scan)
pub const NOT_WITHOUT_OPERAND: &str = "__not_without_operand__";

pub fn exact_filter(key: &str, value: &str) -> MetadataFilter {
    if key == NOT_WITHOUT_OPERAND {
        return MetadataFilter { filter_type: Some(FilterType::NotFilter(Box::new(kyrodb_engine::proto::NotFilter { filter: None }))) };
    }
    MetadataFilter { filter_type: Some(FilterType::Exact(ExactMatch { key: key.to_string(), value: value.to_string() })) }
}

fn e2s<T>(r: anyhow::Result<T>) -> Result<T, String> {
    r.map_err(|e| format!("{:#}", e))
}

/// The same catalogue issued directly against the cold tier (`HnswBackend` is public API of the library): these
/// calls do not pass through the tiered engine's write gate, so cold-tier writers, snapshots and tombstone
/// compaction really run concurrently. Operations without a cold-tier counterpart fall back to the tiered call.
pub fn exec_cold(b: &Built, op: &ApiOp) -> ApiRes {
    let c = b.engine.cold_tier();
    match op {
        ApiOp::Insert { id, vec, meta } => {
            let mut v = unbits(vec);
            // the cold tier expects what the tiered engine would hand it: a normalised vector for cosine / inner product
            if b.cfg.metric != 1 {
                // (as the tiered engine does: inputs whose squared norm is already inside 0.98-1.02 are kept as they are)
                let ns32: f32 = v.iter().map(|x| x * x).sum();
                let n = v.iter().map(|x| (*x as f64) * (*x as f64)).sum::<f64>().sqrt();
                if !(0.98..=1.02).contains(&ns32) && n > 0.0 && n.is_finite() {
                    for x in v.iter_mut() {
                        *x = (*x as f64 / n) as f32;
                    }
                }
            }
            ApiRes::Unit(e2s(c.insert(*id, v, to_hash(meta))))
        }
        ApiOp::Delete { id } => ApiRes::Bool(e2s(c.delete(*id))),
        ApiOp::BatchDelete { ids } => ApiRes::Count(e2s(c.batch_delete(ids)).map(|n| n as u64)),
        ApiOp::UpdateMeta { id, meta, merge } => ApiRes::Bool(e2s(c.update_metadata(*id, to_hash(meta), *merge))),
        ApiOp::Query { id } | ApiOp::GetEmb { id } => ApiRes::Vector(c.fetch_document(*id).map(|v| bits(&v))),
        ApiOp::GetMeta { id } => ApiRes::MetaOnly(c.fetch_metadata(*id).map(|m| to_btree(&m))),
        ApiOp::BulkQuery { ids, .. } => ApiRes::Docs(c.bulk_fetch(ids).into_iter().map(|o| o.map(|(v, m)| (bits(&v), to_btree(&m)))).collect()),
        ApiOp::Exists { id } => ApiRes::Exists(c.exists(*id)),
        ApiOp::Knn { q, k } => ApiRes::Hits(e2s(c.knn_search(&unbits(q), *k)).map(|r| r.into_iter().map(|x| (x.doc_id, x.distance.to_bits())).collect())),
        _ => exec(b, op),
    }
}

pub fn exec(b: &Built, op: &ApiOp) -> ApiRes {
    let e = &b.engine;
    match op {
        ApiOp::Insert { id, vec, meta } => ApiRes::Unit(e2s(e.insert(*id, unbits(vec), to_hash(meta)))),
        ApiOp::Delete { id } => ApiRes::Bool(e2s(e.delete(*id))),
        ApiOp::BatchDelete { ids } => ApiRes::Count(e2s(e.batch_delete(ids))),
        ApiOp::BatchDeleteByFilter { key, value } => ApiRes::Count(e2s(e.batch_delete_by_metadata_filter(&exact_filter(key, value)))),
        ApiOp::UpdateMeta { id, meta, merge } => ApiRes::Bool(e2s(e.update_metadata(*id, to_hash(meta), *merge))),
        ApiOp::BulkLoad { docs } => ApiRes::Count(e2s(e.bulk_load_cold_tier(docs.iter().map(|(i, v, m)| (*i, unbits(v), to_hash(m))).collect()).map(|r| r.0))),
        ApiOp::Query { id } => ApiRes::Vector(e.query(*id, None).map(|v| bits(&v))),
        ApiOp::BulkQuery { ids, emb } => ApiRes::Docs(e.bulk_query(ids, *emb).into_iter().map(|o| o.map(|(v, m)| (bits(&v), to_btree(&m)))).collect()),
        ApiOp::GetDocMeta { id } => ApiRes::Doc(e.get_document_with_metadata(*id).map(|(v, m)| (bits(&v), to_btree(&m)))),
        ApiOp::GetEmb { id } => ApiRes::Vector(e.get_embedding_cache_aware(*id).map(|v| bits(&v))),
        ApiOp::GetMeta { id } => ApiRes::MetaOnly(e.get_metadata(*id).map(|m| to_btree(&m))),
        ApiOp::Exists { id } => ApiRes::Exists(e.exists(*id)),
        ApiOp::Knn { q, k } => ApiRes::Hits(e2s(e.knn_search(&unbits(q), *k)).map(|r| r.into_iter().map(|x| (x.doc_id, x.distance.to_bits())).collect())),
        ApiOp::KnnBatch { qs, k } => {
            let qv: Vec<Vec<f32>> = qs.iter().map(|q| unbits(q)).collect();
            ApiRes::HitsBatch(e2s(e.knn_search_batch_with_ef(&qv, *k, None)).map(|rr| rr.into_iter().map(|r| r.into_iter().map(|x| (x.doc_id, x.distance.to_bits())).collect()).collect()))
        }
        ApiOp::Flush { force } => ApiRes::Count(e2s(e.flush_hot_tier(*force)).map(|n| n as u64)),
        ApiOp::Stats => {
            let _ = e.stats();
            ApiRes::Other
        }
        ApiOp::CacheSize => ApiRes::Count(Ok(e.cache_size() as u64)),
        ApiOp::HscStats => {
            let _ = e.hsc_lifecycle_stats();
            ApiRes::Other
        }
        ApiOp::Snapshot => ApiRes::Unit(e2s(e.cold_tier().create_snapshot())),
        ApiOp::IdsForFilter { key, value } => {
            let mut ids = e.cold_tier().ids_for_metadata_filter(&exact_filter(key, value));
            ids.sort_unstable();
            ApiRes::Ids(ids)
        }
        ApiOp::UpdatePredictor => {
            if let (Some(l), Some(p)) = (&b.learned, trained_predictor(b.cfg.cache_cap, &[0, 1])) {
                l.update_predictor(p);
            }
            ApiRes::Other
        }
        ApiOp::LogAccess { ids } => {
            let _ = e.log_served_search_accesses(ids);
            if let Some(l) = &b.logger {
                let _ = l.read().len();
            }
            ApiRes::Other
        }
        ApiOp::StrategyStats => {
            let _ = b.strat.stats();
            let _ = b.strat.size();
            let _ = b.qc.stats();
            ApiRes::Other
        }
        ApiOp::Gap { ns } => {
            crate::simlibc::clock_advance_ns(*ns);
            ApiRes::Other
        }
    }
}

/// Generator of one API operation from the full catalogue (weights tunable by the caller through `mix`).
pub fn gen_op(rng: &mut crate::rng::Rng, c: &TCfg, universe: u64, write_no: &mut u64, mix: &str) -> ApiOp {
    let id = rng.below(universe);
    let mut mk_insert = |rng: &mut crate::rng::Rng, id: u64| {
        *write_no += 1;
        // a fifth of the writes are versions of the document that differ from each other in the last lane only
        let v = if rng.chance(1, 5) {
            let mut v = gen_vector(&mut crate::rng::Rng::new(0xBA5E ^ id), c.dim, 1000 + id);
            let l = v.len() - 1;
            v[l] += 0.003 * (*write_no as f32);
            v
        } else {
            gen_vector(rng, c.dim, *write_no)
        };
        ApiOp::Insert { id, vec: bits(&v), meta: gen_meta(rng, *write_no) }
    };
    let r = rng.below(100);
    match mix {
        // writers, snapshots and filter reads against the cold tier
        "cold" => match r {
            0..=24 => mk_insert(rng, id),
            25..=39 => ApiOp::Delete { id },
            40..=46 => ApiOp::BatchDelete { ids: (0..rng.range(1, 3)).map(|_| rng.below(universe + 1)).collect() },
            47..=58 => {
                *write_no += 1;
                ApiOp::UpdateMeta { id, meta: gen_meta(rng, *write_no), merge: rng.chance(1, 2) }
            }
            59..=74 => ApiOp::Snapshot,
            75..=79 => ApiOp::Query { id },
            80..=84 => ApiOp::BulkQuery { ids: vec![id, rng.below(universe)], emb: true },
            85..=89 => {
                *write_no += 1;
                ApiOp::Knn { q: bits(&gen_vector(rng, c.dim, *write_no)), k: 2 }
            }
            90..=93 => ApiOp::IdsForFilter { key: if rng.chance(1, 3) { NOT_WITHOUT_OPERAND.into() } else { "k".into() }, value: "5".into() },
            94..=96 => ApiOp::GetMeta { id },
            _ => ApiOp::Exists { id },
        },
        "point" => match r {
            0..=29 => mk_insert(rng, id),
            30..=44 => ApiOp::Delete { id },
            45..=59 => ApiOp::Query { id },
            60..=69 => ApiOp::GetDocMeta { id },
            70..=79 => ApiOp::BulkQuery { ids: vec![id, rng.below(universe)], emb: true },
            80..=87 => ApiOp::GetEmb { id },
            88..=93 => ApiOp::Exists { id },
            _ => ApiOp::GetMeta { id },
        },
        _ => match r {
            0..=19 => mk_insert(rng, id),
            20..=27 => ApiOp::Delete { id },
            28..=31 => ApiOp::BatchDelete { ids: (0..rng.range(1, 3)).map(|_| rng.below(universe + 1)).collect() },
            32..=34 => ApiOp::BatchDeleteByFilter { key: if rng.chance(1, 4) { NOT_WITHOUT_OPERAND.into() } else { "k".into() }, value: rng.pick(&["5", "a", "10"]).to_string() },
            35..=40 => {
                *write_no += 1;
                ApiOp::UpdateMeta { id, meta: gen_meta(rng, *write_no), merge: rng.chance(1, 2) }
            }
            41..=44 => {
                let n = rng.range(1, 3);
                let docs = (0..n)
                    .map(|_| {
                        *write_no += 1;
                        (rng.below(universe), bits(&gen_vector(rng, c.dim, *write_no)), gen_meta(rng, *write_no))
                    })
                    .collect();
                ApiOp::BulkLoad { docs }
            }
            45..=52 => ApiOp::Query { id },
            53..=57 => ApiOp::BulkQuery { ids: vec![id, rng.below(universe), rng.below(universe)], emb: rng.chance(2, 3) },
            58..=61 => ApiOp::GetDocMeta { id },
            62..=64 => ApiOp::GetEmb { id },
            65..=66 => ApiOp::GetMeta { id },
            67..=68 => ApiOp::Exists { id },
            69..=76 => {
                *write_no += 1;
                ApiOp::Knn { q: bits(&gen_vector(rng, c.dim, *write_no)), k: *rng.pick(&[1usize, 2, 5]) }
            }
            77..=79 => {
                *write_no += 2;
                ApiOp::KnnBatch { qs: vec![bits(&gen_vector(rng, c.dim, *write_no)), bits(&gen_vector(rng, c.dim, *write_no + 1))], k: 2 }
            }
            80..=84 => ApiOp::Flush { force: rng.chance(2, 3) },
            85..=86 => ApiOp::Stats,
            87 => ApiOp::CacheSize,
            88 => ApiOp::HscStats,
            89..=91 => ApiOp::Snapshot,
            92..=93 => ApiOp::IdsForFilter { key: if rng.chance(1, 3) { NOT_WITHOUT_OPERAND.into() } else { "k".into() }, value: "5".into() },
            94..=95 => ApiOp::UpdatePredictor,
            96..=97 => ApiOp::LogAccess { ids: vec![id, rng.below(universe)] },
            _ => ApiOp::StrategyStats,
        },
    }
}

// ================================================================================================
// Timed searches with the "slow tier" fault (E2 stall gate): a blocking-pool thread is parked at its first
// acquisition of a lock of the chosen tier, the paused tokio clock is advanced past the tier's timeout, the engine
// takes its timeout branch, and only then is the parked thread released. Dropping the runtime waits for the
// blocking tasks, so the engine is quiescent again before the next step. No source hook is involved.

#[derive(Clone, Copy, Debug, Default, PartialEq, Serialize, Deserialize)]
pub struct Stall {
    pub hot: bool,
    pub cold: bool,
}

#[derive(Clone, Debug, Default)]
pub struct Degradation {
    pub hot_timeouts: u64,
    pub cold_timeouts: u64,
    pub breaker_rejections: u64,
    pub worker_saturation: u64,
    pub partial_results: u64,
    pub queries_rejected: u64,
    pub threads_stalled: u64,
}

impl Degradation {
    pub fn any(&self) -> bool {
        self.hot_timeouts + self.cold_timeouts + self.breaker_rejections + self.worker_saturation + self.partial_results + self.queries_rejected > 0
    }
    pub fn label(&self) -> String {
        let mut v = Vec::new();
        for (n, x) in [("hot_timeout", self.hot_timeouts), ("cold_timeout", self.cold_timeouts), ("breaker_open", self.breaker_rejections), ("worker_saturation", self.worker_saturation), ("load_shed", self.queries_rejected)] {
            if x > 0 {
                v.push(n);
            }
        }
        if v.is_empty() {
            if self.partial_results > 0 { "partial".to_string() } else { "none".to_string() }
        } else {
            v.join("+")
        }
    }
}

pub fn timed_runtime() -> tokio::runtime::Runtime {
    tokio::runtime::Builder::new_current_thread().enable_time().start_paused(true).thread_name(plsim::stall::STALLABLE_PREFIX).build().expect("runtime")
}

pub type TimedResult = Result<(Vec<kyrodb_engine::SearchResult>, kyrodb_engine::SearchExecutionPath), String>;

/// One timed search; `stall` names the tiers whose blocking search is held back until its timeout has fired.
/// Must be called from a thread the scheduler does not control. The caller keeps the simulated clock frozen.
pub fn timed_search(b: &Built, q: &[f32], k: usize, ef: Option<usize>, scope: u64, stall: Stall) -> (TimedResult, Degradation) {
    let before = b.engine.stats();
    let mut armed = false;
    let notify = Arc::new(tokio::sync::Notify::new());
    if stall.hot || stall.cold {
        let mut locks = std::collections::BTreeSet::new();
        let ((), hot_set) = plsim::stall::record(|| {
            let _ = b.engine.hot_tier().knn_search_with_cancel(q, 1, None);
        });
        let ((), cold_set) = plsim::stall::record(|| {
            let _ = b.engine.cold_tier().knn_search_with_ef_cancel(q, 1, None, None);
        });
        if stall.hot {
            locks.extend(hot_set.difference(&cold_set).copied());
        }
        if stall.cold {
            locks.extend(cold_set.difference(&hot_set).copied());
        }
        if !locks.is_empty() {
            let n = Arc::clone(&notify);
            plsim::stall::arm(locks, Some(Box::new(move || n.notify_one())));
            armed = true;
        }
    }
    let rt = timed_runtime();
    let eng = Arc::clone(&b.engine);
    let step_ms = b.cfg.hot_timeout_ms.unwrap_or(50).max(b.cfg.cold_timeout_ms.unwrap_or(1000)) + 1;
    let qq = q.to_vec();
    let n2 = Arc::clone(&notify);
    let res = rt.block_on(async move {
        let search = eng.knn_search_with_timeouts_with_ef_scoped(&qq, k, ef, scope);
        tokio::pin!(search);
        loop {
            // auto-advance of the paused clock is inhibited while a blocking task runs, so the runtime really waits
            // here: for the search, or for a blocking thread to park at the gate
            tokio::select! {
                biased;
                r = &mut search => break r,
                _ = n2.notified() => {
                    tokio::time::advance(Duration::from_millis(step_ms)).await;
                }
            }
        }
    });
    let stalled = if armed { plsim::stall::ever_stalled() } else { 0 };
    if armed {
        plsim::stall::release();
    }
    drop(rt); // waits for the blocking tasks: quiescent before the next step
    let after = b.engine.stats();
    let d = Degradation {
        hot_timeouts: after.hot_tier_timeouts - before.hot_tier_timeouts,
        cold_timeouts: after.cold_tier_timeouts - before.cold_tier_timeouts,
        breaker_rejections: after.circuit_breaker_rejections - before.circuit_breaker_rejections,
        worker_saturation: after.worker_saturation_count - before.worker_saturation_count,
        partial_results: after.partial_results_returned - before.partial_results_returned,
        queries_rejected: after.queries_rejected - before.queries_rejected,
        threads_stalled: stalled,
    };
    (res.map_err(|e| format!("{:#}", e)), d)
}
