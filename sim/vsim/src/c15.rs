//! C15: every request gets an answer and invalid input is refused without effect.
//! The real server runs in-process (E3, auth on, one tenant). A seeded script of structurally generated requests
//! (every RPC x every field x boundary / pathological values, singly and in streams mixing valid and invalid items,
//! undecodable frames, unknown methods) is sent; after every call: a gRPC status was delivered, the canonical
//! collection (ids, stored vectors, metadata) changed exactly as the valid part of the request allows, a sentinel
//! document is still served; at the end the server restarts (persistent configs) and the collection is compared again.

use crate::c11::{ref_matches, F};
use crate::common::*;
use crate::hist::{on_fresh_thread, reset_env};
use crate::report::{Summary, Violation};
use crate::rng::Rng;
use crate::rpc::{self, api_key, Body, Cred, Fx, Item, Resp, Rpc, SearchSpec};
use crate::server::vharness::{Harness, ServerCfg, TenantSpec};
use crate::simlibc;
use serde::{Deserialize, Serialize};
use serde_json::json;
use std::collections::{BTreeMap, BTreeSet};

const SENTINEL: u64 = 1000;
const MAX_DIM: usize = 4096;
const MAX_BATCH: usize = 10_000;

#[derive(Clone, Debug, PartialEq, Serialize, Deserialize)]
pub struct Cfg15 {
    pub dim: usize,
    pub metric: u8,
    pub persist: bool,
    pub hot_soft: usize,
}

#[derive(Clone, Debug, PartialEq, Serialize, Deserialize)]
pub struct Plan {
    pub cfg: Cfg15,
    pub calls: Vec<Rpc>,
    pub env_seed: u64,
}

#[derive(Clone, Debug, Serialize, Deserialize)]
pub struct Replay {
    pub check: String,
    pub plan: Plan,
    pub clause: String,
}

#[derive(Clone, Copy, Debug, PartialEq)]
pub enum Cls {
    Valid,
    Invalid,
    /// may be refused or accepted (zero vector, overflowing norm, denormals); if accepted the stored vector must be finite
    Border,
}

pub fn vec_class(v: &[f32], dim: usize) -> (Cls, &'static str) {
    if v.is_empty() {
        return (Cls::Invalid, "empty_vector");
    }
    if v.len() > MAX_DIM {
        return (Cls::Invalid, "oversized_vector");
    }
    if v.len() != dim {
        return (Cls::Invalid, "wrong_dimension");
    }
    if v.iter().any(|x| !x.is_finite()) {
        return (Cls::Invalid, "non_finite_vector");
    }
    let ns: f64 = v.iter().map(|x| (*x as f64) * (*x as f64)).sum();
    if ns == 0.0 {
        return (Cls::Border, "zero_vector");
    }
    if ns > 1e37 {
        return (Cls::Border, "overflowing_vector");
    }
    if ns < 1e-30 {
        return (Cls::Border, "denormal_vector");
    }
    (Cls::Valid, "valid")
}

pub fn item_class(it: &Item, dim: usize) -> (Cls, &'static str) {
    if it.id == 0 {
        return (Cls::Invalid, "id_zero");
    }
    if it.id > u32::MAX as u64 {
        return (Cls::Invalid, "id_beyond_tenant_range");
    }
    vec_class(&unbits(&it.vec), dim)
}

// ------------------------------------------------------------------------------------------------ generation

fn good_vec(rng: &mut Rng, dim: usize) -> Vec<f32> {
    let mut v: Vec<f32> = (0..dim).map(|_| (rng.below(9) as f32 - 4.0) / 4.0).collect();
    let lane = rng.below(dim as u64) as usize;
    v[lane] += 1.5;
    v
}

fn bad_vec(rng: &mut Rng, dim: usize) -> Vec<f32> {
    let mut v = good_vec(rng, dim);
    match rng.below(14) {
        0 => vec![],
        1 => vec![0.25; MAX_DIM + 1],
        2 => vec![0.25; MAX_DIM],
        3 => vec![1.0; dim - 1],
        4 => vec![1.0; dim + 1],
        5 => {
            v[rng.below(dim as u64) as usize] = f32::NAN;
            v
        }
        6 => {
            v[rng.below(dim as u64) as usize] = f32::INFINITY;
            v
        }
        7 => {
            v[rng.below(dim as u64) as usize] = f32::NEG_INFINITY;
            v
        }
        8 => vec![0.0; dim],
        9 => vec![-0.0; dim],
        10 => vec![f32::MAX; dim],
        11 => vec![f32::from_bits(1); dim], // smallest denormal
        12 => {
            v[0] = 3.0e38;
            v[1] = -3.0e38;
            v
        }
        _ => vec![1.0],
    }
}

fn gen_id(rng: &mut Rng) -> u64 {
    match rng.below(14) {
        0 => 0,
        1 => u32::MAX as u64,
        2 => u32::MAX as u64 + 1,
        3 => u64::MAX,
        // low 32 bits alone would be a valid id
        4 => (1u64 << 32) + rng.range(1, 6),
        5 => (1u64 << 48) | rng.range(1, 6),
        _ => rng.range(1, 6),
    }
}

fn gen_meta15(rng: &mut Rng, w: u64) -> Meta {
    let mut m = Meta::new();
    m.insert("w".into(), w.to_string());
    match rng.below(10) {
        0 => {
            m.insert("big".into(), "x".repeat(70_000));
        }
        1 => {
            m.insert("".into(), "empty-key".into());
        }
        2 => {
            for i in 0..200 {
                m.insert(format!("key{}", i), i.to_string());
            }
        }
        3 => {
            m.insert("__tenant_idx__".into(), "7".into());
        }
        _ => {
            m.insert("k".into(), rng.pick(&["5", "a"]).to_string());
        }
    }
    m
}

fn gen_item(rng: &mut Rng, c: &Cfg15, w: &mut u64, poison: bool) -> Item {
    *w += 1;
    let (id, vec) = if poison {
        match rng.below(3) {
            0 => (gen_id(rng), good_vec(rng, c.dim)),
            1 => (rng.range(1, 6), bad_vec(rng, c.dim)),
            _ => (gen_id(rng), bad_vec(rng, c.dim)),
        }
    } else {
        (rng.range(1, 6), good_vec(rng, c.dim))
    };
    Item { id, vec: bits(&vec), meta: gen_meta15(rng, *w), ns: String::new() }
}

fn gen_filter15(rng: &mut Rng) -> Fx {
    let ex = F::Exact { key: "k".into(), value: "5".into() };
    match rng.below(14) {
        0 => Fx::F(F::NoFilter),
        1 => Fx::F(F::Range { key: "w".into(), bound: None }),
        2 => Fx::F(F::Not(None)),
        3 => Fx::F(F::And(vec![])),
        4 => Fx::F(F::Or(vec![])),
        5 => match rng.below(6) {
            0 => Fx::F(F::In { key: "k".into(), values: vec![] }),
            // composite filters whose operands are messages with the oneof unset
            1 => Fx::F(F::Or(vec![F::NoFilter])),
            2 => Fx::F(F::Or(vec![F::NoFilter, F::NoFilter])),
            3 => Fx::F(F::And(vec![F::NoFilter])),
            4 => Fx::F(F::Not(Some(Box::new(F::NoFilter)))),
            _ => Fx::F(F::And(vec![F::Exact { key: "k".into(), value: "5".into() }, F::Or(vec![F::Or(vec![F::NoFilter])])])),
        },
        6 => Fx::Nest { depth: *rng.pick(&[20u32, 49, 60, 90]), kind: rng.below(3) as u8, leaf: ex },
        7 => Fx::Nest { depth: *rng.pick(&[99u32, 100, 101, 150]), kind: rng.below(3) as u8, leaf: ex },
        8 => Fx::Nest { depth: *rng.pick(&[1000u32, 5000]), kind: rng.below(3) as u8, leaf: ex },
        9 => Fx::F(F::And((0..300).map(|i| F::Exact { key: "w".into(), value: i.to_string() }).collect())),
        10 => Fx::F(F::In { key: "k".into(), values: (0..2000).map(|i| i.to_string()).collect() }),
        11 => Fx::F(F::Range { key: "w".into(), bound: Some((rng.below(4) as u8, rng.pick(&["NaN", "inf", "", "1e999", "5"]).to_string())) }),
        _ => Fx::F(crate::c11::gen_filter(rng, 3)),
    }
}

fn gen_search(rng: &mut Rng, c: &Cfg15, poison: bool) -> SearchSpec {
    let mut s = SearchSpec { q: bits(&good_vec(rng, c.dim)), k: *rng.pick(&[1u32, 3, 10]), min_score: 0, ns: String::new(), emb: rng.chance(1, 3), ef: 0, filter: None, legacy: Meta::new() };
    if poison {
        for _ in 0..rng.range(1, 2) {
            match rng.below(6) {
                0 => s.q = bits(&bad_vec(rng, c.dim)),
                // besides the bounds themselves: values whose low 8 / 16 / 20 bits alone would be in range
                1 => s.k = *rng.pick(&[0u32, 1000, 1001, u32::MAX, 999, 256, 65_536, 65_537, 65_536 + 1000, 131_072, (1 << 20) | 3, 1 << 20]),
                2 => s.ef = *rng.pick(&[1u32, 10_000, 10_001, u32::MAX, 65_536, 65_536 + 10, 65_536 + 10_000, (1 << 20) | 64]),
                3 => s.min_score = rng.pick(&[f32::NAN, f32::INFINITY, f32::NEG_INFINITY, 2.0, -1.0, 1e-40]).to_bits(),
                4 => s.filter = Some(gen_filter15(rng)),
                _ => {
                    s.legacy.insert("k".into(), "5".into());
                    s.legacy.insert("".into(), "".into());
                }
            }
        }
    }
    s
}

/// Frames that can never decode as any protobuf message.
fn bad_frames() -> Vec<Vec<u8>> {
    vec![
        vec![0x12, 0xFF, 0x01, 0x02],                                            // length-delimited field longer than the buffer
        vec![0x0F],                                                              // wire type 7
        vec![0x08, 0xFF, 0xFF, 0xFF, 0xFF, 0xFF, 0xFF, 0xFF, 0xFF, 0xFF, 0xFF, 0x7F], // over-long varint
        vec![0x12, 0x03, 0x00, 0x00],                                            // truncated packed floats
        vec![0x00, 0x00],                                                        // field number 0
        vec![0x0A],                                                              // tag without payload
    ]
}

const METHODS: [&str; 11] = ["Insert", "BulkInsert", "BulkLoadHnsw", "Delete", "UpdateMetadata", "Query", "BulkQuery", "Search", "BulkSearch", "BatchDelete", "FlushHotTier"];

fn gen_call(rng: &mut Rng, c: &Cfg15, w: &mut u64, big_ok: bool) -> Rpc {
    let poison = rng.chance(2, 3);
    match rng.below(100) {
        0..=15 => Rpc::Insert(gen_item(rng, c, w, poison)),
        16..=25 => {
            if big_ok && rng.chance(1, 12) {
                // oversized stream: 3 ordinary items, refused filler up to the batch limit, then items past the limit
                let mut items: Vec<Item> = (0..3).map(|_| { let po = rng.chance(1, 2); gen_item(rng, c, w, po) }).collect();
                let filler = Item { id: 0, vec: vec![], meta: Meta::new(), ns: String::new() };
                while items.len() < MAX_BATCH {
                    items.push(filler.clone());
                }
                for _ in 0..3 {
                    items.push(gen_item(rng, c, w, false));
                }
                Rpc::BulkInsert(items)
            } else {
                let n = rng.range(0, 6);
                Rpc::BulkInsert((0..n).map(|_| { let po = poison && rng.chance(1, 2); gen_item(rng, c, w, po) }).collect())
            }
        }
        26..=35 => {
            let n = rng.range(0, 6);
            Rpc::BulkLoad((0..n).map(|_| { let po = poison && rng.chance(1, 2); gen_item(rng, c, w, po) }).collect())
        }
        36..=42 => Rpc::Delete { id: if poison { gen_id(rng) } else { rng.range(1, 6) }, ns: String::new() },
        43..=49 => {
            *w += 1;
            Rpc::UpdateMeta { id: if poison { gen_id(rng) } else { rng.range(1, 6) }, meta: gen_meta15(rng, *w), merge: rng.chance(1, 2), ns: String::new() }
        }
        50..=55 => Rpc::Query { id: if poison { gen_id(rng) } else { rng.range(1, 6) }, emb: rng.chance(1, 2), ns: String::new() },
        56..=61 => {
            let ids: Vec<u64> = if poison && big_ok && rng.chance(1, 6) {
                (0..MAX_BATCH as u64 + 1).map(|i| i % 7).collect()
            } else {
                (0..rng.range(0, 6)).map(|_| if poison { gen_id(rng) } else { rng.range(1, 6) }).collect()
            };
            Rpc::BulkQuery { ids, emb: rng.chance(1, 2), ns: String::new() }
        }
        62..=74 => Rpc::Search(gen_search(rng, c, poison)),
        75..=80 => {
            let n = rng.range(0, 4);
            Rpc::BulkSearch((0..n).map(|_| { let po = poison && rng.chance(1, 2); gen_search(rng, c, po) }).collect())
        }
        81..=88 => match rng.below(5) {
            0 => Rpc::BatchDeleteNone { ns: String::new() },
            1 | 2 => {
                let ids: Vec<u64> = if poison && big_ok && rng.chance(1, 6) {
                    (0..MAX_BATCH as u64 + 1).map(|i| 1 + i % 6).collect()
                } else {
                    (0..rng.range(0, 5)).map(|_| if poison { gen_id(rng) } else { rng.range(1, 6) }).collect()
                };
                Rpc::BatchDeleteIds { ids, ns: String::new() }
            }
            _ => Rpc::BatchDeleteFilter { f: gen_filter15(rng), ns: String::new() },
        },
        89..=90 => Rpc::Flush { force: rng.chance(1, 2) },
        91..=97 => {
            let frames = bad_frames();
            Rpc::RawBytes { method: rng.pick(&METHODS).to_string(), bytes: frames[rng.below(frames.len() as u64) as usize].clone() }
        }
        _ => Rpc::RawBytes { method: rng.pick(&["Nope", "insert", "", "Health/x"]).to_string(), bytes: vec![] },
    }
}

pub fn gen_plan(seed: u64, run: u64, tier: &str) -> Plan {
    let mut rng = Rng::for_run(seed, "C15", run);
    let cfg = Cfg15 { dim: *rng.pick(&[4usize, 4, 8]), metric: rng.below(3) as u8, persist: rng.chance(1, 3), hot_soft: rng.range(2, 8) as usize };
    let n = if tier == "thorough" { rng.range(6, 40) } else { rng.range(4, 18) } as usize;
    let mut w = 0u64;
    let big_ok = rng.chance(1, 8);
    let calls = (0..n).map(|_| gen_call(&mut rng, &cfg, &mut w, big_ok)).collect();
    Plan { cfg, calls, env_seed: rng.next() }
}

// ------------------------------------------------------------------------------------------------ oracle

#[derive(Clone, Debug, PartialEq)]
pub struct Doc {
    pub vec: Vec<u32>, // stored bits (ground truth) -- compared through pin_vector against inputs
    pub meta: Meta,    // full metadata
}
pub type Census = BTreeMap<u64, Doc>; // local id -> doc

fn census(h: &Harness, idx: u32) -> Result<Census, String> {
    let mut c = Census::new();
    for (gid, v, m) in h.all_docs_full() {
        if (gid >> 32) as u32 != idx {
            return Err(format!("canonical doc {:#x} lies outside the only tenant's id range", gid));
        }
        c.insert(gid & 0xFFFF_FFFF, Doc { vec: bits(&v), meta: to_btree(&m) });
    }
    Ok(c)
}

fn public(m: &Meta) -> Meta {
    m.iter().filter(|(k, _)| !crate::c10::RESERVED.contains(&k.as_str())).map(|(k, v)| (k.clone(), v.clone())).collect()
}

fn doc_is_item(metric: u8, d: &Doc, it: &Item) -> bool {
    if public(&d.meta) != public(&it.meta) {
        return false;
    }
    let stored = unbits(&d.vec);
    if stored.iter().any(|x| !x.is_finite()) {
        return false;
    }
    match item_class(it, stored.len()).0 {
        Cls::Valid => pin_vector(metric, &it.vec, &stored).is_ok(),
        // accepted borderline input: any finite stored form of the same dimension
        Cls::Border => stored.len() == it.vec.len(),
        Cls::Invalid => false,
    }
}

pub struct Problem {
    pub clause: String,
    pub msg: String,
    pub facts: BTreeMap<String, String>,
    pub step: usize,
}
fn prob(clause: &str, step: usize, msg: String, facts: &[(&str, &str)]) -> Problem {
    Problem { clause: clause.into(), msg, facts: facts.iter().map(|(a, b)| (a.to_string(), b.to_string())).collect(), step }
}

fn refused(resp: &Resp) -> bool {
    if resp.code != 0 {
        return true;
    }
    match &resp.body {
        Body::Insert { success, inserted, .. } => !*success && *inserted == 0,
        Body::BulkLoad { success, loaded, .. } => !*success && *loaded == 0,
        _ => false,
    }
}

fn search_class(s: &SearchSpec, dim: usize) -> (Cls, &'static str) {
    let (vc, why) = vec_class(&unbits(&s.q), dim);
    if vc == Cls::Invalid {
        return (Cls::Invalid, why);
    }
    if s.k == 0 {
        return (Cls::Invalid, "k_zero");
    }
    if s.k > 1000 {
        return (Cls::Invalid, "k_above_maximum");
    }
    if s.ef > 10_000 {
        return (Cls::Invalid, "ef_above_maximum");
    }
    if let Some(Fx::Nest { depth, .. }) = &s.filter {
        if *depth > 100 {
            return (Cls::Invalid, "filter_nested_beyond_decoder_limit");
        }
        if *depth >= 49 {
            return (Cls::Border, "filter_nested_deep");
        }
    }
    let ms = f32::from_bits(s.min_score);
    if vc == Cls::Border || !ms.is_finite() || s.filter.is_some() {
        return (Cls::Border, "borderline");
    }
    (Cls::Valid, "valid")
}

fn nest_to_f(f: &Fx) -> Option<F> {
    match f {
        Fx::F(f) => Some(f.clone()),
        Fx::Nest { depth, kind, leaf } => {
            if *depth > 90 {
                return None;
            }
            let mut cur = leaf.clone();
            for _ in 0..*depth {
                cur = match kind {
                    0 => F::Not(Some(Box::new(cur))),
                    1 => F::And(vec![cur]),
                    _ => F::Or(vec![cur]),
                };
            }
            Some(cur)
        }
    }
}

/// What the collection may look like after `r`, given `before`. Returns Err(problem) or Ok(()).
fn judge_call(c: &Cfg15, i: usize, r: &Rpc, resp: &Resp, before: &Census, after: &Census) -> Option<Problem> {
    let kind = r.kind();
    // (1) an answer
    if resp.code < 0 {
        return Some(prob("no_status_delivered", i, format!("{} (step {}): no gRPC status in headers or trailers (http {}, body {:?})", kind, i, resp.http, resp.body), &[("rpc", kind)]));
    }
    if let Body::Undecodable(e) = &resp.body {
        return Some(prob("no_status_delivered", i, format!("{} (step {}): response frame does not decode: {}", kind, i, e), &[("rpc", kind), ("what", "undecodable_response")]));
    }
    let unchanged = |why: &str| -> Option<Problem> {
        if before != after {
            let changed: Vec<u64> = before.keys().chain(after.keys()).filter(|k| before.get(k) != after.get(k)).cloned().collect::<BTreeSet<_>>().into_iter().collect();
            Some(prob(
                "refused_or_read_only_request_changed_collection",
                i,
                format!("{} (step {}, {}) answered code {} {:?} but documents {:?} changed: before {:?} after {:?}", kind, i, why, resp.code, resp.message, changed, changed.iter().map(|k| before.get(k)).collect::<Vec<_>>(), changed.iter().map(|k| after.get(k)).collect::<Vec<_>>()),
                &[("rpc", kind), ("input", why)],
            ))
        } else {
            None
        }
    };
    let must_refuse = |why: &str| -> Option<Problem> {
        if !refused(resp) {
            Some(prob("invalid_input_not_refused", i, format!("{} (step {}) with {} was answered OK: {:?}", kind, i, why, resp.body), &[("rpc", kind), ("input", why)]))
        } else {
            None
        }
    };
    // per-id acceptability for item streams
    let judge_items = |items: &[Item], sequential: bool| -> Option<Problem> {
        let mut ids: BTreeSet<u64> = before.keys().chain(after.keys()).cloned().collect();
        for it in items {
            if it.id >= 1 && it.id <= u32::MAX as u64 {
                ids.insert(it.id);
            }
        }
        for id in ids {
            let cands: Vec<(usize, &Item, Cls, &'static str)> = items.iter().enumerate().filter(|(_, it)| it.id == id).map(|(n, it)| {
                let (cl, why) = item_class(it, c.dim);
                // items past the batch limit may or may not be looked at
                let cl = if n >= MAX_BATCH && cl == Cls::Valid { Cls::Border } else { cl };
                (n, it, cl, why)
            }).collect();
            let a = after.get(&id);
            let b = before.get(&id);
            let last_valid = cands.iter().rev().find(|x| x.2 == Cls::Valid).map(|x| x.0);
            let mut acceptable = false;
            let mut reasons: Vec<String> = Vec::new();
            if sequential {
                match last_valid {
                    Some(lv) => {
                        for x in cands.iter().filter(|x| x.0 == lv || (x.0 > lv && x.2 == Cls::Border)) {
                            if a.map(|d| doc_is_item(c.metric, d, x.1)).unwrap_or(false) {
                                acceptable = true;
                            }
                        }
                        reasons.push(format!("the last valid item for this id is item #{}", lv));
                    }
                    None => {
                        if a == b {
                            acceptable = true;
                        }
                        for x in cands.iter().filter(|x| x.2 == Cls::Border) {
                            if a.map(|d| doc_is_item(c.metric, d, x.1)).unwrap_or(false) {
                                acceptable = true;
                            }
                        }
                    }
                }
            } else {
                // one batch: which of several acceptable copies of an id wins is not judged
                let any_valid = last_valid.is_some();
                if !any_valid && a == b {
                    acceptable = true;
                }
                for x in cands.iter().filter(|x| x.2 != Cls::Invalid) {
                    if a.map(|d| doc_is_item(c.metric, d, x.1)).unwrap_or(false) {
                        acceptable = true;
                    }
                }
            }
            if !acceptable {
                let invalid_applied = cands.iter().find(|x| x.2 == Cls::Invalid && a.map(|d| public(&d.meta) == public(&x.1.meta)).unwrap_or(false));
                if let Some(x) = invalid_applied {
                    return Some(prob(
                        "refused_item_changed_collection",
                        i,
                        format!("{} (step {}): item #{} for id {} is invalid ({}) but the collection now holds it: {:?} (stored vector {:?})", kind, i, x.0, id, x.3, a.map(|d| public(&d.meta)), a.map(|d| unbits(&d.vec))),
                        &[("rpc", kind), ("input", x.3)],
                    ));
                }
                let whys: Vec<&str> = cands.iter().map(|x| x.3).collect();
                return Some(prob(
                    "collection_differs_from_valid_part_of_request",
                    i,
                    format!("{} (step {}): id {} before {:?}, after {:?}; items for this id: {:?} {}; answer code {} {:?}", kind, i, id, b.map(|d| public(&d.meta)), a.map(|d| (public(&d.meta), unbits(&d.vec))), whys, reasons.join("; "), resp.code, resp.body),
                    &[("rpc", kind)],
                ));
            }
        }
        None
    };
    match r {
        Rpc::Insert(it) => {
            let (cl, why) = item_class(it, c.dim);
            match cl {
                Cls::Invalid => must_refuse(why).or_else(|| unchanged(why)),
                _ => {
                    if refused(resp) {
                        if cl == Cls::Valid {
                            return Some(prob("valid_request_refused", i, format!("valid Insert of id {} (step {}) answered code {} {:?}", it.id, i, resp.code, resp.message), &[("rpc", kind)]));
                        }
                        unchanged(why)
                    } else {
                        judge_items(std::slice::from_ref(it), true)
                    }
                }
            }
        }
        Rpc::BulkInsert(items) | Rpc::BulkLoad(items) => {
            if resp.code != 0 {
                // the whole stream was answered with an error status: per-item outcome unknown, but invalid items never apply
                return judge_items_loose(c, i, kind, items, before, after);
            }
            let sequential = matches!(r, Rpc::BulkInsert(_));
            if let Some(p) = judge_items(items, sequential) {
                return Some(p);
            }
            let classes: Vec<Cls> = items.iter().enumerate().map(|(n, it)| if n >= MAX_BATCH { Cls::Border } else { item_class(it, c.dim).0 }).collect();
            let valid = classes.iter().filter(|x| **x == Cls::Valid).count() as u64;
            let border = classes.iter().filter(|x| **x == Cls::Border).count() as u64;
            let (ok_n, fail_n) = match &resp.body {
                Body::Insert { inserted, failed, .. } => (*inserted, *failed),
                Body::BulkLoad { loaded, failed, .. } => (*loaded, *failed),
                _ => return Some(prob("no_status_delivered", i, format!("{} (step {}): OK status without a response message", kind, i), &[("rpc", kind), ("what", "missing_response")])),
            };
            let dup_ids = {
                let mut seen = BTreeSet::new();
                items.iter().filter(|it| item_class(it, c.dim).0 != Cls::Invalid).any(|it| !seen.insert(it.id))
            };
            let counts_judged = sequential || !dup_ids;
            if counts_judged && items.len() <= MAX_BATCH && (ok_n < valid || ok_n > valid + border || ok_n + fail_n != items.len() as u64) {
                return Some(prob(
                    "per_item_outcome_counts_wrong",
                    i,
                    format!("{} (step {}): {} items of which {} valid, {} borderline; answer reports {} accepted, {} failed", kind, i, items.len(), valid, border, ok_n, fail_n),
                    &[("rpc", kind)],
                ));
            }
            None
        }
        Rpc::Delete { id, .. } => {
            if *id == 0 || *id > u32::MAX as u64 {
                must_refuse("id_out_of_range").or_else(|| unchanged("id_out_of_range"))
            } else if resp.code != 0 {
                Some(prob("valid_request_refused", i, format!("valid Delete of id {} (step {}) answered code {} {:?}", id, i, resp.code, resp.message), &[("rpc", kind)]))
            } else {
                let mut exp = before.clone();
                exp.remove(id);
                if &exp != after {
                    return Some(prob("collection_differs_from_valid_part_of_request", i, format!("Delete of id {} (step {}): expected ids {:?}, collection holds {:?}", id, i, exp.keys().collect::<Vec<_>>(), after.keys().collect::<Vec<_>>()), &[("rpc", kind)]));
                }
                None
            }
        }
        Rpc::UpdateMeta { id, meta, merge, .. } => {
            if *id == 0 || *id > u32::MAX as u64 {
                must_refuse("id_out_of_range").or_else(|| unchanged("id_out_of_range"))
            } else if resp.code != 0 {
                Some(prob("valid_request_refused", i, format!("valid UpdateMetadata of id {} (step {}) answered code {} {:?}", id, i, resp.code, resp.message), &[("rpc", kind)]))
            } else {
                let mut exp = before.clone();
                if let Some(d) = exp.get_mut(id) {
                    let reserved: Meta = d.meta.iter().filter(|(k, _)| crate::c10::RESERVED.contains(&k.as_str())).map(|(k, v)| (k.clone(), v.clone())).collect();
                    let mut newm = if *merge { public(&d.meta) } else { Meta::new() };
                    for (k, v) in public(meta) {
                        newm.insert(k, v);
                    }
                    for (k, v) in reserved {
                        newm.insert(k, v);
                    }
                    d.meta = newm;
                }
                if &exp != after {
                    return Some(prob("collection_differs_from_valid_part_of_request", i, format!("UpdateMetadata of id {} (step {}): expected {:?}, collection holds {:?}", id, i, exp.get(id).map(|d| &d.meta), after.get(id).map(|d| &d.meta)), &[("rpc", kind)]));
                }
                None
            }
        }
        Rpc::Query { id, .. } => {
            if *id == 0 || *id > u32::MAX as u64 {
                must_refuse("id_out_of_range").or_else(|| unchanged("id_out_of_range"))
            } else {
                unchanged("read_only")
            }
        }
        Rpc::BulkQuery { ids, .. } => {
            if ids.len() > MAX_BATCH {
                must_refuse("oversized_batch").or_else(|| unchanged("oversized_batch"))
            } else if ids.iter().any(|id| *id > u32::MAX as u64) {
                must_refuse("id_out_of_range").or_else(|| unchanged("id_out_of_range"))
            } else {
                if resp.code != 0 {
                    return Some(prob("valid_request_refused", i, format!("valid BulkQuery {:?} (step {}) answered code {} {:?}", ids, i, resp.code, resp.message), &[("rpc", kind)]));
                }
                unchanged("read_only")
            }
        }
        Rpc::Search(s) => {
            let (cl, why) = search_class(s, c.dim);
            match cl {
                Cls::Invalid => must_refuse(why).or_else(|| unchanged(why)),
                Cls::Valid if resp.code != 0 => Some(prob("valid_request_refused", i, format!("valid Search (step {}) answered code {} {:?}", i, resp.code, resp.message), &[("rpc", kind)])),
                _ => unchanged("read_only"),
            }
        }
        Rpc::BulkSearch(ss) => {
            let classes: Vec<(Cls, &str)> = ss.iter().map(|s| search_class(s, c.dim)).collect();
            if let Some((_, why)) = classes.iter().find(|x| x.0 == Cls::Invalid) {
                must_refuse(why).or_else(|| unchanged(why))
            } else if classes.iter().all(|x| x.0 == Cls::Valid) {
                match &resp.body {
                    Body::Search(v) if resp.code == 0 && v.len() == ss.len() => unchanged("read_only"),
                    Body::None if resp.code == 0 && ss.is_empty() => unchanged("read_only"),
                    _ => Some(prob("valid_request_refused", i, format!("BulkSearch of {} valid queries (step {}) answered code {} {:?} with {:?}", ss.len(), i, resp.code, resp.message, resp.body), &[("rpc", kind)])),
                }
            } else {
                // borderline items: the stream may be answered with an error status, but an OK status means every
                // request of the stream got its response
                if resp.code == 0 {
                    let n = match &resp.body {
                        Body::Search(v) => v.len(),
                        _ => 0,
                    };
                    if n != ss.len() {
                        return Some(prob("no_status_delivered", i, format!("BulkSearch of {} requests (step {}) ended with status OK after {} responses: {} requests were never answered", ss.len(), i, n, ss.len() - n.min(ss.len())), &[("rpc", kind), ("what", "stream_items_unanswered")]));
                    }
                }
                unchanged("read_only")
            }
        }
        Rpc::BatchDeleteNone { .. } => must_refuse("no_delete_criteria").or_else(|| unchanged("no_delete_criteria")),
        Rpc::BatchDeleteIds { ids, .. } => {
            if ids.len() > MAX_BATCH {
                must_refuse("oversized_batch").or_else(|| unchanged("oversized_batch"))
            } else if ids.iter().any(|id| *id > u32::MAX as u64) {
                must_refuse("id_out_of_range").or_else(|| unchanged("id_out_of_range"))
            } else if resp.code != 0 {
                Some(prob("valid_request_refused", i, format!("valid BatchDelete of ids {:?} (step {}) answered code {} {:?}", ids, i, resp.code, resp.message), &[("rpc", kind)]))
            } else {
                let mut exp = before.clone();
                for id in ids {
                    exp.remove(id);
                }
                if &exp != after {
                    return Some(prob("collection_differs_from_valid_part_of_request", i, format!("BatchDelete of ids {:?} (step {}): expected ids {:?}, collection holds {:?}", ids, i, exp.keys().collect::<Vec<_>>(), after.keys().collect::<Vec<_>>()), &[("rpc", kind)]));
                }
                None
            }
        }
        Rpc::BatchDeleteFilter { f, .. } => {
            if resp.code != 0 {
                return unchanged("refused_filter");
            }
            if let Fx::Nest { depth, .. } = f {
                if *depth > 100 {
                    return must_refuse("filter_nested_beyond_decoder_limit").or_else(|| unchanged("filter_nested_beyond_decoder_limit"));
                }
            }
            match nest_to_f(f) {
                Some(ff) => {
                    let exp: Census = before.iter().filter(|(_, d)| !ref_matches(&ff, &d.meta)).map(|(k, v)| (*k, v.clone())).collect();
                    if &exp != after {
                        return Some(prob("collection_differs_from_valid_part_of_request", i, format!("BatchDelete by filter {} (step {}): expected ids {:?}, collection holds {:?}", ff.shape(), i, exp.keys().collect::<Vec<_>>(), after.keys().collect::<Vec<_>>()), &[("rpc", kind)]));
                    }
                    None
                }
                None => {
                    // accepted very deep filter: whatever it selected, nothing else may change
                    for (id, d) in after {
                        if before.get(id) != Some(d) {
                            return Some(prob("collection_differs_from_valid_part_of_request", i, format!("BatchDelete by deep filter (step {}) created or changed doc {}", i, id), &[("rpc", kind)]));
                        }
                    }
                    None
                }
            }
        }
        Rpc::Flush { .. } => {
            if resp.code != 0 {
                return Some(prob("valid_request_refused", i, format!("FlushHotTier (step {}) answered code {} {:?}", i, resp.code, resp.message), &[("rpc", kind)]));
            }
            unchanged("read_only")
        }
        Rpc::RawBytes { method, .. } => {
            let why = if METHODS.contains(&method.as_str()) { "undecodable_frame" } else { "unknown_method" };
            must_refuse(why).or_else(|| unchanged(why))
        }
    }
}

/// stream answered with an error status: no invalid item may have been applied and nothing unrelated may change
fn judge_items_loose(c: &Cfg15, i: usize, kind: &str, items: &[Item], before: &Census, after: &Census) -> Option<Problem> {
    let ids: BTreeSet<u64> = before.keys().chain(after.keys()).cloned().collect();
    for id in ids {
        let (a, b) = (after.get(&id), before.get(&id));
        if a == b {
            continue;
        }
        let ok = items.iter().filter(|it| it.id == id && item_class(it, c.dim).0 != Cls::Invalid).any(|it| a.map(|d| doc_is_item(c.metric, d, it)).unwrap_or(false));
        if !ok {
            return Some(prob("refused_item_changed_collection", i, format!("{} (step {}) answered an error status; doc {} changed from {:?} to {:?}, which no acceptable item of the stream explains", kind, i, id, b.map(|d| public(&d.meta)), a.map(|d| (public(&d.meta), unbits(&d.vec)))), &[("rpc", kind), ("input", "stream_with_error_status")]));
        }
    }
    None
}

pub struct Exec {
    pub problems: Vec<Problem>,
    pub steps: u64,
    pub probes: BTreeMap<String, u64>,
    pub per_rpc: BTreeMap<String, u64>,
    pub digest: u64,
}

pub fn execute(plan: &Plan) -> Exec {
    reset_env(plan.env_seed);
    let p = plan.clone();
    let r = on_fresh_thread(move || {
        let mut ex = Exec { problems: vec![], steps: 0, probes: BTreeMap::new(), per_rpc: BTreeMap::new(), digest: 0 };
        let dir = fresh_dir("c15", 0);
        let data = format!("{}/data", dir);
        let aux = format!("{}/aux", dir);
        let _ = std::fs::create_dir_all(&data);
        let _ = std::fs::create_dir_all(&aux);
        let key = api_key("acme", 0);
        let scfg = ServerCfg {
            dim: p.cfg.dim,
            metric: p.cfg.metric,
            // a second tenant that sorts first, so that the acting tenant's index is not 0 (global id != local id)
            tenants: vec![
                TenantSpec { id: "aaaa".into(), key: api_key("aaaa", 9), max_vectors: 10, max_qps: 0, is_admin: false, enabled: true },
                TenantSpec { id: "acme".into(), key: key.clone(), max_vectors: 1_000_000, max_qps: 0, is_admin: false, enabled: true },
            ],
            auth: true,
            rate_limit: false,
            data_dir: if p.cfg.persist { Some(data) } else { None },
            aux_dir: aux,
            cache_cap: 4,
            qc_cap: 8,
            qc_threshold: 0.99,
            hot_soft: p.cfg.hot_soft,
            hot_hard: p.cfg.hot_soft + 3,
            capacity: 4000,
            snapshot_interval: 6,
            max_wal: 1 << 20,
            global_qps: None,
        };
        let keys = vec![key];
        let rt = rpc::paused_runtime();
        let mut h = match Harness::start(&scfg) {
            Ok(h) => h,
            Err(e) => {
                ex.problems.push(prob("harness", 0, format!("start failed: {}", e), &[]));
                return ex;
            }
        };
        let idx = h.tenant_index("acme").unwrap_or(0);
        // sentinel + two ordinary documents
        let mut srng = Rng::new(p.env_seed ^ 0x5E17);
        let mut sent_meta = Meta::new();
        sent_meta.insert("role".into(), "sentinel".into());
        let sentinel = Item { id: SENTINEL, vec: bits(&good_vec(&mut srng, p.cfg.dim)), meta: sent_meta.clone(), ns: String::new() };
        for it in [sentinel.clone(), Item { id: 1, vec: bits(&good_vec(&mut srng, p.cfg.dim)), meta: [("k".to_string(), "5".to_string())].into_iter().collect(), ns: String::new() }, Item { id: 2, vec: bits(&good_vec(&mut srng, p.cfg.dim)), meta: [("k".to_string(), "a".to_string())].into_iter().collect(), ns: String::new() }] {
            let resp = rpc::call(&rt, &h, &keys, &Cred::Tenant(0), &Rpc::Insert(it));
            if resp.code != 0 {
                ex.problems.push(prob("harness", 0, format!("baseline insert failed: {:?}", resp), &[]));
                return ex;
            }
        }
        let mut digest = 0u64;
        let mut cur = match census(&h, idx) {
            Ok(c) => c,
            Err(e) => {
                ex.problems.push(prob("harness", 0, e, &[]));
                return ex;
            }
        };
        'calls: for (i, r) in p.calls.iter().enumerate() {
            ex.steps += 1;
            *ex.per_rpc.entry(r.kind().to_string()).or_insert(0) += 1;
            let resp = rpc::call(&rt, &h, &keys, &Cred::Tenant(0), r);
            digest = crate::rng::mix(digest, crate::rng::mix(resp.code as u64, i as u64));
            *ex.probes.entry(format!("status_{}", resp.code)).or_insert(0) += 1;
            if resp.code == 13 && resp.message.contains("panic") {
                *ex.probes.entry("handler_panic_contained".into()).or_insert(0) += 1;
            }
            let after = match census(&h, idx) {
                Ok(c) => c,
                Err(e) => {
                    ex.problems.push(prob("refused_or_read_only_request_changed_collection", i, e, &[("rpc", r.kind()), ("input", "foreign_range")]));
                    break 'calls;
                }
            };
            // the filter-based deletes of this script may legitimately remove the sentinel; judge first, then restore it
            if let Some(pb) = judge_call(&p.cfg, i, r, &resp, &cur, &after) {
                ex.problems.push(pb);
                break 'calls;
            }
            cur = after;
            // (3) continued service
            if cur.contains_key(&SENTINEL) {
                let q = rpc::call(&rt, &h, &keys, &Cred::Tenant(0), &Rpc::Query { id: SENTINEL, emb: false, ns: String::new() });
                let ok = matches!(&q.body, Body::Query(qr) if q.code == 0 && qr.found && qr.meta == sent_meta);
                if !ok {
                    ex.problems.push(prob("server_stopped_serving", i, format!("after {} (step {}) the sentinel document is answered {:?}", r.kind(), i, q), &[("rpc", r.kind())]));
                    break 'calls;
                }
            } else {
                let resp = rpc::call(&rt, &h, &keys, &Cred::Tenant(0), &Rpc::Insert(sentinel.clone()));
                if resp.code != 0 {
                    ex.problems.push(prob("server_stopped_serving", i, format!("after {} (step {}) a valid insert is answered {:?}", r.kind(), i, resp), &[("rpc", r.kind())]));
                    break 'calls;
                }
                cur = census(&h, idx).unwrap_or_default();
            }
        }
        if ex.problems.is_empty() {
            // final service check: a valid search answers OK
            let s = SearchSpec { q: sentinel.vec.clone(), k: 3, min_score: 0, ns: String::new(), emb: false, ef: 0, filter: None, legacy: Meta::new() };
            let resp = rpc::call(&rt, &h, &keys, &Cred::Tenant(0), &Rpc::Search(s));
            let ok = matches!(&resp.body, Body::Search(v) if resp.code == 0 && v.len() == 1 && !v[0].results.is_empty());
            if !ok {
                ex.problems.push(prob("server_stopped_serving", p.calls.len(), format!("final valid search answered {:?}", resp), &[("rpc", "Search")]));
            }
        }
        if ex.problems.is_empty() && p.cfg.persist {
            drop(h);
            match Harness::start(&scfg) {
                Ok(n) => {
                    h = n;
                    *ex.probes.entry("restart_census".into()).or_insert(0) += 1;
                    match census(&h, idx) {
                        Ok(c2) => {
                            if c2 != cur {
                                let changed: Vec<u64> = cur.keys().chain(c2.keys()).filter(|k| cur.get(k) != c2.get(k)).cloned().collect::<BTreeSet<_>>().into_iter().collect();
                                ex.problems.push(prob(
                                    "collection_after_restart_differs",
                                    p.calls.len(),
                                    format!("after restart documents {:?} differ: live {:?}, recovered {:?}", changed, changed.iter().map(|k| cur.get(k).map(|d| (public(&d.meta), unbits(&d.vec)))).collect::<Vec<_>>(), changed.iter().map(|k| c2.get(k).map(|d| (public(&d.meta), unbits(&d.vec)))).collect::<Vec<_>>()),
                                    &[],
                                ));
                            }
                        }
                        Err(e) => ex.problems.push(prob("collection_after_restart_differs", p.calls.len(), e, &[])),
                    }
                    drop(h);
                }
                Err(e) => ex.problems.push(prob("restart_failed", p.calls.len(), format!("server did not restart after the script: {}", e), &[])),
            }
        } else {
            drop(h);
        }
        ex.digest = digest;
        drop(rt);
        remove_dir(&dir);
        ex
    });
    match r {
        Ok(e) => e,
        Err(p) => Exec { problems: vec![prob("harness_thread_panicked", 0, p, &[])], steps: 0, probes: BTreeMap::new(), per_rpc: BTreeMap::new(), digest: 0 },
    }
}

fn class_key(p: &Problem) -> String {
    let mut key = format!("C15|{}", p.clause);
    for (k, v) in &p.facts {
        key.push_str(&format!("|{}={}", k, v));
    }
    key
}

fn same(e: &Exec, target: &Problem) -> Option<String> {
    e.problems.iter().find(|q| q.clause == target.clause && q.facts == target.facts).map(|q| q.msg.clone())
}

fn minimise(plan: &Plan, target: &Problem, max_tries: usize) -> (Plan, String) {
    let mut best = plan.clone();
    let mut msg = target.msg.clone();
    if target.step + 1 < best.calls.len() {
        let mut cand = best.clone();
        cand.calls.truncate(target.step + 1);
        if let Some(m) = same(&execute(&cand), target) {
            best = cand;
            msg = m;
        }
    }
    let mut i = 0;
    let mut tries = 0;
    while i < best.calls.len() && tries < max_tries {
        let mut cand = best.clone();
        cand.calls.remove(i);
        tries += 1;
        if let Some(m) = same(&execute(&cand), target) {
            best = cand;
            msg = m;
        } else {
            i += 1;
        }
    }
    for i in 0..best.calls.len() {
        loop {
            let mut cand = best.clone();
            let shrunk = match &mut cand.calls[i] {
                Rpc::BulkInsert(items) | Rpc::BulkLoad(items) if items.len() > 1 && items.len() <= 64 => {
                    items.remove(0);
                    true
                }
                _ => false,
            };
            if !shrunk || tries >= max_tries + 40 {
                break;
            }
            tries += 1;
            if let Some(m) = same(&execute(&cand), target) {
                best = cand;
                msg = m;
            } else {
                break;
            }
        }
    }
    (best, msg)
}

pub fn run_batch(seed: u64, start: u64, count: u64, tier: &str, budget_ms: u64, sum: &mut Summary) {
    let t0 = simlibc::real_now_ns();
    for run in start..start + count {
        if budget_ms > 0 && (simlibc::real_now_ns() - t0) / 1_000_000 > budget_ms {
            break;
        }
        let plan = gen_plan(seed, run, tier);
        let ex = execute(&plan);
        sum.runs += 1;
        sum.evaluations += ex.steps;
        for (k, n) in &ex.per_rpc {
            sum.count(&format!("rpc_{}", k), *n);
        }
        for (k, n) in &ex.probes {
            sum.probe(k, *n);
        }
        // which pathological inputs were actually sent
        for r in &plan.calls {
            let tag: Option<&str> = match r {
                Rpc::Insert(it) => Some(item_class(it, plan.cfg.dim).1),
                Rpc::Search(s) => Some(search_class(s, plan.cfg.dim).1),
                Rpc::RawBytes { .. } => Some("raw_frame_or_unknown_method"),
                Rpc::BulkInsert(items) | Rpc::BulkLoad(items) => {
                    for it in items.iter().take(16) {
                        sum.fault(&format!("stream_item_{}", item_class(it, plan.cfg.dim).1), 1);
                    }
                    if items.len() > MAX_BATCH {
                        Some("oversized_stream")
                    } else {
                        None
                    }
                }
                Rpc::BulkQuery { ids, .. } | Rpc::BatchDeleteIds { ids, .. } if ids.len() > MAX_BATCH => Some("oversized_id_list"),
                Rpc::BatchDeleteFilter { f: Fx::Nest { depth, .. }, .. } => Some(if *depth > 100 { "filter_nested_beyond_decoder_limit" } else { "filter_nested_deep" }),
                _ => None,
            };
            if let Some(t) = tag {
                if t != "valid" {
                    sum.fault(&format!("input_{}", t), 1);
                }
            }
        }
        sum.distinct_hash(ex.digest);
        if sum.runs <= 2 {
            sum.sample(json!({"run": run, "cfg": plan.cfg, "calls": plan.calls.iter().take(4).map(|c| c.kind()).collect::<Vec<_>>(), "n_calls": plan.calls.len()}));
        }
        for pb in &ex.problems {
            let key = class_key(pb);
            if !sum.class_first(&key) || sum.violations.len() >= 10 {
                continue;
            }
            let within = budget_ms == 0 || (simlibc::real_now_ns() - t0) / 1_000_000 < budget_ms;
            let (best, msg) = if within && sum.violations.len() < 4 { minimise(&plan, pb, 50) } else { (plan.clone(), pb.msg.clone()) };
            sum.violations.push(Violation {
                property: "C15".into(),
                clause: pb.clause.clone(),
                facts: pb.facts.clone(),
                message: msg.chars().take(3000).collect(),
                seed,
                run,
                replay: serde_json::to_value(Replay { check: "C15".into(), plan: best, clause: pb.clause.clone() }).unwrap(),
                minimised: within,
                original: Some(json!({"calls": plan.calls.len(), "message": pb.msg.chars().take(1000).collect::<String>()})),
            });
        }
    }
}

pub fn replay(v: &serde_json::Value, sum: &mut Summary) -> Result<(), String> {
    let r: Replay = serde_json::from_value(v.clone()).map_err(|e| e.to_string())?;
    let ex = execute(&r.plan);
    sum.runs = 1;
    sum.evaluations = ex.steps;
    for pb in &ex.problems {
        sum.violations.push(Violation { property: "C15".into(), clause: pb.clause.clone(), facts: pb.facts.clone(), message: pb.msg.chars().take(3000).collect(), seed: 0, run: 0, replay: v.clone(), minimised: true, original: None });
    }
    Ok(())
}
