// E3 build step: copy the server binary's source from the repository working tree so that it can be included
// as a module (the service type is private to the binary). Filled in by the E3 step; a no-op otherwise.
use std::{env, fs, path::PathBuf};

fn main() {
    let repo = env::var("VERIF_REPO_PATH").unwrap_or_else(|_| "/repo".to_string());
    let src = PathBuf::from(&repo).join("engine/src/bin/kyrodb_server.rs");
    println!("cargo:rerun-if-changed={}", src.display());
    println!("cargo:rerun-if-env-changed=VERIF_REPO_PATH");
    println!("cargo:rerun-if-changed=src/server_harness.rs");
    println!("cargo:rerun-if-changed=build.rs");
    let out = PathBuf::from(env::var("OUT_DIR").unwrap());
    let text = fs::read_to_string(&src).expect("read kyrodb_server.rs");
    // inner doc comments / inner attributes are illegal inside an included module body: demote them.
    let mut body = String::new();
    let mut at_head = true;
    for line in text.lines() {
        if at_head {
            let t = line.trim_start();
            if t.starts_with("//!") {
                body.push_str(&line.replacen("//!", "// ", 1));
                body.push('\n');
                continue;
            }
            if t.starts_with("#![") {
                body.push_str("// ");
                body.push_str(line);
                body.push('\n');
                continue;
            }
            if !t.is_empty() {
                at_head = false;
            }
        }
        body.push_str(line);
        body.push('\n');
    }
    let harness = fs::read_to_string("src/server_harness.rs").unwrap_or_default();
    body.push_str("\n// ===== appended by the verification harness (same module => private access) =====\n");
    // Pieces of main() that the harness needs (they are inline in main(), so they cannot be called): the auth
    // interceptor closure, the start-up recount of per-tenant vectors and the recover-or-fresh start of the engine
    // are cut out of the text of main() as it is in the working tree and wrapped into functions, so that a change
    // to those lines is a change to what the simulation runs. If a piece cannot be found (main() was restructured)
    // or VERIF_NO_EXTRACT is set (the driver retries that way when the wrapped text does not compile), the harness
    // falls back to its hand-copied version of the same lines.
    println!("cargo:rerun-if-env-changed=VERIF_NO_EXTRACT");
    println!("cargo:rustc-check-cfg=cfg(vh_extracted)");
    let extracted = if env::var("VERIF_NO_EXTRACT").is_ok() { None } else { extract_main_pieces(&text) };
    match extracted {
        Some(code) => {
            println!("cargo:rustc-cfg=vh_extracted");
            body.push_str(&code);
            fs::write(out.join("vh_mode.txt"), "extracted\n").unwrap();
        }
        None => {
            fs::write(out.join("vh_mode.txt"), "stub\n").unwrap();
        }
    }
    body.push_str(&harness);
    fs::write(out.join("server_included.rs"), body).unwrap();
}

/// index just past the `}` that closes the `{` at `open` (string literals and line comments are skipped)
fn match_brace(t: &[u8], open: usize) -> Option<usize> {
    if t.get(open) != Some(&b'{') {
        return None;
    }
    let mut depth = 0i64;
    let mut i = open;
    while i < t.len() {
        match t[i] {
            b'"' => {
                i += 1;
                while i < t.len() && t[i] != b'"' {
                    if t[i] == b'\\' {
                        i += 1;
                    }
                    i += 1;
                }
            }
            b'/' if t.get(i + 1) == Some(&b'/') => {
                while i < t.len() && t[i] != b'\n' {
                    i += 1;
                }
            }
            b'{' => depth += 1,
            b'}' => {
                depth -= 1;
                if depth == 0 {
                    return Some(i + 1);
                }
            }
            _ => {}
        }
        i += 1;
    }
    None
}

fn extract_main_pieces(text: &str) -> Option<String> {
    let main_at = text.find("async fn main()")?;
    let t = &text[main_at..];
    let tb = t.as_bytes();
    // (a) interceptor closure body
    let m = "KyroDbServiceServer::with_interceptor(grpc_service, move |mut req: Request<()>| {";
    let a0 = t.find(m)? + m.len() - 1;
    let a1 = match_brace(tb, a0)?;
    let interceptor_body = &t[a0 + 1..a1 - 1];
    // (b) start-up recount: `let tenant_vector_counts = if config.auth.enabled { .. } else { .. };`
    let m = "let tenant_vector_counts = if config.auth.enabled {";
    let b0 = t.find(m)?;
    let b1 = match_brace(tb, b0 + m.len() - 1)?;
    let rest = &t[b1..];
    let else_off = rest.find('{')?;
    if rest[..else_off].trim() != "else" {
        return None;
    }
    let b2 = match_brace(tb, b1 + else_off)?;
    if !t[b2..].trim_start().starts_with(';') {
        return None;
    }
    let recount_stmt = &t[b0..b2];
    // (c) recover-or-fresh start of the engine
    let c0 = t.find("let data_dir_path = config.persistence.data_dir.clone();")?;
    let c1 = t[c0..].find("info!(\"TieredEngine initialized successfully")? + c0;
    let start_text = &t[c0..c1];
    if !start_text.contains("let mut engine = if should_attempt_recovery") {
        return None;
    }
    let mut code = String::new();
    code.push_str("\n#[allow(unused, unused_mut, unused_assignments, clippy::all)]\npub(crate) fn vh_x_interceptor(auth_enabled: bool, state_for_interceptor: &Arc<ServerState>, mut req: Request<()>) -> Result<Request<()>, Status> {\n");
    code.push_str(interceptor_body);
    code.push_str("\n}\n");
    code.push_str("\n#[allow(unused, unused_mut, unused_assignments, clippy::all)]\npub(crate) fn vh_x_recount(config: &kyrodb_engine::config::KyroDbConfig, auth: &Option<AuthManager>, tenant_id_mapper: &Option<TenantIdMapper>, engine_arc: &Arc<TieredEngine>) -> anyhow::Result<Option<parking_lot::RwLock<HashMap<String, usize>>>> {\n    ");
    code.push_str(recount_stmt);
    code.push_str(";\n    Ok(tenant_vector_counts)\n}\n");
    code.push_str("\n#[allow(unused, unused_mut, unused_assignments, clippy::all)]\npub(crate) fn vh_x_start_engine(config: &kyrodb_engine::config::KyroDbConfig, engine_config: &TieredEngineConfig, cache_strategy: Box<dyn kyrodb_engine::CacheStrategy>, query_cache: Arc<kyrodb_engine::QueryHashCache>, create_cache_strategy: &dyn Fn() -> anyhow::Result<(Box<dyn kyrodb_engine::CacheStrategy>, Option<Arc<LearnedCacheStrategy>>, &'static str)>) -> anyhow::Result<TieredEngine> {\n    let mut learned_strategy_for_training: Option<Arc<LearnedCacheStrategy>> = None;\n    ");
    code.push_str(start_text);
    code.push_str("\n    Ok(engine)\n}\n");
    Some(code)
}
