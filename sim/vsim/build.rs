// E3 build step: copy the server binary's source from the repository working tree so that it can be included
// as a module (the service type is private to the binary). Filled in by the E3 step; a no-op otherwise.
use std::{env, fs, path::PathBuf};

fn main() {
    let repo = env::var("VERIF_REPO_PATH").unwrap_or_else(|_| "/repo".to_string());
    let src = PathBuf::from(&repo).join("engine/src/bin/kyrodb_server.rs");
    println!("cargo:rerun-if-changed={}", src.display());
    println!("cargo:rerun-if-env-changed=VERIF_REPO_PATH");
    println!("cargo:rerun-if-changed=src/server_harness.rs");
    println!("cargo:rerun-if-changed=build.rs");
    let out = PathBuf::from(env::var("OUT_DIR").unwrap());
    let text = fs::read_to_string(&src).expect("read kyrodb_server.rs");
    // inner doc comments / inner attributes are illegal inside an included module body: demote them.
    let mut body = String::new();
    let mut at_head = true;
    for line in text.lines() {
        if at_head {
            let t = line.trim_start();
            if t.starts_with("//!") {
                body.push_str(&line.replacen("//!", "// ", 1));
                body.push('\n');
                continue;
            }
            if t.starts_with("#![") {
                body.push_str("// ");
                body.push_str(line);
                body.push('\n');
                continue;
            }
            if !t.is_empty() {
                at_head = false;
            }
        }
        body.push_str(line);
        body.push('\n');
    }
    let harness = fs::read_to_string("src/server_harness.rs").unwrap_or_default();
    body.push_str("\n// ===== appended by the verification harness (same module => private access) =====\n");
    body.push_str(&harness);
    fs::write(out.join("server_included.rs"), body).unwrap();
}
