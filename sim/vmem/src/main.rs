//! C17 workload: seeded, boundary-biased sequences of index insertions and searches (sequential and batch route,
//! duplicate vectors / ids, full index, k / ef extremes, cancellation at a PRNG point, readers || writer behind a
//! RwLock), run under an executor that checks every memory access: Miri (one build per kernel family, seeded thread
//! schedules) or AddressSanitizer (native, best kernel of the machine, larger sizes).
//! Results are also compared with a brute-force reference so that an in-bounds-but-wrong read is visible.
//! No file, clock or randomness of the OS is used: everything derives from --seed and the row number.

use kyrodb_engine::config::DistanceMetric;
use kyrodb_engine::hnsw_index::HnswVectorIndex;
use std::sync::atomic::{AtomicBool, AtomicUsize, Ordering};
use std::sync::{Arc, RwLock};

struct Rng(u64);
impl Rng {
    fn next(&mut self) -> u64 {
        self.0 = self.0.wrapping_add(0x9E3779B97F4A7C15);
        let mut z = self.0;
        z = (z ^ (z >> 30)).wrapping_mul(0xBF58476D1CE4E5B9);
        z = (z ^ (z >> 27)).wrapping_mul(0x94D049BB133111EB);
        z ^ (z >> 31)
    }
    fn below(&mut self, n: u64) -> u64 {
        if n == 0 {
            0
        } else {
            self.next() % n
        }
    }
    fn pick<T: Copy>(&mut self, xs: &[T]) -> T {
        xs[self.below(xs.len() as u64) as usize]
    }
}

fn gen_dim(rng: &mut Rng, max_dim: usize) -> usize {
    let d = match rng.below(4) {
        0 => 1 + rng.below(max_dim as u64) as usize,
        1 => {
            let w = rng.pick(&[4usize, 8, 16, 32]);
            let k = 1 + rng.below((max_dim / w).max(1) as u64) as usize;
            (k * w + rng.pick(&[0usize, 1, 2]) ).saturating_sub(1)
        }
        2 => rng.pick(&[1usize, 2, 3, 5, 7, 9, 15, 17, 23, 31, 33, 47, 63, 65, 95, 97, 127, 129, 130]),
        _ => rng.pick(&[4usize, 8, 16, 24, 32, 40, 48, 56, 64, 72, 96, 104, 128]),
    };
    d.clamp(1, max_dim)
}

fn gen_vec(rng: &mut Rng, dim: usize, metric: u8, salt: usize) -> Vec<f32> {
    let mut v: Vec<f32> = (0..dim).map(|_| (rng.below(2001) as f32 - 1000.0) / 1000.0).collect();
    v[salt % dim] += 2.0;
    if metric != 1 {
        let n = v.iter().map(|x| (*x as f64) * (*x as f64)).sum::<f64>().sqrt();
        for x in v.iter_mut() {
            *x = (*x as f64 / n) as f32;
        }
    }
    v
}

fn ref_dist(metric: u8, a: &[f32], b: &[f32]) -> f64 {
    match metric {
        1 => a.iter().zip(b).map(|(x, y)| (*x as f64 - *y as f64).powi(2)).sum::<f64>(),
        _ => 1.0 - a.iter().zip(b).map(|(x, y)| *x as f64 * *y as f64).sum::<f64>(),
    }
}

fn metric_of(m: u8) -> DistanceMetric {
    match m {
        0 => DistanceMetric::Cosine,
        1 => DistanceMetric::Euclidean,
        _ => DistanceMetric::InnerProduct,
    }
}

struct Stats {
    rows: u64,
    inserts: u64,
    searches: u64,
    cancelled_searches: u64,
    concurrent_rows: u64,
    full_index_rows: u64,
    huge_rows: u64,
    dims: Vec<usize>,
    problems: Vec<String>,
}

/// distance conventions differ per metric (Euclidean may be reported squared or not): accept either form
fn dist_ok(metric: u8, got: f32, reference: f64) -> bool {
    let g = got as f64;
    let tol = 1e-3 * (1.0 + reference.abs());
    if (g - reference).abs() <= tol || (g - reference.max(0.0)).abs() <= tol {
        return true;
    }
    if metric == 1 {
        let r = reference.max(0.0).sqrt();
        return (g - r).abs() <= 1e-3 * (1.0 + r);
    }
    false
}

fn check_results(st: &mut Stats, what: &str, metric: u8, q: &[f32], res: &[kyrodb_engine::hnsw_index::SearchResult], stored: &std::collections::BTreeMap<u64, Vec<f32>>, k: usize) {
    if res.len() > k {
        st.problems.push(format!("{}: {} results for k={}", what, res.len(), k));
    }
    let mut seen = std::collections::BTreeSet::new();
    for r in res {
        if !seen.insert(r.doc_id) {
            st.problems.push(format!("{}: doc {} returned twice", what, r.doc_id));
        }
        match stored.get(&r.doc_id) {
            None => st.problems.push(format!("{}: result doc {} was never inserted", what, r.doc_id)),
            Some(v) => {
                let d = ref_dist(metric, q, v);
                if !dist_ok(metric, r.distance, d) {
                    st.problems.push(format!("{}: distance to doc {} reported {} but the reference says {}", what, r.doc_id, r.distance, d));
                }
            }
        }
    }
}

fn run_row(seed: u64, row: u64, big: bool, st: &mut Stats) {
    let mut rng = Rng(seed ^ row.wrapping_mul(0xA24BAED4963EE407));
    // one native row in ten is a large graph (several thousand nodes, small dimension): size-dependent code paths
    // (scratch buffers and visited sets sized from the graph, upper layers with real populations) only exist there,
    // and the threads of phase D meet that graph with fresh thread-local scratch
    let huge = big && rng.below(10) == 0;
    let max_dim = if huge { 24 } else { 130 };
    let dim = gen_dim(&mut rng, max_dim);
    let metric = rng.below(3) as u8;
    let m = if huge { rng.pick(&[4usize, 8, 16]) } else { rng.pick(&[4usize, 5, 8, 16, 33, 64]) };
    let efc = if huge { rng.pick(&[4usize, 16]) } else { rng.pick(&[1usize, 4, 16, 50]) };
    let n: usize = if huge {
        rng.pick(&[4090usize, 4096, 4097, 4200, 5000, 8200])
    } else if big {
        20 + rng.below(400) as usize
    } else {
        2 + rng.below(if dim > 64 { 6 } else { 10 }) as usize
    };
    let cap = match rng.below(4) {
        0 => n.saturating_sub(1).max(1), // the index fills up before the sequence ends
        1 => n,
        2 => n + 1,
        _ => if huge { n + 100 } else if big { 4096 } else { n + 7 },
    };
    if huge {
        st.huge_rows += 1;
    }
    st.rows += 1;
    st.dims.push(dim);
    let Ok(mut idx) = HnswVectorIndex::new_with_params(dim, cap, metric_of(metric), m, efc, false) else {
        st.problems.push(format!("row {}: index construction refused dim={} cap={} m={} efc={}", row, dim, cap, m, efc));
        return;
    };
    let mut stored: std::collections::BTreeMap<u64, Vec<f32>> = std::collections::BTreeMap::new();
    let mut pool: Vec<Vec<f32>> = Vec::new();
    let split = rng.below(n as u64 + 1) as usize;
    // malformed batches (first element too short / too long / empty, mixed with valid ones) into the still empty
    // index: they must be refused or skipped, never adopted as the graph's dimension
    if rng.below(3) == 0 {
        let bad_len = match rng.below(4) {
            0 => dim.saturating_sub(1).max(1),
            1 => 1,
            2 => dim + 1,
            _ => dim / 2 + 1,
        };
        if bad_len != dim {
            let bad: Vec<f32> = (0..bad_len).map(|i| if i == 0 { 1.0 } else { 0.0 }).collect();
            let good = gen_vec(&mut rng, dim, metric, 4000);
            let batch: Vec<(&[f32], usize)> = if rng.below(2) == 0 { vec![(bad.as_slice(), 900_001), (good.as_slice(), 900_002)] } else { vec![(bad.as_slice(), 900_001)] };
            st.inserts += batch.len() as u64;
            if idx.parallel_insert_batch(&batch).is_ok() && idx.len() > 0 {
                // whatever was accepted must be searchable with a query of the index dimension
                if batch.len() == 2 {
                    stored.insert(900_002, good.clone());
                }
                let _ = idx.knn_search(&good, 1);
            }
            if stored.is_empty() && idx.len() > 0 {
                // something of the malformed batch is in the graph: results can no longer be judged against the reference
                let q = gen_vec(&mut rng, dim, metric, 4001);
                let _ = idx.knn_search(&q, 2);
                return;
            }
        }
    }
    // phase A: sequential inserts (duplicates of vectors and ids on purpose)
    for i in 0..split {
        let v = if !pool.is_empty() && rng.below(5) == 0 { pool[rng.below(pool.len() as u64) as usize].clone() } else { gen_vec(&mut rng, dim, metric, i) };
        let id = if !stored.is_empty() && rng.below(8) == 0 { *stored.keys().next().unwrap() } else { i as u64 * 3 + 1 };
        pool.push(v.clone());
        st.inserts += 1;
        let fresh = !stored.contains_key(&id);
        if idx.add_vector(id, &v).is_ok() && fresh {
            stored.insert(id, v);
        }
        if idx.is_full() {
            st.full_index_rows += 1;
        }
    }
    idx.complete_sequential_inserts();
    // phase B: batch route
    let rest: Vec<(Vec<f32>, usize)> = (split..n).map(|i| (gen_vec(&mut rng, dim, metric, i), i * 3 + 1)).collect();
    if !rest.is_empty() {
        let room = idx.capacity().saturating_sub(idx.len());
        let take = rest.len().min(room);
        let slice: Vec<(&[f32], usize)> = rest.iter().take(take).map(|(v, id)| (v.as_slice(), *id)).collect();
        st.inserts += slice.len() as u64;
        if idx.parallel_insert_batch(&slice).is_ok() {
            for (v, id) in rest.iter().take(take) {
                stored.entry(*id as u64).or_insert_with(|| v.clone());
            }
        }
        // one more than fits: must be refused, not overrun
        if take < rest.len() {
            let over: Vec<(&[f32], usize)> = rest.iter().skip(take).map(|(v, id)| (v.as_slice(), *id)).collect();
            let _ = idx.parallel_insert_batch(&over);
            let _ = idx.add_vector(999_999, &rest[take].0);
        }
    }
    // wrong shapes must be refused, not read out of bounds
    let _ = idx.add_vector(777_777, &vec![0.5; dim + 1]);
    if dim > 1 {
        let _ = idx.add_vector(777_778, &vec![0.5; dim - 1]);
        let _ = idx.knn_search(&vec![0.5; dim - 1], 1);
    }
    let _ = idx.knn_search(&vec![0.5; dim + 3], 2);
    let _ = idx.knn_search(&[], 1);
    // phase C: searches
    let n_search = if big { 30 } else { 3 };
    for s in 0..n_search {
        let q = if !pool.is_empty() && rng.below(2) == 0 { pool[rng.below(pool.len() as u64) as usize].clone() } else { gen_vec(&mut rng, dim, metric, s + 1000) };
        let k = rng.pick(&[1usize, 2, 3, 10, 1000, 10_000]).min(if big { 10_000 } else { 1000 });
        let ef = match rng.below(5) {
            0 => None,
            1 => Some(1),
            2 => Some(k),
            3 => Some(if big { 10_000 } else { 64 }),
            _ => Some(1 + rng.below(40) as usize),
        };
        st.searches += 1;
        if let Ok(res) = idx.knn_search_with_ef(&q, k, ef) {
            check_results(st, &format!("row {} search {}", row, s), metric, &q, &res, &stored, k);
        }
        // cancelled before / during the search
        let flag = AtomicBool::new(rng.below(2) == 0);
        let _ = idx.knn_search_with_ef_cancel(&q, k, ef, Some(&flag));
        st.cancelled_searches += 1;
    }
    // phase D: readers || canceller || writer
    if rng.below(3) != 0 {
        st.concurrent_rows += 1;
        let shared = Arc::new(RwLock::new(idx));
        let cancel = Arc::new(AtomicBool::new(false));
        let steps = Arc::new(AtomicUsize::new(0));
        let flip_at = rng.below(6) as usize;
        let queries: Vec<Vec<f32>> = (0..3).map(|s| gen_vec(&mut rng, dim, metric, s + 2000)).collect();
        // the writer thread inserts enough documents in a large graph for some of them to land on an upper layer
        let extra: Vec<Vec<f32>> = (0..if huge { 60 } else { 2 }).map(|s| gen_vec(&mut rng, dim, metric, s + 3000)).collect();
        let mut handles = Vec::new();
        for t in 0..2usize {
            let (sh, ca, stp, qs) = (Arc::clone(&shared), Arc::clone(&cancel), Arc::clone(&steps), queries.clone());
            handles.push(std::thread::spawn(move || {
                let mut out = Vec::new();
                for (j, q) in qs.iter().enumerate() {
                    stp.fetch_add(1, Ordering::SeqCst);
                    let g = sh.read().unwrap();
                    let r = g.knn_search_with_ef_cancel(q, 1 + (t + j) % 3, Some(8), Some(&ca));
                    out.push((j, r.ok()));
                }
                out
            }));
        }
        {
            let (ca, stp) = (Arc::clone(&cancel), Arc::clone(&steps));
            handles.push(std::thread::spawn(move || {
                for _ in 0..64 {
                    if stp.load(Ordering::SeqCst) >= flip_at {
                        break;
                    }
                    std::thread::yield_now();
                }
                ca.store(true, Ordering::SeqCst);
                Vec::new()
            }));
        }
        {
            let sh = Arc::clone(&shared);
            let ex = extra.clone();
            handles.push(std::thread::spawn(move || {
                for (j, v) in ex.iter().enumerate() {
                    let mut g = sh.write().unwrap();
                    let _ = g.add_vector(500_000 + j as u64, v);
                }
                Vec::new()
            }));
        }
        for h in handles {
            let out = h.join().expect("thread");
            for (j, r) in out {
                if let Some(res) = r {
                    let mut all = stored.clone();
                    for (e, v) in extra.iter().enumerate() {
                        all.insert(500_000 + e as u64, v.clone());
                    }
                    check_results(st, &format!("row {} concurrent query {}", row, j), metric, &queries[j], &res, &all, 3);
                }
            }
        }
    }
}

fn main() {
    let args: Vec<String> = std::env::args().collect();
    let get = |k: &str, d: u64| -> u64 { args.iter().position(|a| a == k).and_then(|i| args.get(i + 1)).and_then(|v| v.parse().ok()).unwrap_or(d) };
    let seed = get("--seed", 20260925);
    let start = get("--start", 0);
    let count = get("--count", 1);
    let big = args.iter().any(|a| a == "--big");
    let mut st = Stats { rows: 0, inserts: 0, searches: 0, cancelled_searches: 0, concurrent_rows: 0, full_index_rows: 0, huge_rows: 0, dims: vec![], problems: vec![] };
    #[cfg(target_arch = "x86_64")]
    let kernel = if std::is_x86_feature_detected!("avx512f") && std::is_x86_feature_detected!("fma") {
        "avx512"
    } else if std::is_x86_feature_detected!("avx2") && std::is_x86_feature_detected!("fma") {
        "avx2"
    } else if std::is_x86_feature_detected!("sse2") {
        "sse2"
    } else {
        "scalar"
    };
    #[cfg(not(target_arch = "x86_64"))]
    let kernel = "other";
    println!("VMEM-KERNEL {}", kernel);
    for row in start..start + count {
        println!("VMEM-ROW {}", row);
        run_row(seed, row, big, &mut st);
        if !st.problems.is_empty() {
            println!("VMEM-PROBLEM row={} {}", row, st.problems[0]);
            break;
        }
    }
    let tail = st.dims.iter().map(|d| d.to_string()).collect::<Vec<_>>().join(",");
    println!(
        "VMEM-SUMMARY rows={} inserts={} searches={} cancelled={} concurrent_rows={} full_index_rows={} huge_rows={} problems={} dims={}",
        st.rows, st.inserts, st.searches, st.cancelled_searches, st.concurrent_rows, st.full_index_rows, st.huge_rows, st.problems.len(), tail
    );
    if !st.problems.is_empty() {
        std::process::exit(3);
    }
}
