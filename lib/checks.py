"""Per-check specification: level, rule text, budgets, assumptions. MANIFEST.json is generated from this."""

REAL_VS_STUB = {
    "real_unmodified_source": "HnswBackend, persistence (WAL/snapshot/MANIFEST), HnswVectorIndex/ann_backend/simd, TieredEngine, HotTier, "
                              "VectorCache, QueryHashCache, cache strategies, semantic adapter, metadata filter + inverted index, backup/restore, "
                              "RateLimiter, CircuitBreaker, AuthManager, UsageTracker; gRPC handlers/validators/panic layer (included source)",
    "shim": "parking_lot = lock_api locks over the real raw locks + scheduler-owned scheduling points (pass-through for uncontrolled threads)",
    "kernel_fs": "real tmpfs; every mutating libc call on the data directory journalled; durability semantics = harness crash model",
    "simulated": "clock (clock_gettime/gettimeofday/time), sleeps (nanosleep/clock_nanosleep), OS randomness (getrandom)",
    "absent": "network transport, TLS, HTTP listener, signal handling",
    "stub": "server main() wiring (auth interceptor closure, start-up recount, recover-or-fresh decision) is copied into the harness (fallback mode: the build could not cut these lines out of main())",
}

# when vsim's build script could cut the lines out of main() (the normal case; `vsim mode-info` says which)
EXTRACTED_FROM_MAIN = ("the auth interceptor closure, the start-up recount of per-tenant vectors and the recover-or-fresh start of the engine are the "
                       "working tree's own lines of main(), cut out textually at build time and wrapped into functions (sim/vsim/build.rs)")
STUB_WHEN_EXTRACTED = ("the rest of main(): configuration loading, construction of TieredEngineConfig / cache strategy / rate limiter / usage tracker from the "
                       "configuration, ServerState wiring, background tasks (flush, training, usage export), listeners")

COMMON_ASSUMPTIONS = [
    "seeded search samples histories/schedules; a clean batch is evidence, not proof",
    "atomics are not scheduling points (each is adjacent to a lock operation on the same path)",
    "tmpfs stands in for the disk; durability is what the journal-based crash model says, not what tmpfs does",
]

CHECKS = {
    "C01": {
        "level": "fault_enumeration",
        "design_ref": "DESIGN.md section 5/C01",
        "engine": "E1 simlibc",
        "technique": "deterministic simulation: journalled libc seam, every crash point of each sampled history enumerated (kill, torn, power-loss), real recover() as oracle input",
        "rule": "histories (3-24 ops quick, 3-40 thorough; swarm over metric x dim x fsync policy x snapshot interval x rotation size x capacity x backend/tiered) "
                "are sampled from the seed; inside each history every effect boundary is a crash point under the kill model, every write gets torn "
                "prefixes, and under Always/Periodic several PRNG power-loss states per boundary; a third of the states get a second crash inside "
                "the start-up that follows. evaluations = crash states on which the real strict recovery ran. distinct_nontrivial = crash states "
                "with >=1 acknowledged operation before the crash whose directory digest (file ids rank-normalised) x acknowledged-op count is new "
                "(counted per worker and summed). Crash points inside the very first creation of the database (no MANIFEST yet; refused by the engine-level recovery by design) are also judged through the server's start-up decision (main()'s lines cut out at build time), which must start an empty database.",
        "assumptions": [
            "pessimistic power-loss model: un-fsynced writes of a file are kept as a prefix (last one possibly torn), un-fsynced directory operations as a prefix; file fsync does not persist the directory entry",
            "the data directory itself is created by the operator and is durable",
            "Never policy is judged under the kill model only",
        ],
        "expected_probes": ["wal_segment_compacted", "snapshot_superseded", "crash_inside_recovery", "crash_before_manifest_rename", "crash_before_dir_fsync", "crash_inside_snapshot_or_compaction", "clean_restart_in_history"],
        "tiers": {"quick": {"runs_per_worker": 100000, "budget_s": 55}, "thorough": {"runs_per_worker": 1000000, "budget_s": 900}},
        "level_text": "Every crash point (kill/torn/power-loss) of each sampled history is enumerated and the real strict recovery is run on the reconstructed directory; histories and loss choices are sampled.",
        "level_note": "trusted base: the journal (strace-comparable libc seam), the crash model, the reference map; histories sampled, crash points enumerated per history",
    },
    "C02": {
        "level": "exploration",
        "design_ref": "DESIGN.md section 5/C02",
        "engine": "E1 simlibc",
        "technique": "deterministic simulation: seeded histories with clean restarts against a reference map, simulated clock and randomness",
        "rule": "seeded histories (2-30 ops quick, 2-60 thorough) over the configuration grid (metric x dim {1..33} x snapshot interval x rotation size x "
                "capacity x backend/tiered) with clean restarts at PRNG positions (also back to back and after snapshots), always ending in a restart; "
                "evaluations = restarts judged (census after restart == census before == model, bit-exact). distinct_nontrivial = histories with >=1 restart "
                "and >=1 acknowledged write whose journal-shape hash (sequence of effect kinds and op marks) is new.",
        "assumptions": ["operations are issued sequentially; restarts only at operation boundaries"],
        "expected_probes": ["wal_segment_compacted", "wal_rotated_or_created", "snapshot_published", "three_or_more_restarts"],
        "tiers": {"quick": {"runs_per_worker": 2500, "budget_s": 40}, "thorough": {"runs_per_worker": 100000, "budget_s": 600}},
        "level_text": "Seeded exploration of histories x configurations x restart placements, each restart judged exactly against the live census and a reference map.",
        "level_note": "trusted base: reference map semantics, census through the public read API",
    },
    "C13": {
        "level": "fault_enumeration",
        "design_ref": "DESIGN.md section 5/C13",
        "engine": "E1 simlibc",
        "technique": "deterministic simulation: single-fault enumeration (bit flips at structural offsets, truncations at frame boundaries, deletions) over data directories of seeded histories, real strict recover() as oracle input",
        "rule": "data directories come from seeded histories (4-22 ops quick, 4-40 thorough; several snapshots, rotated and compacted segments, restarts), cleanly "
                "stopped; for every file the structural damage catalogue is enumerated completely (WAL: magic, each frame's length/payload/CRC/doc-id bytes, truncation at "
                "every frame boundary +-1 of non-newest segments; snapshot: magic, size, version, counts, dimension, distance, last_wal_seq, CRC, truncations; MANIFEST: "
                "structural characters, truncations; plus 3 PRNG flips per file and deletion). Server rows: every removed file is also judged through the server's own start-up decision "
                "(main()'s recover-or-fresh lines, cut out of the working tree at build time; strict recovery, no fresh start after a failed recovery), which must refuse or serve exactly the pre-damage collection. "
                "evaluations = damaged directories on which the real strict recovery / the server's start-up decision ran. "
                "distinct_nontrivial = distinct (directory digest x file role x structural field) combinations.",
        "assumptions": [
            "truncation of the newest log segment is excluded (crash case of C01)",
            "a start-up that errors, panics or aborts the process (absurd allocation; run in a forked child) counts as refused",
            "server rows cover removed files only (for flips and truncations the server takes the same TieredEngine::recover path as the engine-level rows); configuration loading and the rest of main() are not run",
        ],
        "expected_probes": ["directories_with_several_snapshots", "directories_with_several_segments", "server_startup_on_directory_with_removed_file"],
        "tiers": {"quick": {"runs_per_worker": 100000, "budget_s": 40}, "thorough": {"runs_per_worker": 1000000, "budget_s": 600}},
        "level_text": "Every single fault of a structural catalogue is enumerated on each sampled data directory and the real strict recovery is run on the damaged copy; the engine's own readers are then queried to name the mechanism.",
        "level_note": "trusted base: catalogue completeness for the on-disk formats (parsed by the harness), the reference map; histories sampled, faults enumerated per directory",
    },
    "C03": {
        "level": "fault_enumeration",
        "design_ref": "DESIGN.md section 5/C03",
        "engine": "E1 simlibc",
        "technique": "deterministic simulation with fault injection at the libc seam (errno, short writes, low disk) inside operations, plus invalid-input classes on every engine write path; live census and real recover() on the kill-model image judged against a reference map after each step",
        "rule": "two configurations run separately (even runs: invalid-input classes {wrong dimension, empty, all-zero, denormal, NaN, +-Inf, overflowing norm, huge lane, index full} "
                "on HnswBackend::insert / TieredEngine::insert / bulk_load_cold_tier, no I/O fault; odd runs: storage faults = 1-3 rules per faulted step from "
                "{ENOSPC,EIO,EDQUOT,EINTR,EACCES} x n-th {write,fsync,fdatasync,ftruncate,rename,open,unlink} x file role {wal, snapshot tmp, MANIFEST tmp, dir} + short writes + statvfs low space, plus, every 50th run, a wide batch: 65-140 documents inserted, then ONE batch_delete over (nearly) all of them with a write error / short write at a PRNG position among its log records or a failed fsync, then restart, "
                "armed only inside the operation, so second faults land in the engine's rollback/retries). After every step live census == model; after every failed/faulted "
                "step (and every 4th + last) the real strict recovery on the kill-model image of the journal == model. evaluations = steps judged live + recoveries judged. "
                "distinct_nontrivial = runs with >=1 operation that reported failure whose journal-shape hash is new.",
        "assumptions": [
            "fault position is sampled (n-th matching call, n in 1..3) rather than enumerated over every call of the operation",
            "reads are never faulted; a storage fault during start-up may fail that start-up, the clean retry must succeed",
            "server-level write paths (Insert/BulkInsert/BulkLoadHnsw RPCs) are judged by C15",
        ],
        "expected_probes": ["retry_backoff_slept", "circuit_breaker_rejected_a_write", "fault_inside_rollback_truncate", "disk_space_guard_fault"],
        "tiers": {"quick": {"runs_per_worker": 100000, "budget_s": 35}, "thorough": {"runs_per_worker": 2000000, "budget_s": 600}},
        "level_text": "Storage faults are injected at the libc seam inside sampled operations (including the engine's own rollback and retries) and invalid-input classes are enumerated per write path; every failed call is judged live and through a real recovery.",
        "level_note": "trusted base: libc seam + fault plan, kill-model image of the journal, reference map; histories and fault positions sampled",
    },
    "C08": {
        "level": "exploration",
        "design_ref": "DESIGN.md section 5/C08",
        "engine": "E2 simsched",
        "technique": "deterministic simulation: seeded lock-granularity scheduler (random walk, sticky walk, PCT d<=3, bounded preemption) over real threads with parking_lot's RwLock rules modelled; deadlock = no runnable and no grantable thread",
        "rule": "programs = 2-3 threads x 1-2 operations drawn from the full API catalogue (insert/overwrite/delete/batch_delete/batch_delete_by_metadata_filter/update_metadata/"
                "bulk_load/query/bulk_query/get_document_with_metadata/get_embedding_cache_aware/get_metadata/exists/knn_search/knn_search_batch/flush_hot_tier/stats/cache_size/"
                "hsc_lifecycle_stats/create_snapshot/ids_for_metadata_filter/update_predictor/access-logger writes/strategy stats) after a 0-6 operation warm-up, x cache strategy "
                "{LRU, learned, learned+semantic, A/B} x persistence on/off (file-system calls are scheduling points too) x snapshot interval {0,1,2,1000}; 8 seeded schedules per program. A third of the programs (2-4 threads) issue insert / delete / batch_delete / update_metadata / create_snapshot / reads / filter reads directly against the cold tier (HnswBackend is public API; no tiered write gate in between, persistence on, index capacity 6 or 1000 so that tombstone compaction runs concurrently too). "
                "evaluations = schedules executed to completion or to an all-blocked state. distinct_nontrivial = distinct hashes of the (thread, lock ordinal, operation) decision trace "
                "with more than 2 decisions. Every 16th run records acquisition sites; site-level 2-cycles of the accumulated lock-order graph are reported as probes only. The two filter operations of the catalogue use a malformed filter (NOT without operand, which the inverted index cannot compile: scan fallback) a third / a quarter of the time.",
        "assumptions": [
            "schedules are sampled, not enumerated up to a preemption bound",
            "rayon/tokio helper threads are not scheduled (they run while their controlled caller is blocked in join)",
            "server-level locks (tenant quota, rate limiter, usage tracker) are exercised by C14/C19, not here",
        ],
        "expected_probes": [],
        "tiers": {"quick": {"runs_per_worker": 1000000, "budget_s": 40}, "thorough": {"runs_per_worker": 10000000, "budget_s": 900}},
        "level_text": "Seeded exploration of schedules at lock granularity for pairs/triples of API calls; the all-blocked state of the lock model is the oracle, each deadlock is re-run with acquisition sites and reduced to the operations in flight.",
        "level_note": "trusted base: the lock model (parking_lot raw_rwlock.rs rules), the shim; schedules sampled",
    },
    "C05": {
        "level": "exploration",
        "design_ref": "DESIGN.md section 5/C05",
        "engine": "E2 simsched",
        "technique": "deterministic simulation: seeded lock-granularity schedules of 2-3 client threads; recorded invoke/return history checked per document against a sequential register with a WGL-style linearizability search",
        "rule": "programs = 2-3 client threads (in a third of the programs plus a drainer thread issuing 1-2 forced drains of the recent-write tier) x 2-4 operations {insert/overwrite with a globally unique (vector, metadata) pair, delete, query, bulk_query, get_document_with_metadata, "
                "get_embedding_cache_aware, exists} on 1-2 shared ids after a 0-3 operation warm-up, against one TieredEngine (cache capacity 1-8, hot hard limit 1-200 so drains interleave, "
                "all cache strategies, with and without persistence); 16 seeded schedules per program (random walk, sticky walk, PCT d<=3, bounded preemption); half of the programs end "
                "with a forced drain, all end with quiescent reads of every id through every flavour. evaluations = histories checked. distinct_nontrivial = distinct decision-trace "
                "hashes among histories in which operations of different threads overlapped in time. A third of the programs run on a tiny index (capacity 2-4) filled by the sequential prefix; half of those are cold-direct (clients call HnswBackend themselves, no persistence, so no tier gate or snapshot lock separates one client's tombstone compaction from another's delete); dimensions {2,3,4,5,9}; in a quarter of the programs all versions differ in the last lane only.",
        "assumptions": [
            "invoke/return stamps are the scheduler's global step, taken so that recorded intervals contain the real ones (never tighter)",
            "a write that returned an error may or may not have taken effect; delete's boolean result is not judged (the property speaks about reads)",
            "runs that end in a deadlock are attributed to C08 and dropped here (counted as aborted_by_deadlock_or_cap)",
            "the server's Query/BulkQuery handlers are not driven here",
        ],
        "expected_probes": ["histories_with_overlapping_operations"],
        "tiers": {"quick": {"runs_per_worker": 1000000, "budget_s": 45}, "thorough": {"runs_per_worker": 10000000, "budget_s": 900}},
        "level_text": "Seeded exploration of schedules; every recorded history is decided exactly by a linearizability search per document, plus direct clauses for never-written vectors and vector/metadata pairs from different writes.",
        "level_note": "trusted base: lock model + shim, the history recorder, the register model; schedules sampled",
    },
    "C09": {
        "level": "exploration",
        "design_ref": "DESIGN.md section 5/C09",
        "engine": "E1 simlibc + E2 simsched",
        "technique": "deterministic simulation: seeded scheduler with scheduling points at every lock operation and every intercepted file-system call; after join the journalled directory is recovered with the real recover() and compared with the live census; acknowledged writes checked for a linearisation",
        "rule": "programs = 1-2 writer threads x 2-5 operations {insert/overwrite, delete, metadata replace, batch delete} on 1-3 shared ids + one thread issuing 1-3 create_snapshot calls, "
                "after a 0-4 operation warm-up; HnswBackend with snapshot interval {0,1,2,3}, rotation threshold {1 B, 120 B, 200 B, 100 MiB}, capacity {4,6,16,1000} (tombstone compaction inside insert), "
                "fsync {Always, Never, Periodic(0)}; 12 seeded schedules per program. After join: recover(kill image of the journal) == live census (bit exact); final live state of every id explained by "
                "some real-time-respecting order of the acknowledged writes; MANIFEST latest_snapshot_wal_seq never decreases along the journal. evaluations = schedules judged. "
                "distinct_nontrivial = distinct decision-trace hashes among runs in which >=1 snapshot was published during the race.",
        "assumptions": ["runs ending in a deadlock are attributed to C08 and dropped here", "TieredEngine-level races (drain vs snapshot) are covered only through C05/C08"],
        "expected_probes": ["snapshot_published_during_race", "segments_compacted_during_race", "segments_created_during_race", "stale_snapshot_discarded"],
        "tiers": {"quick": {"runs_per_worker": 1000000, "budget_s": 40}, "thorough": {"runs_per_worker": 10000000, "budget_s": 900}},
        "level_text": "Seeded exploration of interleavings at lock and file-system-call granularity of writers with manual and automatic snapshots, rotation and compaction; each run judged exactly by a real recovery of the journalled directory.",
        "level_note": "trusted base: lock model, libc journal, reference census; schedules sampled",
    },
    "C04": {
        "level": "exploration",
        "design_ref": "DESIGN.md section 5/C04",
        "engine": "sequential driver + E1 clock",
        "technique": "deterministic simulation: seeded sequential histories over TieredEngine with simulated clock, a tick of the real background flush/audit task on a paused runtime, slow-tier faults (tier search stalled past its timeout; circuit breakers opening and half-opening on the simulated clock) and adversarial pokes planted in caches and mirror; every read judged against a reference map",
        "rule": "seeded histories (4-30 steps quick, 4-60 thorough) over TieredEngine x cache strategy {LRU, learned (trained/untrained), learned+semantic, A/B} x cache capacity {1,2,5,50} x hot hard limit {1,2,5,200} x "
                "metric x persistence: writes, deletes, batch deletes (ids / metadata filter), metadata updates, bulk loads bypassing the recent-write tier, forced/threshold drains, clock gaps beyond max age and audit interval, "
                "one tick + shutdown of the real spawn_flush_task loop, reads of every flavour; a quarter of the histories meet slow tiers (timed searches during which the hot and/or cold tier search is held back past its timeout by the E2 stall gate, mostly three in a row = the circuit-breaker threshold, followed by reads and clock gaps across the breaker's one-minute timeout); odd runs add pokes {stale version (incl. previous delete/reinsert epoch), foreign token, corrupted payload, mirror-only metadata; orphan "
                "entries for ids that do not exist} into the document cache and the hot-tier mirror. Every read == model; after every drain/audit (and every 6th step) canonical census == model; full read census every 5th step. "
                "evaluations = steps executed. distinct_nontrivial = distinct hashes of the (step kind, hot-tier size, cache size) sequence of histories longer than 3 steps.",
        "assumptions": ["operations are sequential (concurrency is C05's subject)", "server response hydration (Query/BulkQuery RPC) is not driven here"],
        "expected_probes": ["emergency_drain", "forced_drain_moved_documents", "background_task_tick", "bulk_load", "slow_tier_thread_stalled", "read_while_breaker_open", "poke_stale_version_cache", "poke_stale_version_mirror", "poke_orphan_mirror", "poke_corrupt_payload_cache", "poke_foreign_token_mirror", "document_cache_full"],
        "tiers": {"quick": {"runs_per_worker": 1000000, "budget_s": 35}, "thorough": {"runs_per_worker": 10000000, "budget_s": 600}},
        "level_text": "Seeded exploration of sequential histories x configurations with cache/mirror pokes as fault injection; each read and each post-drain canonical census judged exactly against a reference map.",
        "level_note": "trusted base: reference map, pin of stored vectors (normalisation), poke classification",
    },
    "C20": {
        "level": "exploration",
        "vsim_id": "C20",
        "design_ref": "DESIGN.md section 5/C20",
        "engine": "sequential driver + E1 clock; E2 simsched for the concurrent-insert rows",
        "technique": "deterministic simulation: the C04 histories with size invariants evaluated after every operation (document cache, query-result cache, recent-write tier at insert return)",
        "rule": "the C04 histories (same generator and configuration swarm incl. capacities {1,2,5,50}, query-cache capacities {1,2,5,50}, hard limits {1,2,5,200}, all strategies, pokes in odd runs); after EVERY step: cache_size() <= capacity "
                "(A/B splitter: each arm <= capacity and the sum <= 2 x capacity), QueryHashCache::len() <= capacity, hot_tier().len() <= hard limit whenever an insert has returned; content of what was evicted/drained is covered by "
                "C04's read oracle in the same runs. A quarter of the budget goes to concurrent rows: 2-3 caller threads x 1-3 operations (65% inserts, searches, point reads, deletes, drains, metadata merges) over 2-6 ids with hard limit 1-3 and cache capacities 1/2/5 under the seeded scheduler (6 schedules per program); hot_tier().len() <= hard limit is read by each thread right after each of its inserts returns, the cache capacities at the quiescent end. evaluations = steps (sequential) and inserts (concurrent) after which the bounds were evaluated. distinct_nontrivial as C04 plus distinct decision traces of the concurrent rows. A third of the concurrent programs are similarity programs (query-cache threshold 0.95: a cached search, paraphrases of it racing with deletes / overwrites of the cached documents) whose quiescent end issues capacity + 2 pairwise distant searches with the bound read after each.",
        "assumptions": ["the semantic adapter's auxiliary embedding store is recorded, not judged (the statement names the document cache, the query-result cache and the recent-write tier)"],
        "expected_probes": ["document_cache_full", "query_cache_full", "emergency_drain"],
        "tiers": {"quick": {"runs_per_worker": 1000000, "budget_s": 30}, "thorough": {"runs_per_worker": 10000000, "budget_s": 600}},
        "level_text": "Seeded exploration of histories x capacities x strategies with the size bounds checked as invariants after every operation.",
        "level_note": "trusted base: the public size accessors (cache_size, QueryHashCache::len, HotTier::len)",
    },
    "C06": {
        "level": "exploration",
        "design_ref": "DESIGN.md section 5/C06",
        "engine": "sequential driver + E1 clock + paused tokio runtime + E2 (stall gate; scheduler for the race rows)",
        "technique": "deterministic simulation: seeded histories of writes/deletes/overwrites/drains followed by searches through every entry point (timed variant on a paused runtime with 0/1/large permits and with the slow-tier fault: the hot and/or cold tier's blocking search is parked by the E2 stall gate, the paused clock is advanced past the tier's timeout, the engine takes its timeout branch, breakers open after three and half-open after a simulated minute), every response judged against brute-force f64 distances on a reference model",
        "rule": "seeded histories (4-34 steps quick, 4-70 thorough; a quarter start with a 90% tombstone prefix, a sixth of the others with a crowded neighbourhood: 3-14 superseded versions of one document next to a pooled query, a freshly acknowledged nearest live document that is re-written 2/3 of the time with the same vector, then a k=1/2 search; a sixth of later writes to a known id re-use its vector) over TieredEngine x metric x dimension {1,3,4,7,8,9,15,16,17,31,32,33,40,48,64,80,100,112} x strategies x query-cache capacity x hot limits x "
                "timeouts {50,10000}/{1000,10000} ms x permits {0,1,1000}; a twelfth of the searches are timed searches with a slow hot tier, slow cold tier or both (a third of those as a burst of three, the breaker threshold); drift steps plant 1-3 recent-write-tier entries without canonical record / with a diverging vector / with a vector the index refuses, mostly drained at once; searches via knn_search_with_ef_detailed_scoped (with/without ef), the batch variant, the cold backend (single/batch) and "
                "knn_search_with_timeouts_with_ef_scoped; k in {1,2,3,4,5,10,100,1000}; vectors exactly normalised, far from normalised and inside the [0.98,1.02] band; queries repeated to hit the result cache. "
                "Every response: <= k results, distinct ids, all in the model now, non-decreasing distance, reported distance inside the interval spanned by the cold-tier and hot-tier formulas on the stored vector "
                "(+- 3e-5 + 3e-4 |d|; cache hits are judged against the query of the entry that was served); every acknowledged write resident in the recent-write tier before the search that is strictly closer than the k-th result is present "
                "(judged for timed responses too unless the engine's own counters report a timeout, an open breaker, worker/queue saturation or a partial result for that call; not judged for cache hits nor while a planted mirror entry is resident). evaluations = responses judged. distinct_nontrivial = distinct hashes of the (result count, execution path) sequence of runs with >1 search. Every eighth run is a race row (shared with C07): one searcher thread || one writer thread under the seeded scheduler (a quarter with a crowded neighbourhood of tombstones, a quarter on a tiny index whose prefix fills it so that the writer's insert compacts tombstones and renumbers the internal slots); every (document, distance) pair the racing search returned must be the distance to some version that document had during the run.",
        "assumptions": ["a tier timeout fires while the tier's blocking search is parked at its first lock acquisition (the engine discards whatever a timed-out tier search returns later, so where inside the search the expiry falls makes no difference to the response; memory safety of mid-search cancellation is C17's subject)", "tokio's blocking pool is not scheduled by E2: the stalled thread is released only after the engine call has returned, and the runtime is dropped (which joins it) before the next step", "recall of the approximate index is not judged (C16 is not applicable)"],
        "expected_probes": ["path_cache_hit", "path_hot_and_cold", "path_hot_only", "path_cold_only", "load_shed", "drain_between_searches", "slow_tier_thread_stalled", "timed_degraded_hot_timeout", "timed_degraded_cold_timeout", "timed_degraded_breaker_open", "drift_repaired_into_canonical_store"],
        "tiers": {"quick": {"runs_per_worker": 1000000, "budget_s": 35}, "thorough": {"runs_per_worker": 10000000, "budget_s": 600}},
        "level_text": "Seeded exploration of histories x inputs x configurations; each search response judged exactly for soundness and recent-write completeness against a brute-force reference.",
        "level_note": "trusted base: reference map + f64 distance reference with a stated tolerance; pin of stored vectors",
    },
    "C07": {
        "level": "exploration",
        "vsim_id": "C07",
        "design_ref": "DESIGN.md section 5/C07",
        "engine": "sequential driver (+ E2 for the searcher/writer race, see C07 race rows in notes)",
        "technique": "deterministic simulation: the C06 histories with a harness-side mirror of every result the engine may have cached; each reported cache hit is checked for provenance (scope, k, served list) and freshness against the write log",
        "rule": "the C06 histories (queries repeated from a small pool under scopes {0,1,2} with k ladders; writes placed near pooled queries at offsets {0,1e-3,0.05,0.3} to sit around the pruning bound; similarity threshold 1.0 and 0.95; timed searches under the slow-tier fault -- a partial result must never become a servable entry; drift steps whose drain repairs planted mirror-only records into the canonical store, with repairs that succeed and repairs that fail sharing one drain). "
                "For every response reported as SearchExecutionPath::CacheHit: (1) provenance -- some mirrored result with the same scope, requested k >= k, a query at least threshold-similar and an identical k-prefix must exist "
                "(else: foreign scope, larger-k reuse, fabricated); (2) freshness w.r.t. the most recent such entry -- since it was stored no returned id was deleted, overwritten, metadata-updated or bulk-loaded, no bulk load "
                "happened, and no vector was written (or repaired into the canonical store by a drain) whose distance to the entry's query is strictly inside the entry's boundary. evaluations = responses judged (hits and misses). distinct_nontrivial as C06.",
        "assumptions": ["similarity hits (threshold < 1, or parallel queries at threshold 1) serve another query's list by design and are judged relative to the served entry", "the searcher/writer race rows drive knn_search_with_ef_detailed_scoped against one writer thread (a quarter of the programs with a crowded neighbourhood of tombstones next to the query); the timed and batch entry points are raced only in C08's programs (no cache oracle there)"],
        "expected_probes": ["path_cache_hit", "drift_repaired_into_canonical_store", "slow_tier_thread_stalled"],
        "tiers": {"quick": {"runs_per_worker": 1000000, "budget_s": 35}, "thorough": {"runs_per_worker": 10000000, "budget_s": 600}},
        "level_text": "Seeded exploration of search/write histories; every cache hit is decided exactly against a mirror of storable results and the write log.",
        "level_note": "trusted base: the mirror of storable results, the write log, the f64 distance reference",
    },
    "C11": {
        "level": "exploration",
        "design_ref": "DESIGN.md section 5/C11",
        "engine": "E1 simlibc (histories with restarts)",
        "technique": "deterministic simulation: seeded histories with overwrites, metadata merges/replacements, deletes, tombstone compaction, restarts and filtered batch deletes; filter selection judged against the harness's own implementation of the documented semantics over a reference map",
        "rule": "seeded histories (4-26 steps quick, 4-50 thorough) over HnswBackend / TieredEngine (capacity {4,8,1000} => tombstone compaction, restarts => index rebuilt by recovery); metadata over keys {k,s} x values "
                "{5, 05, +5, 5.0, 5e0, -0, 0, inf, -inf, NaN, ' 5', '', e-acute, 10, a, -3.5, 300-char}; merges that turn numeric values into strings and back; 1/8 of the inserts and 1/10 of the replacements carry no metadata at all (such documents belong to every NOT / match-all / empty-AND selection). At seeded steps (and after metadata updates, deletes, restarts) a batch of filters is "
                "evaluated: a rotating window of the exhaustive leaf catalogue (no filter, empty and/or/not, range without bound, every exact and every range operator x every value x every key incl. a missing key, each also under NOT; 486 filters) "
                "plus seeded trees to depth 4. ids_for_metadata_filter(f) == {id in model | ref(f, metadata)}; metadata_filter::matches agrees with ref on every (filter, live metadata) pair; TieredEngine::batch_delete_by_metadata_filter(f) removes "
                "exactly that set (canonical census before/after). evaluations = filters evaluated against the live engine. distinct_nontrivial = distinct (filter, selected id set) pairs whose selected set is neither empty nor everything. A third of the evaluation batches and a sixth of the filtered deletes also carry towers of and / or / not wrappers 5-200 levels high (heights around 32 and 64) over a leaf or a small tree.",
        "assumptions": ["the filter semantics by themselves are a pure function; the claim is about the selection staying exact inside histories (index maintenance, compaction, recovery, filtered delete)", "start-up recount of the server is judged by C14"],
        "expected_probes": ["filtered_batch_delete"],
        "tiers": {"quick": {"runs_per_worker": 1000000, "budget_s": 30}, "thorough": {"runs_per_worker": 10000000, "budget_s": 600}},
        "level_text": "Seeded exploration of histories x filter trees with an exhaustive leaf catalogue rotated through the runs; each selection judged exactly against an independent reference implementation.",
        "level_note": "trusted base: the harness's reference matcher (Rust f64 parse for 'numeric'), the reference map",
    },
    "C19": {
        "level": "exploration",
        "design_ref": "DESIGN.md section 5/C19",
        "engine": "E1 clock + E2 simsched",
        "technique": "deterministic simulation: arrivals as events on the simulated clock, caller threads interleaved at the bucket mutexes by the seeded scheduler; window bounds, refund and fairness checked over the recorded history",
        "rule": "programs = (tenant rates from {1,2,3,10,100,1000}/s x 1-3 tenants, optional global rate from {1,2,5,20,150,2000}/s, 1-3 caller threads x 3-30 calls (3-60 thorough), arrival pattern per thread: burst, exact 1/rate spacing +-1 ns / +2 us, "
                "long idles up to 1 h, one tenant hammering, uniform in [0, 2/rate]); in 1 of 16 direct programs a crowd of 60 / 700 / 4200 / 5000 tenants nobody has seen before makes one call each in front of one or two of the calls (the limiter then tracks thousands of buckets; crowd admissions count towards the global bound); 6 seeded schedules per program; every fifth program (<= 12 calls per thread) is issued as Query RPCs and, for a third of the calls, BulkSearch streams of 2-8 requests through the in-process server (interceptor -> handler -> enforce_rate_limit, admitted = not RESOURCE_EXHAUSTED 'rate limit exceeded') instead of calling the limiter directly. For every window of admitted calls of a tenant (and of all tenants for the global bucket), with times taken on the simulated clock "
                "before the first and after the last call: count <= burst + rate x dt + 1e-6. Single-caller programs additionally: a call refused while the tenant had >= 1 token (so refused by the global bucket) leaves available_tokens(tenant) "
                "not lower than before; a call refused although conservative lower bounds on both the tenant's and the global bucket's tokens are >= 1 is a violation. evaluations = programs x schedules judged. "
                "distinct_nontrivial = distinct (decision trace, admitted count) among runs with both admitted and refused calls.",
        "assumptions": ["fairness/refund clauses are only evaluated where attribution is exact (one caller thread)", "server rows use Query (one token per request) and BulkSearch streams of 2-8 requests (one token per message; answered requests count as admissions; runs with streams are judged by the window bounds only); BulkInsert / BulkLoadHnsw streams are not driven"],
        "expected_probes": ["global_refusal_with_tenant_tokens_available", "multi_thread_runs", "runs_through_the_server"],
        "tiers": {"quick": {"runs_per_worker": 1000000, "budget_s": 25}, "thorough": {"runs_per_worker": 10000000, "budget_s": 600}},
        "level_text": "Seeded exploration of (rates, tenants, threads, arrival patterns) x schedules on a simulated clock; all windows of each recorded history are checked against the token-bucket bound, plus refund and fairness where attribution is exact.",
        "level_note": "trusted base: simulated clock (monotone, 1 us per read), bracketing of call times, conservative reference lower bounds",
    },
    "C10": {
        "level": "exploration",
        "design_ref": "DESIGN.md section 5/C10",
        "engine": "E3 in-process server (real handlers, interceptor, generated router/codec, /usage route)",
        "technique": "deterministic simulation: seeded multi-tenant RPC histories against the real server run in-process on a paused runtime and simulated clock; per-tenant reference models, ground-truth inspection after every step, and non-interference against a second simulated run of each tenant's own projection",
        "rule": "history = 6-32 steps (10-60 thorough) by 2-3 tenants over local ids 1..4 (+0, u32::MAX, u32::MAX+1, 2^32+1), 6 shared vectors, namespaces {'', blue, red}, metadata with spoofed __tenant_id__/__tenant_idx__/__namespace__ in 1/3 of writes, "
                "filters from NOT/OR/reserved-key/empty-AND/empty-OR shapes + the C11 generator, repeated identical searches (cache reuse), calls with no key / unknown key / malformed key / disabled tenant's key / Bearer form, /usage (self, scope=all), restarts on persistent configs; in a third of the runs one tenant has a second enabled key (rotation) used for a quarter of its calls, and in half of the persistent runs the last tenant is added to the key file only at the first restart (its earlier calls must be refused, its index must not collide); "
                "server config drawn per run (metric, L1a capacity 1/2/8, query-cache capacity 1/4/32, hot tier 2-6 soft, shared index capacity 400/16/10: with the small ones the index fills up, tombstone compaction runs, and writes refused for lack of room are accepted as refusals without effect; the alone-vs-interleaved comparison is skipped for histories with such refusals). Judged per step: (1) point operations (Insert, BulkInsert, BulkLoadHnsw, Delete, UpdateMetadata, Query, BulkQuery, BatchDelete ids/filter) "
                "equal the acting tenant's own sequential model, which is built from that tenant's requests only; (2) every Search/BulkSearch item is a live own document satisfying namespace selector and filter, with exactly the owner's public metadata and vector, no reserved key, total_found within the own matches; "
                "(3) after every step the canonical documents (cold-tier scan, full metadata) equal the union of the tenant models with server-owned keys = owner identity and insert-time namespace; (4) calls without a valid enabled key answer UNAUTHENTICATED with no body and change nothing; /usage: 401 without key, 403 for scope=all, "
                "own report mentions no other tenant; (5) each tenant's projection re-run alone in a fresh server: every answer must be equal, except search answers that differ only by a pick among the tenant's own equally distant documents (own-only candidate reference). "
                "evaluations = steps executed in interleaved worlds. distinct_nontrivial = distinct digests of the interleaved answer sequence.",
        "assumptions": ["the auth interceptor closure, start-up recount and recover-or-fresh start are main()'s own lines, cut out of the working tree at build time (sim/vsim/build.rs); if they stop compiling inside the harness the driver prints a WARN line and falls back to the hand copy in vsim/src/server_harness.rs (evidence real_vs_stub says which ran); the rest of main() is not run",
                        "TLS, HTTP/2 framing and the TCP listener are not exercised: requests enter at the tower Service boundary with hand-framed gRPC messages",
                        "whether a filter on a reserved key may select the caller's own documents is not judged (the model evaluates filters over the full server-side metadata of the caller's own documents)"],
        "expected_probes": ["same_local_id_live_for_two_tenants", "insert_with_spoofed_reserved_key", "update_with_spoofed_reserved_key_applied", "search_served_from_query_cache", "call_without_valid_enabled_key", "runs_with_restart", "search_differs_within_tie_freedom", "small_index_capacity_runs", "histories_with_index_full_refusals", "runs_with_a_rotated_second_key", "runs_with_a_tenant_added_at_restart"],
        "tiers": {"quick": {"runs_per_worker": 1000000, "budget_s": 40}, "thorough": {"runs_per_worker": 10000000, "budget_s": 900}},
        "level_text": "Seeded exploration of multi-tenant RPC histories through the real in-process server; isolation judged by per-tenant models, canonical ground truth after each step and alone-vs-interleaved non-interference.",
        "level_note": "trusted base: prost encode/decode of the harness, per-tenant model of the documented point-operation semantics, C11 reference filter semantics, own-only search reference (counts only)",
    },
    "C14": {
        "level": "exploration",
        "design_ref": "DESIGN.md section 5/C14",
        "engine": "E3 in-process server + E2 simsched (concurrent rows)",
        "technique": "deterministic simulation: seeded write histories of one tenant near its limit against the real server run in-process, invariant evaluated after every RPC and restart; rows with 2-3 caller threads interleaved at every lock operation by the seeded scheduler",
        "rule": "even runs: sequential history of 4-24 steps (6-50 thorough) by tenant acme (max_vectors in {1,2,3,5}, ids 1..limit+2 plus 0 and u32::MAX+1) and a bystander tenant: Insert, BulkInsert and BulkLoadHnsw of 1-5 items with duplicate ids inside the batch and rejected items "
                "(wrong dimension, NaN/inf lane, zero vector, f32::MAX lanes), Delete (absent ids), BatchDelete by ids (duplicates, absent) and by filter, UpdateMetadata, FlushHotTier, index capacity 12 or 400, restarts on persistent configs; on persistent configs a fifth of the write RPCs run with 1-3 storage faults armed on the data directory (C03's fault generator: errno / short write on WAL, snapshot, MANIFEST, directory calls). "
                "odd runs: 0-6 sequential steps, then 2-3 caller threads x 1-2 RPCs (Insert, Delete, BulkInsert, BulkLoadHnsw, BatchDelete ids/filter) mostly on one id, 4 seeded schedules (random walk, sticky, PCT, bounded preemption) per program. "
                "Invariant after every sequential RPC, after every restart and after the concurrent tail, for every tenant: server quota counter == number of canonical documents carrying the tenant's index (cold-tier ground truth); live <= max_vectors; "
                "a single Insert answered RESOURCE_EXHAUSTED while the tenant was below its limit is a violation. evaluations = RPCs executed. distinct_nontrivial = distinct digests of (status codes, counter trajectory, decision trace).",
        "assumptions": ["the start-up recount is main()'s own text cut out at build time (hand copy in vsim/src/server_harness.rs only as a fallback, see evidence real_vs_stub)", "/usage vector_count is not judged (the usage tracker is not restored by the harness at start-up)",
                        "rayon worker threads inside bulk loads are not scheduled by E2 (they take no engine lock)"],
        "expected_probes": ["rpc_issued_at_the_limit", "refused_resource_exhausted", "bulk_batch_with_duplicate_ids", "bulk_load_partial_failure", "bulk_insert_partial_failure", "insert_failed_in_engine_after_reservation", "restart_recount_with_live_documents", "concurrent_rows", "rpc_with_storage_fault_fired", "rpc_failed_under_storage_fault"],
        "tiers": {"quick": {"runs_per_worker": 1000000, "budget_s": 30}, "thorough": {"runs_per_worker": 10000000, "budget_s": 900}},
        "level_text": "Seeded exploration of single-tenant write histories near the quota limit (sequential with restarts, and concurrent under seeded schedules) through the real in-process server; counter == live judged after every step.",
        "level_note": "trusted base: ground truth = cold-tier metadata-index lookup of the tenant index; E2 lock model",
    },
    "C15": {
        "level": "exploration",
        "design_ref": "DESIGN.md section 5/C15",
        "engine": "E3 in-process server (real handlers, validators, generated router/codec, panic containment layer)",
        "technique": "deterministic simulation: seeded scripts of structurally generated boundary / pathological requests against the real server run in-process; after every call the delivered status, the canonical collection (ground truth) and continued service are judged, then the server is restarted and the collection compared again",
        "rule": "server with auth on and two tenants, the acting one sorting second so that its tenant index is 1 and global ids differ from local ids; script = 3 baseline documents (one sentinel) + 4-18 calls (6-40 thorough); each call picks an RPC (Insert, BulkInsert, BulkLoadHnsw, Delete, UpdateMetadata, Query, BulkQuery, Search, BulkSearch, BatchDelete ids/filter/none, FlushHotTier, raw undecodable frames on every method, unknown methods) "
                "and with probability 2/3 poisons fields: ids {0, u32::MAX, u32::MAX+1, u64::MAX}; vectors {empty, 4097 lanes, 4096 lanes, dim-1, dim+1, NaN, +inf, -inf, all 0.0, all -0.0, all f32::MAX, smallest denormal, +-3e38, 1 lane}; k {0, 999, 1000, 1001, u32::MAX, 256, 65536, 65537, 66536, 131072, 2^20, 2^20+3}; ef {1, 10000, 10001, u32::MAX, 65536, 65546, 75536, 2^20+64} (values whose low 8/16/20 bits alone are in range); ids also 2^32+n, 2^48+n; "
                "min_score {NaN, +-inf, 2, -1, denormal}; filters {unset oneof, range without bound, NOT without operand, empty AND/OR/IN, 300-way AND, 2000-value IN, nesting 20..5000 levels of NOT/AND/OR, non-numeric range bounds}; metadata {70 kB value, empty key, 200 keys, reserved key}; "
                "streams of 0-6 items mixing valid and poisoned ones, streams and id lists of 10001-10003 entries. Each item / request is classified valid, invalid or borderline (zero, overflowing-norm, denormal vectors, deep-but-decodable filters: may be refused or accepted). "
                "Judged per call: (1) a gRPC status reached the client and any response frame decodes; (2) invalid requests are refused (non-OK status or success=false with nothing accepted); (3) the canonical collection (ids, stored vectors, full metadata) changed exactly as the valid items allow: "
                "no invalid item applied on any write path, every valid item applied, borderline items applied only with a finite stored vector, per-item accepted/failed counts within the class bounds; read-only and refused calls change nothing; (4) the sentinel is still served after every call and a final valid search answers; "
                "(5) persistent configs: restart, recovered collection == live collection. evaluations = calls judged. distinct_nontrivial = distinct status-code sequences.",
        "assumptions": ["requests enter at the tower Service boundary (no HTTP/2 framing limits, no max message size of the transport)", "the model of valid UpdateMetadata / Delete / BatchDelete effects is the documented one (C10/C11 references)",
                        "which copy of a duplicated id wins inside one BulkLoadHnsw batch is not judged"],
        "expected_probes": ["status_0", "status_3", "status_13", "status_12", "restart_census"],
        "tiers": {"quick": {"runs_per_worker": 1000000, "budget_s": 40}, "thorough": {"runs_per_worker": 10000000, "budget_s": 900}},
        "level_text": "Seeded structural exploration of RPC x field x boundary value through the real in-process server with ground-truth census after every call and after restart.",
        "level_note": "trusted base: prost encode/decode of the harness, classification of items into valid / invalid / borderline, cold-tier census",
    },
    "C12": {
        "level": "exploration",
        "design_ref": "DESIGN.md section 5/C12",
        "engine": "E1 simlibc (clock, file mtimes, randomness) over real files",
        "technique": "deterministic simulation: seeded engine histories with backups at quiescent points on a simulated clock and simulated file mtimes, process crashes rebuilt from the storage journal and failing storage calls between backups; every backup and point-in-time target restored into an empty directory and the real engine started from it; seeded single-byte damage / truncation of archives and metadata; retention over synthetic timelines at a simulated now",
        "rule": "4 of 5 runs: history of 5-30 steps (8-60 thorough) over 3-8 ids: insert / delete / batch delete / metadata update, explicit snapshots, automatic snapshots (interval 2/3/5), WAL rotation limits 1 B / 300 B / 2 KiB / unbounded (compaction after snapshots), restarts, clock gaps {0,1,2,5,3600} s, "
                "full backups and incremental backups on the latest backup / latest full / an arbitrary earlier backup; crash steps (the data directory is journaled: the directory is rebuilt as of 0-24 storage effects before the end, never before the latest backup, kill or torn inside the write it dies in, file times as of the last effect per file; half of the time a full backup of the directory as the crash left it, expected collection = what the following start gives); operations (insert / delete / snapshot / engine start, a failed start being followed by a fault-free one) under failing storage calls as in C03 (only the backups taken afterwards are judged; in a history with a fired fault a backup may equal the live census or what a start from a copy of the source gives); backend and tiered engines, fsync always. Expected collection of a backup = live census when it was taken. Judged: (1) every backup (first 8) restored into an empty directory, engine started (strict recovery), census == expected; "
                "(2) point-in-time targets at every backup timestamp and +-1 s: census equals an eligible backup (rooted in a newest full backup <= target, chain <= target, not superseded by a strictly newer eligible child), refusal only when no full backup is old enough; "
                "(3) a refused incremental ('No new WAL files') only when the live census still equals the parent's; (4) non-empty target without confirmation: refused and byte-identical; dry run: byte-identical; "
                "(5) [a third of the damaged chains go through the point-in-time entry point, accepted restores then compared with every backup's collection; the restore of a damaged chain runs in a forked child and a killed child counts as accepted damage] 24 (60 thorough) damages of a chain's archive or metadata file (1/6 truncations at 0 / len-1 / len/2 / random, else one bit flipped at a structural offset (first 48 bytes) or a random offset), restore with confirmation into a populated target: refused with the target byte-identical, or accepted with census == expected. "
                "1 of 5 runs: 2-9 (2-14 thorough) synthetic backups (ages across minute/hour/day/week/month boundaries, chains and branches) x retention policy from {0,1,2,24} h x {0,1,7} d x {0,1,4} w x {0,1,12} m x min age {0,1,30} d at a simulated now: after prune_backups every retained backup still has its whole parent chain and nothing younger than the minimum age is gone. "
                "evaluations = restores + prunes judged. distinct_nontrivial = distinct (backup kinds, collection sizes) digests. Half of the restored backups are restored a second time while 1-2 storage calls on the target fail (write errno, short write, fsync, open): a restore that reports success must start with the backup's collection, one that fails loudly is fine.",
        "assumptions": ["backups are taken while the engine is idle but open (fsync always), as the kyrodb_backup binary does against a running server's directory", "S3 upload/download and the CLI argument parsing are not exercised",
                        "file mtimes are stamped from the simulated clock by the libc seam on every open-for-write / write / truncate below the data directory"],
        "expected_probes": ["crash_inside_a_procedure", "full_backups_of_crashed_directory", "operation_succeeded_despite_storage_fault", "operation_failed_under_storage_fault", "full_backups", "incremental_backups", "incremental_after_snapshot_and_compaction", "incremental_after_restart", "incremental_refused_no_new_wal", "pitr_restores_judged", "pitr_before_first_backup_refused", "guard_refused_non_empty_target", "damaged_backup_rejected", "damage_harmless_restore_equal", "retention_pruned_something"],
        "tiers": {"quick": {"runs_per_worker": 1000000, "budget_s": 30}, "thorough": {"runs_per_worker": 10000000, "budget_s": 900}},
        "level_text": "Seeded exploration of histories x backup points x restore targets with the real engine started on every restored directory, plus sampled single-byte damage and synthetic retention timelines.",
        "level_note": "trusted base: live census as the expected collection (C02 shows restart == live), libc seam for clock and mtimes, byte-wise directory comparison",
    },
    "C17": {
        "level": "exploration",
        "design_ref": "DESIGN.md section 5/C17",
        "engine": "E4 instrumented executors: Miri (seeded thread scheduler, one build per SIMD kernel family) + AddressSanitizer",
        "technique": "deterministic simulation of the index under an interpreter that checks every memory access: seeded insert/search/cancel sequences with reader, writer and cancellation threads interleaved by Miri's seeded scheduler, one build per kernel family; the same workload at larger sizes natively under AddressSanitizer; results compared with a brute-force reference",
        "rule": "row = (dimension 1..130 biased to k*4+-1, k*8+-1, k*16+-1, k*32+-1 and fixed boundary values; metric cosine/euclidean/inner product; M in {4,5,8,16,33,64}; ef_construction in {1,4,16,50}; capacity n-1 / n / n+1 / roomy; n = 2..11 vectors under Miri, 20..419 under ASan): "
                "sequential add_vector of a prefix (1/5 duplicate vectors, 1/8 duplicate ids), complete_sequential_inserts, parallel_insert_batch of the rest up to capacity, one batch and one insert beyond capacity, inserts and searches with dimension +-1 / +3 / empty; "
                "3 (30 under ASan) searches with k in {1,2,3,10,1000,10000} and ef in {default,1,k,64 or 10000,1..40}, each repeated with a cancellation flag already set or not; in 2/3 of the rows two reader threads (3 searches each, shared cancellation flag), a thread that sets the flag after a PRNG number of reader steps and a writer thread inserting under the write lock. "
                "Miri rows: one build per kernel family selected by compile-time target features (sse2 baseline; +avx2,+fma; +avx512f,+avx2,+fma -- Miri reports exactly these as detected, the workload prints and the runner checks the selected family), schedule seed per process, preemption rate 0.1. ASan rows: native release build, best kernel of the machine. "
                "Each row also offers malformed batches (first element too short / too long / 1 lane) to the still empty index. Violation: any Miri undefined-behaviour / data-race report, any AddressSanitizer report, a bounds-check panic inside simd.rs / ann_backend.rs / hnsw_index.rs (an out-of-bounds access that was attempted and stopped), or a search result whose id was never inserted / is duplicated / whose distance differs from the f64 reference. evaluations = rows completed. distinct_nontrivial = distinct (kernel row, dimension) pairs.",
        "assumptions": ["the scalar kernel cannot be selected on x86_64 (sse2 is always detected) and is not run", "natively only the best kernel of this machine (AVX-512) runs under ASan; the lower families run under Miri only, at small sizes",
                        "a Miri 'unsupported operation' in a kernel row is reported as 'row not run', never as a violation", "the input/configuration part of this property is input generation under an instrumented executor; simulation contributes the seeded interleaving of readers, writer and cancellation"],
        "expected_probes": [],
        "tiers": {"quick": {"runs_per_worker": 0, "budget_s": 40, "asan_rows_per_worker": 25}, "thorough": {"runs_per_worker": 0, "budget_s": 900, "asan_rows_per_worker": 600}},
        "level_text": "Seeded exploration of index configurations and operation sequences under Miri (three kernel families, seeded schedules) and AddressSanitizer, with a brute-force result reference.",
        "level_note": "trusted base: Miri's and ASan's detection; kernel family selection verified by the workload's own feature probe",
        "runner": (lambda *a: __import__("c17runner").run(*a)),
    },
}
