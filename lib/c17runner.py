"""C17 runner: the index workload (sim/vmem) under Miri (one build per kernel family, seeded thread schedules) and
under AddressSanitizer (native). Same exit-code / VIOLATION / evidence contract as bin/check's vsim path."""
import json
import os
import re
import subprocess
import sys
import time

import vbuild

VERIF = vbuild.VERIF
SIM = vbuild.SIM
OUT = os.environ.get("VERIF_OUT", VERIF)

KERNELS = {
    "sse2": "",
    "avx2": "-C target-feature=+avx2,+fma",
    "avx512": "-C target-feature=+avx512f,+avx2,+fma",
}


def base_env():
    env = vbuild.cargo_env()
    env.pop("RUST_LOG", None)
    return env


def miri_env(kernel, miri_seed):
    env = base_env()
    env["RUSTFLAGS"] = ("-Awarnings " + KERNELS[kernel]).strip()
    env["CARGO_TARGET_DIR"] = os.path.join(vbuild.TARGET, "miri-" + kernel)
    env["MIRIFLAGS"] = "-Zmiri-seed=%d -Zmiri-preemption-rate=0.1" % miri_seed
    return env


def miri_cmd(args):
    return ["cargo", "+nightly", "miri", "run", "--offline", "--profile", "sim", "-p", "vmem", "--"] + args


def asan_env():
    env = base_env()
    env["RUSTFLAGS"] = "-Awarnings -Zsanitizer=address"
    env["CARGO_TARGET_DIR"] = os.path.join(vbuild.TARGET, "asan")
    env["ASAN_OPTIONS"] = "detect_leaks=0:abort_on_error=0:exitcode=66"
    return env


def build_all(kernels, want_asan):
    """Build every variant once (sequentially; cargo parallelises inside). Returns (seconds, asan_binary)."""
    t0 = time.time()
    vbuild.gen_shadow()
    for k in kernels:
        p = subprocess.run(miri_cmd(["--count", "0"]), cwd=SIM, env=miri_env(k, 0), stdout=subprocess.PIPE, stderr=subprocess.STDOUT, text=True)
        if p.returncode != 0:
            sys.stdout.write(p.stdout[-6000:])
            print("HARNESS-ERROR: Miri build for kernel row %s failed (not a property verdict)" % k)
            sys.exit(2)
    asan_bin = None
    if want_asan:
        p = subprocess.run(["cargo", "+nightly", "build", "--offline", "--target", "x86_64-unknown-linux-gnu", "--release", "-p", "vmem"], cwd=SIM, env=asan_env(),
                           stdout=subprocess.PIPE, stderr=subprocess.STDOUT, text=True)
        if p.returncode != 0:
            sys.stdout.write(p.stdout[-6000:])
            print("HARNESS-ERROR: AddressSanitizer build failed (not a property verdict)")
            sys.exit(2)
        asan_bin = os.path.join(vbuild.TARGET, "asan", "x86_64-unknown-linux-gnu", "release", "vmem")
    return time.time() - t0, asan_bin


def classify(rc, out, err):
    """-> (verdict, detail); verdict in ok | ub | mismatch | unsupported | panic | error"""
    if rc == 0:
        return "ok", ""
    text = err + "\n" + out
    if "VMEM-PROBLEM" in out:
        m = re.search(r"VMEM-PROBLEM (.*)", out)
        return "mismatch", m.group(1) if m else ""
    if "ERROR: AddressSanitizer" in text:
        m = re.search(r"ERROR: AddressSanitizer: ([^\n]*)", text)
        frames = re.findall(r"#\d+ 0x[0-9a-f]+ in ([^\s]+)", text)
        where = next((f for f in frames if "kyrodb_engine" in f), frames[0] if frames else "?")
        return "ub", "AddressSanitizer: %s in %s" % (m.group(1)[:200] if m else "?", where)
    if "Undefined Behavior" in text or "error: Undefined" in text:
        m = re.search(r"error: Undefined Behavior: ([^\n]*)", text)
        w = re.search(r"-->\s*([^\n]*engine[^\n]*)", text)
        return "ub", "Miri: %s at %s" % (m.group(1)[:300] if m else "?", w.group(1).strip() if w else "?")
    if "unsupported operation" in text:
        m = re.search(r"unsupported operation: ([^\n]*)", text)
        return "unsupported", m.group(1)[:200] if m else ""
    if "data race" in text.lower():
        m = re.search(r"error: ([^\n]*[Dd]ata race[^\n]*)", text)
        return "ub", "Miri: %s" % (m.group(1)[:300] if m else "data race")
    if "panicked at" in text:
        m = re.search(r"panicked at ([^\n]*\n[^\n]*)", text)
        detail = m.group(1)[:300] if m else ""
        # a tripped bounds check inside the index / kernel sources is an out-of-bounds access that was attempted
        if re.search(r"index out of bounds|out of range for slice|range (start|end) index|slice index starts", detail) and re.search(r"(simd|ann_backend|hnsw_index)\.rs", detail):
            return "oob_panic", detail
        return "panic", detail
    return "error", text[-800:]


def parse_summary(out):
    d = {}
    m = re.search(r"VMEM-SUMMARY (.*)", out)
    if m:
        for kv in m.group(1).split():
            if "=" in kv:
                k, v = kv.split("=", 1)
                d[k] = v
    k = re.search(r"VMEM-KERNEL (\w+)", out)
    d["kernel"] = k.group(1) if k else "?"
    rows = re.findall(r"VMEM-ROW (\d+)", out)
    d["last_row"] = int(rows[-1]) if rows else None
    return d


def site_fact(detail):
    m = re.search(r"(simd\.rs|ann_backend\.rs|hnsw_index\.rs)", detail)
    return m.group(1) if m else "other"


def run(pid, tier, seed, opts):
    import checks
    spec = checks.CHECKS[pid]
    sys.path.insert(0, os.path.join(VERIF, "bin"))
    t0 = time.time()
    known = []
    try:
        with open(os.path.join(VERIF, "known_findings.json")) as f:
            known = json.load(f).get("findings", [])
    except FileNotFoundError:
        pass
    os.makedirs(os.path.join(OUT, "replays"), exist_ok=True)
    os.makedirs(os.path.join(OUT, "evidence"), exist_ok=True)

    if "replay" in opts:
        return replay(pid, opts["replay"])

    t = spec["tiers"][tier]
    budget_s = float(opts.get("budget-s", t["budget_s"]))
    workers = int(opts.get("workers", os.environ.get("VERIF_WORKERS", os.cpu_count() or 4)))
    kernels = list(KERNELS)
    build_s, asan_bin = build_all(kernels, True)

    # every Miri process: `rows_per_proc` rows at ~3.5 s each + ~4 s start-up
    rows_per_proc = max(2, int((budget_s - 4) / 3.5))
    jobs = []
    per_kernel_workers = max(1, workers // len(kernels))
    for ki, k in enumerate(kernels):
        for w in range(per_kernel_workers):
            start = (ki * 1000 + w) * 1000
            miri_seed = (seed + ki * 7919 + w * 104729) % (1 << 31)
            args = ["--seed", str(seed), "--start", str(start), "--count", str(rows_per_proc)]
            jobs.append(("miri", k, miri_seed, start, rows_per_proc, subprocess.Popen(miri_cmd(args), cwd=SIM, env=miri_env(k, miri_seed), stdout=subprocess.PIPE, stderr=subprocess.PIPE, text=True)))
    results = []
    for mode, k, ms, start, cnt, p in jobs:
        try:
            so, se = p.communicate(timeout=budget_s * 6 + 300)
        except subprocess.TimeoutExpired:
            p.kill()
            so, se = p.communicate()
            print("HARNESS-ERROR: Miri worker (kernel %s, start %d) watchdog timeout" % (k, start))
            return 2
        results.append((mode, k, ms, start, cnt, p.returncode, so, se))
    # ASan rows afterwards (native speed): all workers
    asan_rows = int(t.get("asan_rows_per_worker", 30))
    jobs = []
    for w in range(workers):
        start = 5_000_000 + w * 10_000
        args = ["--seed", str(seed), "--start", str(start), "--count", str(asan_rows), "--big"]
        env = asan_env()
        jobs.append(("asan", "native", 0, start, asan_rows, subprocess.Popen([asan_bin] + args, env=env, stdout=subprocess.PIPE, stderr=subprocess.PIPE, text=True)))
    for mode, k, ms, start, cnt, p in jobs:
        try:
            so, se = p.communicate(timeout=budget_s * 6 + 600)
        except subprocess.TimeoutExpired:
            p.kill()
            so, se = p.communicate()
            print("HARNESS-ERROR: ASan worker (start %d) watchdog timeout" % start)
            return 2
        results.append((mode, k, ms, start, cnt, p.returncode, so, se))

    # a worker that ended with an unclassifiable error (e.g. cargo lost a race for its package-cache / build-directory
    # lock against another cargo process) is repeated once, alone
    retried = []
    for (mode, k, ms, start, cnt, rc, so, se) in results:
        if classify(rc, so, se)[0] == "error" and mode == "miri":
            args = ["--seed", str(seed), "--start", str(start), "--count", str(cnt)]
            p2 = subprocess.run(miri_cmd(args), cwd=SIM, env=miri_env(k, ms), capture_output=True, text=True)
            retried.append((mode, k, ms, start, cnt, p2.returncode, p2.stdout, p2.stderr))
        else:
            retried.append((mode, k, ms, start, cnt, rc, so, se))
    results = retried
    rows = 0
    harness_errors = []
    counters = {}
    dims_by_kernel = {}
    notes = []
    violations = []
    not_run = {}
    samples = []
    for mode, k, ms, start, cnt, rc, so, se in results:
        verdict, detail = classify(rc, so, se)
        s = parse_summary(so)
        label = "%s_%s" % (mode, s.get("kernel", k) if mode == "asan" else k)
        if mode == "miri" and s.get("kernel") not in (k, "?"):
            print("HARNESS-ERROR: Miri row built for kernel %s reports kernel %s" % (k, s.get("kernel")))
            return 2
        if verdict == "ok":
            n = int(s.get("rows", 0))
            rows += n
            counters["rows_" + label] = counters.get("rows_" + label, 0) + n
            for key in ("inserts", "searches", "cancelled", "concurrent_rows", "full_index_rows", "huge_rows"):
                counters[key + "_" + mode] = counters.get(key + "_" + mode, 0) + int(s.get(key, 0))
            for d in filter(None, s.get("dims", "").split(",")):
                dims_by_kernel.setdefault(label, set()).add(int(d))
            if len(samples) < 3:
                samples.append({"mode": mode, "kernel": label, "miri_seed": ms, "start_row": start, "rows": n, "dims": s.get("dims", "")[:80]})
        elif verdict == "unsupported":
            not_run[label] = detail
            notes.append("row %s not run: Miri does not support %s" % (label, detail))
        elif verdict in ("ub", "mismatch", "oob_panic"):
            row = s.get("last_row")
            clause = {"ub": "undefined_memory_access", "mismatch": "result_differs_from_brute_force_reference", "oob_panic": "out_of_bounds_access_stopped_by_bounds_check"}[verdict]
            violations.append({"property": pid, "clause": clause, "facts": {"executor": mode, "kernel": label, "site": site_fact(detail)}, "message": "%s row %s (workload seed %d, schedule seed %d): %s" % (label, row, seed, ms, detail),
                               "replay": {"check": pid, "mode": mode, "kernel": k, "seed": seed, "row": row, "miri_seed": ms, "big": mode == "asan"}})
        else:
            harness_errors.append("%s worker (kernel %s, start %d) ended with %s: %s" % (mode, k, start, verdict, detail[-1500:]))

    if harness_errors and not violations:
        for e in harness_errors[:4]:
            print("HARNESS-ERROR:", e)
        return 2
    head = subprocess.run(["git", "-C", vbuild.repo_root(), "rev-parse", "HEAD"], capture_output=True, text=True).stdout.strip()
    vio_lines = []
    known_hit = {}
    seen = set()
    for n, v in enumerate(violations):
        hit = None
        for e in known:
            if e.get("status") == "known" and e.get("property") == pid and (not e.get("clause") or e["clause"] == v["clause"]) and all(v["facts"].get(a) == b for a, b in e.get("facts", {}).items()):
                hit = e
        if hit:
            known_hit[hit["id"]] = hit
            continue
        key = (v["clause"], json.dumps(v["facts"], sort_keys=True))
        if key in seen:
            continue
        seen.add(key)
        path = os.path.join(OUT, "replays", "%s-%d-%s-%d.json" % (pid, seed, v["replay"]["row"], n))
        with open(path, "w") as f:
            json.dump({"property": pid, "clause": v["clause"], "facts": v["facts"], "message": v["message"], "seed": seed, "repo_head": head, "minimised": True, "replay": v["replay"]}, f, indent=1)
        vio_lines.append("VIOLATION property=%s replay=%s" % (pid, path))
        print(vio_lines[-1])
        print("  clause=%s facts=%s" % (v["clause"], json.dumps(v["facts"], sort_keys=True)))
        print("  " + v["message"][:700])
    for hid, e in sorted(known_hit.items()):
        print("KNOWN-FINDING: property=%s %s" % (pid, e["what"]))
    for n in notes[:6]:
        print("NOTE:", n)
    wall = time.time() - t0
    distinct = sum(len(v) for v in dims_by_kernel.values())
    evidence = {
        "property_id": pid, "tier": tier, "seed": seed, "level": spec["level"],
        "coverage": {
            "evaluations": rows, "distinct_nontrivial": distinct, "rule": spec["rule"], "samples": samples or [{"note": "no sample recorded"}],
            "simulated_runs": rows, "runs_per_hour": int(rows / max(wall - build_s, 1e-3) * 3600), "simulated_time_s": 0,
            "counters": counters, "fault_kinds_fired": {"cancellation_flag_during_or_before_search": counters.get("cancelled_miri", 0) + counters.get("cancelled_asan", 0),
                                                        "index_full_reached": counters.get("full_index_rows_miri", 0) + counters.get("full_index_rows_asan", 0)},
            "probes": {"kernel_rows_run": sorted(k for k in dims_by_kernel), "kernel_rows_not_run": not_run,
                       "dimensions_per_kernel_row": {k: len(v) for k, v in dims_by_kernel.items()}},
            "workers": workers, "real_vs_stub": {"real": ["kyrodb_engine::hnsw_index::HnswVectorIndex, ann_backend, simd kernels (compiled from /repo, lib crate only)"], "stub": ["no persistence, no server: the index is driven directly"]},
        },
        "assumptions": spec.get("assumptions", []),
        "wall_s": round(wall, 2), "build_s": round(build_s, 2), "violations": len(vio_lines), "known_findings_matched": sorted(known_hit), "repo_head": head, "notes": notes[:10],
    }
    with open(os.path.join(OUT, "evidence", "%s.json" % pid), "w") as f:
        json.dump(evidence, f, indent=1)
    print("%s %s: rows=%d kernel_rows=%s distinct(kernel,dim)=%d wall=%.1fs (build %.1fs) violations=%d known=%d" % (pid, tier, rows, sorted(dims_by_kernel), distinct, wall, build_s, len(vio_lines), len(known_hit)))
    return 1 if vio_lines else 0


def replay(pid, path):
    with open(path) as f:
        doc = json.load(f)
    r = doc["replay"]
    kernels = [r["kernel"]] if r["mode"] == "miri" else []
    _, asan_bin = build_all(kernels, r["mode"] == "asan")
    args = ["--seed", str(r["seed"]), "--start", str(r["row"]), "--count", "1"] + (["--big"] if r.get("big") else [])
    verdicts = []
    for _ in range(2):
        if r["mode"] == "miri":
            p = subprocess.run(miri_cmd(args), cwd=SIM, env=miri_env(r["kernel"], r["miri_seed"]), capture_output=True, text=True)
        else:
            p = subprocess.run([asan_bin] + args, env=asan_env(), capture_output=True, text=True)
        verdicts.append(classify(p.returncode, p.stdout, p.stderr))
    if verdicts[0][0] != verdicts[1][0] and r["mode"] == "miri":
        print("HARNESS-ERROR: replay is not deterministic:", verdicts)
        return 2
    v = verdicts[0] if verdicts[0][0] != "ok" else verdicts[1]
    if v[0] in ("ub", "mismatch", "oob_panic"):
        print("VIOLATION property=%s replay=%s" % (pid, path))
        print("  " + v[1][:700])
        return 1
    if v[0] == "ok":
        print("replay: no violation reproduced (the tree may have been repaired)")
        return 0
    print("HARNESS-ERROR: replay ended with %s: %s" % v)
    return 2
