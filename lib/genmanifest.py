#!/usr/bin/env python3
"""Generate /verif/MANIFEST.json from lib/checks.py (single source of truth)."""
import json
import os
import sys

HERE = os.path.dirname(os.path.abspath(__file__))
VERIF = os.path.dirname(HERE)
sys.path.insert(0, HERE)
import checks  # noqa: E402

ALL = ["C%02d" % i for i in range(1, 21)]
NA = {
    "C16": "recall floor / search determinism is a pure function of (dataset, parameters, build route): index construction is sequential and deterministic, so there is no schedule, clock, fault or interleaving for a simulator to decide (DESIGN.md section 6)",
    "C18": "configuration validation is a pure function of file contents and environment variables over a finite cross product of settings; enumerating it is enumeration, not simulation (DESIGN.md section 6)",
}
PENDING = "claimed check not built yet in this revision of /verif (work in progress; see DESIGN.md section 9 for the order)"

m = {
    "version": 1,
    "setup_cmd": "bin/setup",
    "hooks": {
        "guard": "--cfg kyrodb_verif (reserved; no hook exists: the seams are the libc symbol boundary and the parking_lot dependency boundary)",
        "enable": "no source hooks: checks build /repo/engine unmodified through a generated shadow Cargo.toml (sim/gen/engine_shadow) that renames the parking_lot dependency to the scheduling shim; the harness binary interposes libc symbols",
        "baseline_off_cmd": "cd /repo && cargo nextest run --workspace --no-fail-fast --tool-config-file pb:/w/lib/nextest.toml --profile pb --test-threads 8 --offline",
        "source_commits": [],
        "add_only": True,
    },
    "engines": [
        {"name": "E1 simlibc", "path": "sim/vsim/src/simlibc.rs", "serves_properties": ["C01", "C02", "C03", "C09", "C11", "C12", "C13"],
         "kind_free_text": "libc interposition inside the harness binary: journalled file-system calls, fault plan, simulated clock/sleep/randomness, crash-state materialiser (kill, torn, power-loss)"},
        {"name": "E2 simsched", "path": "sim/parking_lot_sim/src/sim.rs", "serves_properties": ["C05", "C07", "C08", "C09", "C14", "C19"],
         "kind_free_text": "seeded one-baton scheduler over real OS threads at lock granularity with parking_lot's RwLock acquisition rules modelled; random walk, PCT, bounded preemption, replay"},
        {"name": "E3 simserver", "path": "sim/vsim/build.rs", "serves_properties": ["C10", "C14", "C15"],
         "kind_free_text": "the real gRPC service (included server source) called as a tower Service on a paused current-thread tokio runtime"},
        {"name": "E4 memory-checked runs", "path": "sim/vmem", "serves_properties": ["C17"], "kind_free_text": "Miri many-seeds + ASan over seeded index workloads"},
    ],
    "checks": [],
    "not_applicable": [],
    "notes": "Deterministic simulation with fault injection; see DESIGN.md. `bin/check <ID> --replay <file>` replays a violation. Known findings: known_findings.json.",
}
for pid in ALL:
    spec = checks.CHECKS.get(pid)
    if spec is None:
        m["not_applicable"].append({"property_id": pid, "reason": NA.get(pid, PENDING)})
        continue
    m["checks"].append({
        "property_id": pid,
        "quick_cmd": "bin/check %s --tier quick" % pid,
        "thorough_cmd": "bin/check %s --tier thorough" % pid,
        "evidence_file": "evidence/%s.json" % pid,
        "replay_cmd_template": "bin/check %s --replay {path}" % pid,
        "engine": spec["engine"],
        "level_claimed": {"category": spec["level"], "text": spec["level_text"], "design_ref": spec["design_ref"]},
        "level_note": spec["level_note"],
        "technique": spec["technique"],
    })
with open(os.path.join(VERIF, "MANIFEST.json"), "w") as f:
    json.dump(m, f, indent=1)
print("MANIFEST.json: %d checks, %d not_applicable" % (len(m["checks"]), len(m["not_applicable"])))
