"""Build support: shadow manifest for the engine crate + cargo invocation.

The engine is compiled from $VERIF_REPO/engine (default /repo/engine) *unmodified*; only its Cargo.toml is
shadowed so that `parking_lot` resolves to the scheduling shim and bins/benches are not built.
"""
import os
import re
import shutil
import subprocess
import sys
import time

VERIF = os.path.dirname(os.path.dirname(os.path.abspath(__file__)))
SIM = os.path.join(VERIF, "sim")
GEN = os.path.join(SIM, "gen")
SHADOW = os.path.join(GEN, "engine_shadow")
TARGET = os.environ.get("VERIF_TARGET", os.path.join(VERIF, "target"))


def repo_root():
    return os.environ.get("VERIF_REPO", "/repo")


def _write_if_changed(path, content):
    try:
        with open(path) as f:
            if f.read() == content:
                return False
    except FileNotFoundError:
        pass
    with open(path, "w") as f:
        f.write(content)
    return True


def _symlink(target, link):
    try:
        if os.readlink(link) == target:
            return
        os.unlink(link)
    except FileNotFoundError:
        pass
    except OSError:
        if os.path.isdir(link) and not os.path.islink(link):
            shutil.rmtree(link)
        else:
            os.unlink(link)
    os.symlink(target, link)


def gen_shadow():
    """Generate sim/gen/engine_shadow/{Cargo.toml, src->, proto->, build.rs->}."""
    repo = repo_root()
    eng = os.path.join(repo, "engine")
    os.makedirs(SHADOW, exist_ok=True)
    with open(os.path.join(eng, "Cargo.toml")) as f:
        lines = f.read().split("\n")
    out = []
    skip_section = False
    in_package = False
    for ln in lines:
        s = ln.strip()
        if s.startswith("[") and s.endswith("]"):
            skip_section = s in ("[[bin]]", "[[bench]]", "[[test]]", "[[example]]")
            if in_package and s != "[package]":
                out.append("autobins = false")
                out.append("autobenches = false")
                out.append("autotests = false")
                out.append("autoexamples = false")
            in_package = s == "[package]"
            if skip_section:
                continue
        if skip_section:
            continue
        if in_package and re.match(r"^readme\s*=", s):
            continue
        if re.match(r"^parking_lot\s*=", s):
            out.append('parking_lot = { package = "parking_lot_sim", path = "../../parking_lot_sim" }')
            continue
        if re.match(r"^crate-type\s*=", s):
            out.append('crate-type = ["rlib"]')
            continue
        out.append(ln)
    _write_if_changed(os.path.join(SHADOW, "Cargo.toml"), "\n".join(out))
    for name in ("src", "proto", "build.rs"):
        _symlink(os.path.join(eng, name), os.path.join(SHADOW, name))
    # vsim's build.rs needs to know where the server source lives
    _write_if_changed(os.path.join(GEN, "repo_path.txt"), repo + "\n")
    lock = os.path.join(SIM, "Cargo.lock")
    if not os.path.exists(lock):
        shutil.copy(os.path.join(repo, "Cargo.lock"), lock)


def cargo_env():
    env = dict(os.environ)
    env["CARGO_NET_OFFLINE"] = "true"
    env["CARGO_TARGET_DIR"] = TARGET
    env.setdefault("GIT_COMMIT_HASH", "verif")
    env.setdefault("TARGET_TRIPLE", "x86_64-unknown-linux-gnu")
    env["VERIF_REPO_PATH"] = repo_root()
    # keep rustc quiet about the engine's own warnings; errors still shown
    env.setdefault("RUSTFLAGS", "-Awarnings")
    return env


def build(bins=("vsim",), quiet=True):
    """Build the simulation binaries from the current /repo working tree. Returns dict name->path.

    Exits the process with status 2 (harness error) if the build fails: a tree that does not compile is not a
    property violation.
    """
    gen_shadow()
    t0 = time.time()
    cmd = ["cargo", "build", "--offline", "--profile", "sim"]
    for b in bins:
        cmd += ["-p", b]
    env = cargo_env()
    p = subprocess.run(cmd, cwd=SIM, env=env, stdout=subprocess.PIPE, stderr=subprocess.STDOUT, text=True)
    if p.returncode != 0 and "vsim" in bins and "VERIF_NO_EXTRACT" not in env:
        # the pieces of main() that vsim's build script cuts out of the server source and wraps into functions may
        # stop compiling when main() is restructured: fall back to the harness's hand copy of those lines
        env["VERIF_NO_EXTRACT"] = "1"
        p2 = subprocess.run(cmd, cwd=SIM, env=env, stdout=subprocess.PIPE, stderr=subprocess.STDOUT, text=True)
        if p2.returncode == 0:
            print("WARN: the lines cut out of the server's main() did not compile inside the harness; using the hand-copied interceptor / recount / start-up decision instead")
            p = p2
    if p.returncode != 0:
        sys.stdout.write(p.stdout[-20000:])
        print("HARNESS-ERROR: build failed (not a property verdict)")
        sys.exit(2)
    if not quiet:
        sys.stdout.write(p.stdout[-2000:])
    return {b: os.path.join(TARGET, "sim", b) for b in bins}, time.time() - t0


def main_pieces_mode(vsim_path):
    """'extracted' when vsim runs main()'s own interceptor / recount / start-up lines, 'stub' for the hand copy."""
    try:
        return subprocess.run([vsim_path, "mode-info"], capture_output=True, text=True, timeout=20).stdout.strip() or "stub"
    except Exception:
        return "stub"


if __name__ == "__main__":
    paths, dt = build(quiet=False)
    print(paths, "%.1fs" % dt)
