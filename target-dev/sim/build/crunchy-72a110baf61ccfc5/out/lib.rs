
/// Unroll the given for loop
///
/// Example:
///
/// ```ignore
/// unroll! {
///   for i in 0..5 {
///     println!("Iteration {}", i);
///   }
/// }
/// ```
///
/// will expand into:
///
/// ```ignore
/// { println!("Iteration {}", 0); }
/// { println!("Iteration {}", 1); }
/// { println!("Iteration {}", 2); }
/// { println!("Iteration {}", 3); }
/// { println!("Iteration {}", 4); }
/// ```
#[macro_export]
macro_rules! unroll {
    (for $v:ident in 0..0 $c:block) => {};

    (for $v:ident < $max:tt in ($start:tt..$end:tt).step_by($val:expr) {$($c:tt)*}) => {
        {
            let step = $val;
            let start = $start;
            let end = start + ($end - start) / step;
            unroll! {
                for val < $max in start..end {
                    let $v: usize = ((val - start) * step) + start;

                    $($c)*
                }
            }
        }
    };

    (for $v:ident in ($start:tt..$end:tt).step_by($val:expr) {$($c:tt)*}) => {
        unroll! {
            for $v < $end in ($start..$end).step_by($val) {$($c)*}
        }
    };

    (for $v:ident in ($start:tt..$end:tt) {$($c:tt)*}) => {
        unroll!{
            for $v in $start..$end {$($c)*}
        }
    };

    (for $v:ident in $start:tt..$end:tt {$($c:tt)*}) => {
        #[allow(non_upper_case_globals)]
        #[allow(unused_comparisons)]
        {
            unroll!(@$v, 0, $end, {
                    if $v >= $start {$($c)*}
                }
            );
        }
    };

    (for $v:ident < $max:tt in $start:tt..$end:tt $c:block) => {
        #[allow(non_upper_case_globals)]
        {
            let range = $start..$end;
            assert!(
                $max >= range.end,
                "`{}` out of range `{:?}`",
                stringify!($max),
                range,
            );
            unroll!(
                @$v,
                0,
                $max,
                {
                    if $v >= range.start && $v < range.end {
                        $c
                    }
                }
            );
        }
    };

    (for $v:ident in 0..$end:tt {$($statement:tt)*}) => {
        #[allow(non_upper_case_globals)]
        { unroll!(@$v, 0, $end, {$($statement)*}); }
    };

    (@$v:ident, $a:expr, 0, $c:block) => {
        { const $v: usize = $a; $c }
    };

    (@$v:ident, $a:expr, 1, $c:block) => {
        { const $v: usize = $a; $c }
    };

    (@$v:ident, $a:expr, 2, $c:block) => {
        { const $v: usize = $a; $c }
        { const $v: usize = $a + 1; $c }
    };

    (@$v:ident, $a:expr, 3, $c:block) => {
        { const $v: usize = $a; $c }
        { const $v: usize = $a + 1; $c }
        { const $v: usize = $a + 2; $c }
    };

    (@$v:ident, $a:expr, 4, $c:block) => {
        { const $v: usize = $a; $c }
        { const $v: usize = $a + 1; $c }
        { const $v: usize = $a + 2; $c }
        { const $v: usize = $a + 3; $c }
    };

    (@$v:ident, $a:expr, 5, $c:block) => {
        { const $v: usize = $a; $c }
        { const $v: usize = $a + 1; $c }
        { const $v: usize = $a + 2; $c }
        { const $v: usize = $a + 3; $c }
        { const $v: usize = $a + 4; $c }
    };

    (@$v:ident, $a:expr, 6, $c:block) => {
        { const $v: usize = $a; $c }
        { const $v: usize = $a + 1; $c }
        { const $v: usize = $a + 2; $c }
        { const $v: usize = $a + 3; $c }
        { const $v: usize = $a + 4; $c }
        { const $v: usize = $a + 5; $c }
    };

    (@$v:ident, $a:expr, 7, $c:block) => {
        { const $v: usize = $a; $c }
        { const $v: usize = $a + 1; $c }
        { const $v: usize = $a + 2; $c }
        { const $v: usize = $a + 3; $c }
        { const $v: usize = $a + 4; $c }
        { const $v: usize = $a + 5; $c }
        { const $v: usize = $a + 6; $c }
    };

    (@$v:ident, $a:expr, 8, $c:block) => {
        { const $v: usize = $a; $c }
        { const $v: usize = $a + 1; $c }
        { const $v: usize = $a + 2; $c }
        { const $v: usize = $a + 3; $c }
        { const $v: usize = $a + 4; $c }
        { const $v: usize = $a + 5; $c }
        { const $v: usize = $a + 6; $c }
        { const $v: usize = $a + 7; $c }
    };

    (@$v:ident, $a:expr, 9, $c:block) => {
        { const $v: usize = $a; $c }
        { const $v: usize = $a + 1; $c }
        { const $v: usize = $a + 2; $c }
        { const $v: usize = $a + 3; $c }
        { const $v: usize = $a + 4; $c }
        { const $v: usize = $a + 5; $c }
        { const $v: usize = $a + 6; $c }
        { const $v: usize = $a + 7; $c }
        { const $v: usize = $a + 8; $c }
    };

    (@$v:ident, $a:expr, 10, $c:block) => {
        { const $v: usize = $a; $c }
        { const $v: usize = $a + 1; $c }
        { const $v: usize = $a + 2; $c }
        { const $v: usize = $a + 3; $c }
        { const $v: usize = $a + 4; $c }
        { const $v: usize = $a + 5; $c }
        { const $v: usize = $a + 6; $c }
        { const $v: usize = $a + 7; $c }
        { const $v: usize = $a + 8; $c }
        { const $v: usize = $a + 9; $c }
    };

    (@$v:ident, $a:expr, 11, $c:block) => {
        { const $v: usize = $a; $c }
        { const $v: usize = $a + 1; $c }
        { const $v: usize = $a + 2; $c }
        { const $v: usize = $a + 3; $c }
        { const $v: usize = $a + 4; $c }
        { const $v: usize = $a + 5; $c }
        { const $v: usize = $a + 6; $c }
        { const $v: usize = $a + 7; $c }
        { const $v: usize = $a + 8; $c }
        { const $v: usize = $a + 9; $c }
        { const $v: usize = $a + 10; $c }
    };

    (@$v:ident, $a:expr, 12, $c:block) => {
        { const $v: usize = $a; $c }
        { const $v: usize = $a + 1; $c }
        { const $v: usize = $a + 2; $c }
        { const $v: usize = $a + 3; $c }
        { const $v: usize = $a + 4; $c }
        { const $v: usize = $a + 5; $c }
        { const $v: usize = $a + 6; $c }
        { const $v: usize = $a + 7; $c }
        { const $v: usize = $a + 8; $c }
        { const $v: usize = $a + 9; $c }
        { const $v: usize = $a + 10; $c }
        { const $v: usize = $a + 11; $c }
    };

    (@$v:ident, $a:expr, 13, $c:block) => {
        { const $v: usize = $a; $c }
        { const $v: usize = $a + 1; $c }
        { const $v: usize = $a + 2; $c }
        { const $v: usize = $a + 3; $c }
        { const $v: usize = $a + 4; $c }
        { const $v: usize = $a + 5; $c }
        { const $v: usize = $a + 6; $c }
        { const $v: usize = $a + 7; $c }
        { const $v: usize = $a + 8; $c }
        { const $v: usize = $a + 9; $c }
        { const $v: usize = $a + 10; $c }
        { const $v: usize = $a + 11; $c }
        { const $v: usize = $a + 12; $c }
    };

    (@$v:ident, $a:expr, 14, $c:block) => {
        { const $v: usize = $a; $c }
        { const $v: usize = $a + 1; $c }
        { const $v: usize = $a + 2; $c }
        { const $v: usize = $a + 3; $c }
        { const $v: usize = $a + 4; $c }
        { const $v: usize = $a + 5; $c }
        { const $v: usize = $a + 6; $c }
        { const $v: usize = $a + 7; $c }
        { const $v: usize = $a + 8; $c }
        { const $v: usize = $a + 9; $c }
        { const $v: usize = $a + 10; $c }
        { const $v: usize = $a + 11; $c }
        { const $v: usize = $a + 12; $c }
        { const $v: usize = $a + 13; $c }
    };

    (@$v:ident, $a:expr, 15, $c:block) => {
        { const $v: usize = $a; $c }
        { const $v: usize = $a + 1; $c }
        { const $v: usize = $a + 2; $c }
        { const $v: usize = $a + 3; $c }
        { const $v: usize = $a + 4; $c }
        { const $v: usize = $a + 5; $c }
        { const $v: usize = $a + 6; $c }
        { const $v: usize = $a + 7; $c }
        { const $v: usize = $a + 8; $c }
        { const $v: usize = $a + 9; $c }
        { const $v: usize = $a + 10; $c }
        { const $v: usize = $a + 11; $c }
        { const $v: usize = $a + 12; $c }
        { const $v: usize = $a + 13; $c }
        { const $v: usize = $a + 14; $c }
    };

    (@$v:ident, $a:expr, 16, $c:block) => {
        { const $v: usize = $a; $c }
        { const $v: usize = $a + 1; $c }
        { const $v: usize = $a + 2; $c }
        { const $v: usize = $a + 3; $c }
        { const $v: usize = $a + 4; $c }
        { const $v: usize = $a + 5; $c }
        { const $v: usize = $a + 6; $c }
        { const $v: usize = $a + 7; $c }
        { const $v: usize = $a + 8; $c }
        { const $v: usize = $a + 9; $c }
        { const $v: usize = $a + 10; $c }
        { const $v: usize = $a + 11; $c }
        { const $v: usize = $a + 12; $c }
        { const $v: usize = $a + 13; $c }
        { const $v: usize = $a + 14; $c }
        { const $v: usize = $a + 15; $c }
    };

    (@$v:ident, $a:expr, 17, $c:block) => {
        unroll!(@$v, $a, 16, $c);
        { const $v: usize = $a + 16; $c }
    };

    (@$v:ident, $a:expr, 18, $c:block) => {
        unroll!(@$v, $a, 9, $c);
        unroll!(@$v, $a + 9, 9, $c);
    };

    (@$v:ident, $a:expr, 19, $c:block) => {
        unroll!(@$v, $a, 18, $c);
        { const $v: usize = $a + 18; $c }
    };

    (@$v:ident, $a:expr, 20, $c:block) => {
        unroll!(@$v, $a, 10, $c);
        unroll!(@$v, $a + 10, 10, $c);
    };

    (@$v:ident, $a:expr, 21, $c:block) => {
        unroll!(@$v, $a, 20, $c);
        { const $v: usize = $a + 20; $c }
    };

    (@$v:ident, $a:expr, 22, $c:block) => {
        unroll!(@$v, $a, 11, $c);
        unroll!(@$v, $a + 11, 11, $c);
    };

    (@$v:ident, $a:expr, 23, $c:block) => {
        unroll!(@$v, $a, 22, $c);
        { const $v: usize = $a + 22; $c }
    };

    (@$v:ident, $a:expr, 24, $c:block) => {
        unroll!(@$v, $a, 12, $c);
        unroll!(@$v, $a + 12, 12, $c);
    };

    (@$v:ident, $a:expr, 25, $c:block) => {
        unroll!(@$v, $a, 24, $c);
        { const $v: usize = $a + 24; $c }
    };

    (@$v:ident, $a:expr, 26, $c:block) => {
        unroll!(@$v, $a, 13, $c);
        unroll!(@$v, $a + 13, 13, $c);
    };

    (@$v:ident, $a:expr, 27, $c:block) => {
        unroll!(@$v, $a, 26, $c);
        { const $v: usize = $a + 26; $c }
    };

    (@$v:ident, $a:expr, 28, $c:block) => {
        unroll!(@$v, $a, 14, $c);
        unroll!(@$v, $a + 14, 14, $c);
    };

    (@$v:ident, $a:expr, 29, $c:block) => {
        unroll!(@$v, $a, 28, $c);
        { const $v: usize = $a + 28; $c }
    };

    (@$v:ident, $a:expr, 30, $c:block) => {
        unroll!(@$v, $a, 15, $c);
        unroll!(@$v, $a + 15, 15, $c);
    };

    (@$v:ident, $a:expr, 31, $c:block) => {
        unroll!(@$v, $a, 30, $c);
        { const $v: usize = $a + 30; $c }
    };

    (@$v:ident, $a:expr, 32, $c:block) => {
        unroll!(@$v, $a, 16, $c);
        unroll!(@$v, $a + 16, 16, $c);
    };

    (@$v:ident, $a:expr, 33, $c:block) => {
        unroll!(@$v, $a, 32, $c);
        { const $v: usize = $a + 32; $c }
    };

    (@$v:ident, $a:expr, 34, $c:block) => {
        unroll!(@$v, $a, 17, $c);
        unroll!(@$v, $a + 17, 17, $c);
    };

    (@$v:ident, $a:expr, 35, $c:block) => {
        unroll!(@$v, $a, 34, $c);
        { const $v: usize = $a + 34; $c }
    };

    (@$v:ident, $a:expr, 36, $c:block) => {
        unroll!(@$v, $a, 18, $c);
        unroll!(@$v, $a + 18, 18, $c);
    };

    (@$v:ident, $a:expr, 37, $c:block) => {
        unroll!(@$v, $a, 36, $c);
        { const $v: usize = $a + 36; $c }
    };

    (@$v:ident, $a:expr, 38, $c:block) => {
        unroll!(@$v, $a, 19, $c);
        unroll!(@$v, $a + 19, 19, $c);
    };

    (@$v:ident, $a:expr, 39, $c:block) => {
        unroll!(@$v, $a, 38, $c);
        { const $v: usize = $a + 38; $c }
    };

    (@$v:ident, $a:expr, 40, $c:block) => {
        unroll!(@$v, $a, 20, $c);
        unroll!(@$v, $a + 20, 20, $c);
    };

    (@$v:ident, $a:expr, 41, $c:block) => {
        unroll!(@$v, $a, 40, $c);
        { const $v: usize = $a + 40; $c }
    };

    (@$v:ident, $a:expr, 42, $c:block) => {
        unroll!(@$v, $a, 21, $c);
        unroll!(@$v, $a + 21, 21, $c);
    };

    (@$v:ident, $a:expr, 43, $c:block) => {
        unroll!(@$v, $a, 42, $c);
        { const $v: usize = $a + 42; $c }
    };

    (@$v:ident, $a:expr, 44, $c:block) => {
        unroll!(@$v, $a, 22, $c);
        unroll!(@$v, $a + 22, 22, $c);
    };

    (@$v:ident, $a:expr, 45, $c:block) => {
        unroll!(@$v, $a, 44, $c);
        { const $v: usize = $a + 44; $c }
    };

    (@$v:ident, $a:expr, 46, $c:block) => {
        unroll!(@$v, $a, 23, $c);
        unroll!(@$v, $a + 23, 23, $c);
    };

    (@$v:ident, $a:expr, 47, $c:block) => {
        unroll!(@$v, $a, 46, $c);
        { const $v: usize = $a + 46; $c }
    };

    (@$v:ident, $a:expr, 48, $c:block) => {
        unroll!(@$v, $a, 24, $c);
        unroll!(@$v, $a + 24, 24, $c);
    };

    (@$v:ident, $a:expr, 49, $c:block) => {
        unroll!(@$v, $a, 48, $c);
        { const $v: usize = $a + 48; $c }
    };

    (@$v:ident, $a:expr, 50, $c:block) => {
        unroll!(@$v, $a, 25, $c);
        unroll!(@$v, $a + 25, 25, $c);
    };

    (@$v:ident, $a:expr, 51, $c:block) => {
        unroll!(@$v, $a, 50, $c);
        { const $v: usize = $a + 50; $c }
    };

    (@$v:ident, $a:expr, 52, $c:block) => {
        unroll!(@$v, $a, 26, $c);
        unroll!(@$v, $a + 26, 26, $c);
    };

    (@$v:ident, $a:expr, 53, $c:block) => {
        unroll!(@$v, $a, 52, $c);
        { const $v: usize = $a + 52; $c }
    };

    (@$v:ident, $a:expr, 54, $c:block) => {
        unroll!(@$v, $a, 27, $c);
        unroll!(@$v, $a + 27, 27, $c);
    };

    (@$v:ident, $a:expr, 55, $c:block) => {
        unroll!(@$v, $a, 54, $c);
        { const $v: usize = $a + 54; $c }
    };

    (@$v:ident, $a:expr, 56, $c:block) => {
        unroll!(@$v, $a, 28, $c);
        unroll!(@$v, $a + 28, 28, $c);
    };

    (@$v:ident, $a:expr, 57, $c:block) => {
        unroll!(@$v, $a, 56, $c);
        { const $v: usize = $a + 56; $c }
    };

    (@$v:ident, $a:expr, 58, $c:block) => {
        unroll!(@$v, $a, 29, $c);
        unroll!(@$v, $a + 29, 29, $c);
    };

    (@$v:ident, $a:expr, 59, $c:block) => {
        unroll!(@$v, $a, 58, $c);
        { const $v: usize = $a + 58; $c }
    };

    (@$v:ident, $a:expr, 60, $c:block) => {
        unroll!(@$v, $a, 30, $c);
        unroll!(@$v, $a + 30, 30, $c);
    };

    (@$v:ident, $a:expr, 61, $c:block) => {
        unroll!(@$v, $a, 60, $c);
        { const $v: usize = $a + 60; $c }
    };

    (@$v:ident, $a:expr, 62, $c:block) => {
        unroll!(@$v, $a, 31, $c);
        unroll!(@$v, $a + 31, 31, $c);
    };

    (@$v:ident, $a:expr, 63, $c:block) => {
        unroll!(@$v, $a, 62, $c);
        { const $v: usize = $a + 62; $c }
    };

    (@$v:ident, $a:expr, 64, $c:block) => {
        unroll!(@$v, $a, 32, $c);
        unroll!(@$v, $a + 32, 32, $c);
    };

    (@$v:ident, $a:expr, 65, $c:block) => {
        unroll!(@$v, $a, 64, $c);
        { const $v: usize = $a + 64; $c }
    };

    (@$v:ident, $a:expr, 66, $c:block) => {
        unroll!(@$v, $a, 33, $c);
        unroll!(@$v, $a + 33, 33, $c);
    };

    (@$v:ident, $a:expr, 67, $c:block) => {
        unroll!(@$v, $a, 66, $c);
        { const $v: usize = $a + 66; $c }
    };

    (@$v:ident, $a:expr, 68, $c:block) => {
        unroll!(@$v, $a, 34, $c);
        unroll!(@$v, $a + 34, 34, $c);
    };

    (@$v:ident, $a:expr, 69, $c:block) => {
        unroll!(@$v, $a, 68, $c);
        { const $v: usize = $a + 68; $c }
    };

    (@$v:ident, $a:expr, 70, $c:block) => {
        unroll!(@$v, $a, 35, $c);
        unroll!(@$v, $a + 35, 35, $c);
    };

    (@$v:ident, $a:expr, 71, $c:block) => {
        unroll!(@$v, $a, 70, $c);
        { const $v: usize = $a + 70; $c }
    };

    (@$v:ident, $a:expr, 72, $c:block) => {
        unroll!(@$v, $a, 36, $c);
        unroll!(@$v, $a + 36, 36, $c);
    };

    (@$v:ident, $a:expr, 73, $c:block) => {
        unroll!(@$v, $a, 72, $c);
        { const $v: usize = $a + 72; $c }
    };

    (@$v:ident, $a:expr, 74, $c:block) => {
        unroll!(@$v, $a, 37, $c);
        unroll!(@$v, $a + 37, 37, $c);
    };

    (@$v:ident, $a:expr, 75, $c:block) => {
        unroll!(@$v, $a, 74, $c);
        { const $v: usize = $a + 74; $c }
    };

    (@$v:ident, $a:expr, 76, $c:block) => {
        unroll!(@$v, $a, 38, $c);
        unroll!(@$v, $a + 38, 38, $c);
    };

    (@$v:ident, $a:expr, 77, $c:block) => {
        unroll!(@$v, $a, 76, $c);
        { const $v: usize = $a + 76; $c }
    };

    (@$v:ident, $a:expr, 78, $c:block) => {
        unroll!(@$v, $a, 39, $c);
        unroll!(@$v, $a + 39, 39, $c);
    };

    (@$v:ident, $a:expr, 79, $c:block) => {
        unroll!(@$v, $a, 78, $c);
        { const $v: usize = $a + 78; $c }
    };

    (@$v:ident, $a:expr, 80, $c:block) => {
        unroll!(@$v, $a, 40, $c);
        unroll!(@$v, $a + 40, 40, $c);
    };

    (@$v:ident, $a:expr, 81, $c:block) => {
        unroll!(@$v, $a, 80, $c);
        { const $v: usize = $a + 80; $c }
    };

    (@$v:ident, $a:expr, 82, $c:block) => {
        unroll!(@$v, $a, 41, $c);
        unroll!(@$v, $a + 41, 41, $c);
    };

    (@$v:ident, $a:expr, 83, $c:block) => {
        unroll!(@$v, $a, 82, $c);
        { const $v: usize = $a + 82; $c }
    };

    (@$v:ident, $a:expr, 84, $c:block) => {
        unroll!(@$v, $a, 42, $c);
        unroll!(@$v, $a + 42, 42, $c);
    };

    (@$v:ident, $a:expr, 85, $c:block) => {
        unroll!(@$v, $a, 84, $c);
        { const $v: usize = $a + 84; $c }
    };

    (@$v:ident, $a:expr, 86, $c:block) => {
        unroll!(@$v, $a, 43, $c);
        unroll!(@$v, $a + 43, 43, $c);
    };

    (@$v:ident, $a:expr, 87, $c:block) => {
        unroll!(@$v, $a, 86, $c);
        { const $v: usize = $a + 86; $c }
    };

    (@$v:ident, $a:expr, 88, $c:block) => {
        unroll!(@$v, $a, 44, $c);
        unroll!(@$v, $a + 44, 44, $c);
    };

    (@$v:ident, $a:expr, 89, $c:block) => {
        unroll!(@$v, $a, 88, $c);
        { const $v: usize = $a + 88; $c }
    };

    (@$v:ident, $a:expr, 90, $c:block) => {
        unroll!(@$v, $a, 45, $c);
        unroll!(@$v, $a + 45, 45, $c);
    };

    (@$v:ident, $a:expr, 91, $c:block) => {
        unroll!(@$v, $a, 90, $c);
        { const $v: usize = $a + 90; $c }
    };

    (@$v:ident, $a:expr, 92, $c:block) => {
        unroll!(@$v, $a, 46, $c);
        unroll!(@$v, $a + 46, 46, $c);
    };

    (@$v:ident, $a:expr, 93, $c:block) => {
        unroll!(@$v, $a, 92, $c);
        { const $v: usize = $a + 92; $c }
    };

    (@$v:ident, $a:expr, 94, $c:block) => {
        unroll!(@$v, $a, 47, $c);
        unroll!(@$v, $a + 47, 47, $c);
    };

    (@$v:ident, $a:expr, 95, $c:block) => {
        unroll!(@$v, $a, 94, $c);
        { const $v: usize = $a + 94; $c }
    };

    (@$v:ident, $a:expr, 96, $c:block) => {
        unroll!(@$v, $a, 48, $c);
        unroll!(@$v, $a + 48, 48, $c);
    };

    (@$v:ident, $a:expr, 97, $c:block) => {
        unroll!(@$v, $a, 96, $c);
        { const $v: usize = $a + 96; $c }
    };

    (@$v:ident, $a:expr, 98, $c:block) => {
        unroll!(@$v, $a, 49, $c);
        unroll!(@$v, $a + 49, 49, $c);
    };

    (@$v:ident, $a:expr, 99, $c:block) => {
        unroll!(@$v, $a, 98, $c);
        { const $v: usize = $a + 98; $c }
    };

    (@$v:ident, $a:expr, 100, $c:block) => {
        unroll!(@$v, $a, 50, $c);
        unroll!(@$v, $a + 50, 50, $c);
    };

    (@$v:ident, $a:expr, 101, $c:block) => {
        unroll!(@$v, $a, 100, $c);
        { const $v: usize = $a + 100; $c }
    };

    (@$v:ident, $a:expr, 102, $c:block) => {
        unroll!(@$v, $a, 51, $c);
        unroll!(@$v, $a + 51, 51, $c);
    };

    (@$v:ident, $a:expr, 103, $c:block) => {
        unroll!(@$v, $a, 102, $c);
        { const $v: usize = $a + 102; $c }
    };

    (@$v:ident, $a:expr, 104, $c:block) => {
        unroll!(@$v, $a, 52, $c);
        unroll!(@$v, $a + 52, 52, $c);
    };

    (@$v:ident, $a:expr, 105, $c:block) => {
        unroll!(@$v, $a, 104, $c);
        { const $v: usize = $a + 104; $c }
    };

    (@$v:ident, $a:expr, 106, $c:block) => {
        unroll!(@$v, $a, 53, $c);
        unroll!(@$v, $a + 53, 53, $c);
    };

    (@$v:ident, $a:expr, 107, $c:block) => {
        unroll!(@$v, $a, 106, $c);
        { const $v: usize = $a + 106; $c }
    };

    (@$v:ident, $a:expr, 108, $c:block) => {
        unroll!(@$v, $a, 54, $c);
        unroll!(@$v, $a + 54, 54, $c);
    };

    (@$v:ident, $a:expr, 109, $c:block) => {
        unroll!(@$v, $a, 108, $c);
        { const $v: usize = $a + 108; $c }
    };

    (@$v:ident, $a:expr, 110, $c:block) => {
        unroll!(@$v, $a, 55, $c);
        unroll!(@$v, $a + 55, 55, $c);
    };

    (@$v:ident, $a:expr, 111, $c:block) => {
        unroll!(@$v, $a, 110, $c);
        { const $v: usize = $a + 110; $c }
    };

    (@$v:ident, $a:expr, 112, $c:block) => {
        unroll!(@$v, $a, 56, $c);
        unroll!(@$v, $a + 56, 56, $c);
    };

    (@$v:ident, $a:expr, 113, $c:block) => {
        unroll!(@$v, $a, 112, $c);
        { const $v: usize = $a + 112; $c }
    };

    (@$v:ident, $a:expr, 114, $c:block) => {
        unroll!(@$v, $a, 57, $c);
        unroll!(@$v, $a + 57, 57, $c);
    };

    (@$v:ident, $a:expr, 115, $c:block) => {
        unroll!(@$v, $a, 114, $c);
        { const $v: usize = $a + 114; $c }
    };

    (@$v:ident, $a:expr, 116, $c:block) => {
        unroll!(@$v, $a, 58, $c);
        unroll!(@$v, $a + 58, 58, $c);
    };

    (@$v:ident, $a:expr, 117, $c:block) => {
        unroll!(@$v, $a, 116, $c);
        { const $v: usize = $a + 116; $c }
    };

    (@$v:ident, $a:expr, 118, $c:block) => {
        unroll!(@$v, $a, 59, $c);
        unroll!(@$v, $a + 59, 59, $c);
    };

    (@$v:ident, $a:expr, 119, $c:block) => {
        unroll!(@$v, $a, 118, $c);
        { const $v: usize = $a + 118; $c }
    };

    (@$v:ident, $a:expr, 120, $c:block) => {
        unroll!(@$v, $a, 60, $c);
        unroll!(@$v, $a + 60, 60, $c);
    };

    (@$v:ident, $a:expr, 121, $c:block) => {
        unroll!(@$v, $a, 120, $c);
        { const $v: usize = $a + 120; $c }
    };

    (@$v:ident, $a:expr, 122, $c:block) => {
        unroll!(@$v, $a, 61, $c);
        unroll!(@$v, $a + 61, 61, $c);
    };

    (@$v:ident, $a:expr, 123, $c:block) => {
        unroll!(@$v, $a, 122, $c);
        { const $v: usize = $a + 122; $c }
    };

    (@$v:ident, $a:expr, 124, $c:block) => {
        unroll!(@$v, $a, 62, $c);
        unroll!(@$v, $a + 62, 62, $c);
    };

    (@$v:ident, $a:expr, 125, $c:block) => {
        unroll!(@$v, $a, 124, $c);
        { const $v: usize = $a + 124; $c }
    };

    (@$v:ident, $a:expr, 126, $c:block) => {
        unroll!(@$v, $a, 63, $c);
        unroll!(@$v, $a + 63, 63, $c);
    };

    (@$v:ident, $a:expr, 127, $c:block) => {
        unroll!(@$v, $a, 126, $c);
        { const $v: usize = $a + 126; $c }
    };

    (@$v:ident, $a:expr, 128, $c:block) => {
        unroll!(@$v, $a, 64, $c);
        unroll!(@$v, $a + 64, 64, $c);
    };

}


#[cfg(all(test, feature = "std"))]
mod tests {
    #[test]
    fn invalid_range() {
        let mut a: Vec<usize> = vec![];
        unroll! {
                for i in (5..4) {
                    a.push(i);
                }
            }
        assert_eq!(a, vec![]);
    }

    #[test]
    fn start_at_one_with_step() {
        let mut a: Vec<usize> = vec![];
        unroll! {
                for i in (2..4).step_by(1) {
                    a.push(i);
                }
            }
        assert_eq!(a, vec![2, 3]);
    }

    #[test]
    fn start_at_one() {
        let mut a: Vec<usize> = vec![];
        unroll! {
                for i in 1..4 {
                    a.push(i);
                }
            }
        assert_eq!(a, vec![1, 2, 3]);
    }

    #[test]
    fn test_all() {
        {
            let a: Vec<usize> = vec![];
            unroll! {
                for i in 0..0 {
                    a.push(i);
                }
            }
            assert_eq!(a, (0..0).collect::<Vec<usize>>());
        }
        {
            let mut a: Vec<usize> = vec![];
            unroll! {
                for i in 0..1 {
                    a.push(i);
                }
            }
            assert_eq!(a, (0..1).collect::<Vec<usize>>());
        }
        {
            let mut a: Vec<usize> = vec![];
            unroll! {
                for i in 0..128 {
                    a.push(i);
                }
            }
            assert_eq!(a, (0..128).collect::<Vec<usize>>());
        }
        {
            let mut a: Vec<usize> = vec![];
            let start = 128 / 4;
            let end = start * 3;
            unroll! {
                for i < 128 in start..end {
                    a.push(i);
                }
            }
            assert_eq!(a, (start..end).collect::<Vec<usize>>());
        }
        {
            let mut a: Vec<usize> = vec![];
            unroll! {
                for i in (0..128).step_by(2) {
                    a.push(i);
                }
            }
            assert_eq!(a, (0..128 / 2).map(|x| x * 2).collect::<Vec<usize>>());
        }
        {
            let mut a: Vec<usize> = vec![];
            let start = 128 / 4;
            let end = start * 3;
            unroll! {
                for i < 128 in (start..end).step_by(2) {
                    a.push(i);
                }
            }
            assert_eq!(a, (start..end).filter(|x| x % 2 == 0).collect::<Vec<usize>>());
        }
    }
}
